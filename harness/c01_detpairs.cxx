// C01: detector pairs <-> sinogram bins form a consistent partition (DESIGN.md §6 C01).
// Oracle = the statement itself, exact integer equality, exhaustive sweep per configuration.
#include "common/verif.h"
#include "common/gen.h"
#include "stir/ProjDataInfoCylindricalNoArcCorr.h"
#include "stir/ProjDataInfoBlocksOnCylindricalNoArcCorr.h"
#include "stir/ProjDataInfoGenericNoArcCorr.h"
#include "stir/DetectionPositionPair.h"
#include "stir/Bin.h"
#include <unordered_map>
#include <tuple>

using namespace stir;
using vf::Ctx;

struct Ev // canonical detector-pair event
{
  int d1, r1, d2, r2, t;
  bool operator<(const Ev& o) const { return std::tie(d1, r1, d2, r2, t) < std::tie(o.d1, o.r1, o.d2, o.r2, o.t); }
  bool operator==(const Ev& o) const { return std::tie(d1, r1, d2, r2, t) == std::tie(o.d1, o.r1, o.d2, o.r2, o.t); }
};
static Ev
canon(int d1, int r1, int d2, int r2, int t)
{
  if (std::make_pair(d1, r1) <= std::make_pair(d2, r2))
    return Ev{ d1, r1, d2, r2, t };
  return Ev{ d2, r2, d1, r1, -t };
}
static std::string
evs(const Ev& e)
{
  return vf::fmt("(d%d,r%d)-(d%d,r%d),t%d", e.d1, e.r1, e.d2, e.r2, e.t);
}
static std::string
bins(const Bin& b)
{
  return vf::fmt("bin(seg%d,ax%d,view%d,tang%d,tof%d)", b.segment_num(), b.axial_pos_num(), b.view_num(), b.tangential_pos_num(),
                 b.timing_pos_num());
}
struct BinKey
{
  int s, a, v, tg, k;
  bool operator<(const BinKey& o) const { return std::tie(s, a, v, tg, k) < std::tie(o.s, o.a, o.v, o.tg, o.k); }
};
static BinKey
key(const Bin& b)
{
  return BinKey{ b.segment_num(), b.axial_pos_num(), b.view_num(), b.tangential_pos_num(), b.timing_pos_num() };
}

// adapters for the slightly different signatures
static void
all_pairs(const ProjDataInfoCylindricalNoArcCorr& p, std::vector<DetectionPositionPair<>>& v, const Bin& b, bool ign)
{
  p.get_all_det_pos_pairs_for_bin(v, b, ign);
}
static unsigned
num_pairs(const ProjDataInfoCylindricalNoArcCorr& p, const Bin& b, bool ign)
{
  return p.get_num_det_pos_pairs_for_bin(b, ign);
}
static void
all_pairs(const ProjDataInfoGenericNoArcCorr& p, std::vector<DetectionPositionPair<>>& v, const Bin& b, bool)
{
  p.get_all_det_pos_pairs_for_bin(v, b);
}
static unsigned
num_pairs(const ProjDataInfoGenericNoArcCorr& p, const Bin& b, bool)
{
  return p.get_num_det_pos_pairs_for_bin(b);
}

template <class PDI>
static bool
in_range(const PDI& p, const Bin& b)
{
  if (b.segment_num() < p.get_min_segment_num() || b.segment_num() > p.get_max_segment_num())
    return false;
  if (b.axial_pos_num() < p.get_min_axial_pos_num(b.segment_num()) || b.axial_pos_num() > p.get_max_axial_pos_num(b.segment_num()))
    return false;
  if (b.view_num() < p.get_min_view_num() || b.view_num() > p.get_max_view_num())
    return false;
  if (b.tangential_pos_num() < p.get_min_tangential_pos_num() || b.tangential_pos_num() > p.get_max_tangential_pos_num())
    return false;
  if (b.timing_pos_num() < p.get_min_tof_pos_num() || b.timing_pos_num() > p.get_max_tof_pos_num())
    return false;
  return true;
}

template <class PDI>
static void
sweep(Ctx& ctx, const PDI& pdi, bool tof_capable, int ring_stride_mode)
{
  const Scanner& sc = *pdi.get_scanner_ptr();
  const int N = sc.get_num_detectors_per_ring(), R = sc.get_num_rings();
  const bool is_tof = pdi.is_tof_data();
  const int mash = pdi.get_tof_mash_factor();
  const int tmax = is_tof ? sc.get_max_num_timing_poss() / 2 : 0;
  // unmashed timing indices to sweep: a little beyond what fits, to see the "at most one bin / out of range" clause
  const int tlo = is_tof ? -tmax : 0, thi = is_tof ? tmax : 0;
  (void)tof_capable;

  // ring pairs to sweep: all (small scanners) or a factorised subset (large): all detector pairs x 3 ring pairs,
  // plus all ring pairs x a stride of detector pairs.  exact because F factorises (checked exhaustively on small scanners)
  std::vector<std::pair<int, int>> ring_pairs_full;
  for (int r1 = 0; r1 < R; ++r1)
    for (int r2 = 0; r2 < R; ++r2)
      ring_pairs_full.push_back({ r1, r2 });
  const bool factorised = ring_stride_mode != 0;
  std::vector<std::pair<int, int>> ring_pairs_few = { { 0, 0 }, { 0, R - 1 }, { R / 2, std::max(0, R / 2 - 1) } };
  const int det_stride = factorised ? std::max(1, N / 16) + 1 : 1;

  std::map<BinKey, std::vector<Ev>> inverse; // F^-1 built from the forward sweep
  long assigned = 0, unassigned = 0, swept = 0;
  auto forward = [&](int d1, int r1, int d2, int r2, int t, bool record) -> bool {
    DetectionPositionPair<> dp(DetectionPosition<>(d1, r1, 0), DetectionPosition<>(d2, r2, 0), t);
    Bin b;
    const Succeeded ok = pdi.get_bin_for_det_pos_pair(b, dp);
    ++swept;
    const bool asg = ok == Succeeded::yes && in_range(pdi, b);
    if (!asg)
      {
        ++unassigned;
        return true;
      }
    ++assigned;
    // swap clause: exchanging the detectors gives the same spatial bin with the TOF index negated
    {
      DetectionPositionPair<> dps(DetectionPosition<>(d2, r2, 0), DetectionPosition<>(d1, r1, 0), t);
      Bin bs;
      const Succeeded oks = pdi.get_bin_for_det_pos_pair(bs, dps);
      if (oks != Succeeded::yes || bs.segment_num() != b.segment_num() || bs.axial_pos_num() != b.axial_pos_num()
          || bs.view_num() != b.view_num() || bs.tangential_pos_num() != b.tangential_pos_num()
          || bs.timing_pos_num() != -b.timing_pos_num())
        {
          ctx.violation("swap-detectors-not-same-bin-with-negated-tof",
                        evs(Ev{ d1, r1, d2, r2, t }) + " -> " + bins(b) + " but swapped -> " + (oks == Succeeded::yes ? bins(bs) : "none"));
          return false;
        }
    }
    if (record)
      inverse[key(b)].push_back(canon(d1, r1, d2, r2, t));
    return true;
  };

  for (int d1 = 0; d1 < N; ++d1)
    for (int d2 = 0; d2 < N; ++d2)
      {
        if (d1 == d2)
          continue;
        const bool det_in_stride = ((d1 * 7 + d2 * 3) % det_stride) == 0;
        const auto& rps = factorised ? (det_in_stride ? ring_pairs_full : ring_pairs_few) : ring_pairs_full;
        for (auto& rp : rps)
          for (int t = tlo; t <= thi; ++t)
            if (!forward(d1, rp.first, d2, rp.second, t, !factorised))
              return;
      }
  ctx.count("pairs_swept", swept);
  ctx.count("pairs_assigned", assigned);
  ctx.count("pairs_unassigned", unassigned);

  // every bin: reported contributors == F^-1(bin), count matches, no duplicates
  long bins_checked = 0, nonempty = 0;
  std::vector<DetectionPositionPair<>> dps;
  const bool uncompressed = pdi.get_view_mashing_factor() == 1 && mash <= 1;
  for (int seg = pdi.get_min_segment_num(); seg <= pdi.get_max_segment_num(); ++seg)
    for (int ax = pdi.get_min_axial_pos_num(seg); ax <= pdi.get_max_axial_pos_num(seg); ++ax)
      for (int view = pdi.get_min_view_num(); view <= pdi.get_max_view_num(); ++view)
        for (int tg = pdi.get_min_tangential_pos_num(); tg <= pdi.get_max_tangential_pos_num(); ++tg)
          for (int k = pdi.get_min_tof_pos_num(); k <= pdi.get_max_tof_pos_num(); ++k)
            {
              Bin b(seg, view, ax, tg);
              b.timing_pos_num() = k;
              ++bins_checked;
              all_pairs(pdi, dps, b, !is_tof);
              const unsigned n = num_pairs(pdi, b, !is_tof);
              if (dps.size() != n)
                {
                  ctx.violation("reported-count-differs-from-list", bins(b) + vf::fmt(" list %zu count %u", dps.size(), n));
                  return;
                }
              std::vector<Ev> got;
              for (auto& dp : dps)
                got.push_back(canon(dp.pos1().tangential_coord(), dp.pos1().axial_coord(), dp.pos2().tangential_coord(),
                                    dp.pos2().axial_coord(), is_tof ? dp.timing_pos() : 0));
              std::sort(got.begin(), got.end());
              if (std::adjacent_find(got.begin(), got.end()) != got.end())
                {
                  ctx.violation("duplicate-pair-in-list", bins(b));
                  return;
                }
              if (!factorised)
                {
                  std::vector<Ev> want = inverse[key(b)];
                  std::sort(want.begin(), want.end());
                  want.erase(std::unique(want.begin(), want.end()), want.end()); // both detector orders map here
                  if (!want.empty())
                    ++nonempty;
                  if (got != want)
                    {
                      std::string w = bins(b) + vf::fmt(": reports %zu pairs, %zu pairs are assigned to it;", got.size(), want.size());
                      for (auto& e : got)
                        if (!std::binary_search(want.begin(), want.end(), e))
                          {
                            w += " reported-but-not-assigned " + evs(e);
                            break;
                          }
                      for (auto& e : want)
                        if (!std::binary_search(got.begin(), got.end(), e))
                          {
                            w += " assigned-but-not-reported " + evs(e);
                            break;
                          }
                      ctx.violation("contributors-differ-from-assigned-pairs", w);
                      return;
                    }
                }
              else
                {
                  // factorised: each reported pair must map forward to this very bin
                  for (auto& e : got)
                    {
                      DetectionPositionPair<> dp(DetectionPosition<>(e.d1, e.r1, 0), DetectionPosition<>(e.d2, e.r2, 0), e.t);
                      Bin fb;
                      if (pdi.get_bin_for_det_pos_pair(fb, dp) != Succeeded::yes || !(key(fb).s == seg && key(fb).a == ax
                          && key(fb).v == view && key(fb).tg == tg && key(fb).k == k))
                        {
                          ctx.violation("reported-pair-maps-to-other-bin", bins(b) + " lists " + evs(e) + " which maps to " + bins(fb));
                          return;
                        }
                    }
                  if (!got.empty())
                    ++nonempty;
                }
              // uncompressed: the two maps are mutual inverses
              if (uncompressed && pdi.get_max_ring_difference(seg) == pdi.get_min_ring_difference(seg))
                {
                  DetectionPositionPair<> g;
                  pdi.get_det_pos_pair_for_bin(g, b);
                  Bin fb;
                  if (pdi.get_bin_for_det_pos_pair(fb, g) != Succeeded::yes || key(fb).s != seg || key(fb).a != ax || key(fb).v != view
                      || key(fb).tg != tg || key(fb).k != k)
                    {
                      ctx.violation("bin-to-pair-to-bin-not-identity", bins(b) + " -> pair -> " + bins(fb));
                      return;
                    }
                  ctx.count("inverse_roundtrips");
                  // and G(F(p)) ~ p : the pair must be (one of) the reported contributors, which is a single one
                  if (got.size() == 1
                      && !(got[0]
                           == canon(g.pos1().tangential_coord(), g.pos1().axial_coord(), g.pos2().tangential_coord(),
                                    g.pos2().axial_coord(), is_tof ? g.timing_pos() : 0)))
                    {
                      ctx.violation("pair-for-bin-not-the-contributor", bins(b));
                      return;
                    }
                }
            }
  ctx.count("bins_checked", bins_checked);
  ctx.count("bins_with_contributors", nonempty);
  // bins not visited above but present in the inverse map would be out of range: impossible by construction (in_range)

  // ring pairs partitioned over (segment, axial position)
  {
    std::map<std::pair<int, int>, int> times_listed;
    for (int seg = pdi.get_min_segment_num(); seg <= pdi.get_max_segment_num(); ++seg)
      for (int ax = pdi.get_min_axial_pos_num(seg); ax <= pdi.get_max_axial_pos_num(seg); ++ax)
        {
          const auto& rps = pdi.get_all_ring_pairs_for_segment_axial_pos_num(seg, ax);
          if (rps.size() != static_cast<size_t>(pdi.get_num_ring_pairs_for_segment_axial_pos_num(seg, ax)))
            {
              ctx.violation("ring-pair-count-differs-from-list", vf::fmt("seg %d ax %d", seg, ax));
              return;
            }
          for (auto& rp : rps)
            {
              ++times_listed[{ rp.first, rp.second }];
              int s2, a2;
              if (pdi.get_segment_axial_pos_num_for_ring_pair(s2, a2, rp.first, rp.second) != Succeeded::yes || s2 != seg || a2 != ax)
                {
                  ctx.violation("listed-ring-pair-maps-elsewhere", vf::fmt("(%d,%d) listed in seg %d ax %d maps to seg %d ax %d", rp.first,
                                                                         rp.second, seg, ax, s2, a2));
                  return;
                }
            }
        }
    for (int r1 = 0; r1 < R; ++r1)
      for (int r2 = 0; r2 < R; ++r2)
        {
          bool covered = false;
          for (int seg = pdi.get_min_segment_num(); seg <= pdi.get_max_segment_num(); ++seg)
            if (r2 - r1 >= pdi.get_min_ring_difference(seg) && r2 - r1 <= pdi.get_max_ring_difference(seg))
              covered = true;
          const int n = times_listed.count({ r1, r2 }) ? times_listed[{ r1, r2 }] : 0;
          if (n != (covered ? 1 : 0))
            {
              ctx.violation(covered ? "covered-ring-pair-not-in-exactly-one-list" : "uncovered-ring-pair-listed",
                            vf::fmt("ring pair (%d,%d) diff %d listed %d times", r1, r2, r2 - r1, n));
              return;
            }
          int s2, a2;
          const bool ok = pdi.get_segment_axial_pos_num_for_ring_pair(s2, a2, r1, r2) == Succeeded::yes;
          if (ok != covered)
            {
              ctx.violation("ring-pair-assignment-disagrees-with-ring-difference-coverage",
                            vf::fmt("ring pair (%d,%d) assigned=%d covered=%d", r1, r2, ok, covered));
              return;
            }
          ctx.count("ring_pairs_checked");
        }
  }
}

static const Scanner::Type PREDEF[] = { Scanner::E931,      Scanner::E951,       Scanner::E953,         Scanner::E921,
                                        Scanner::E966,      Scanner::E962,       Scanner::RPT,          Scanner::HiDAC,
                                        Scanner::Advance,   Scanner::DiscoveryLS, Scanner::DiscoveryST, Scanner::DiscoverySTE,
                                        Scanner::DiscoveryRX, Scanner::Discovery600, Scanner::PETMR_Signa, Scanner::Discovery690,
                                        Scanner::DiscoveryMI3ring, Scanner::HZLR, Scanner::RATPET, Scanner::PANDA, Scanner::HYPERimage,
                                        Scanner::nanoPET, Scanner::HRRT, Scanner::Allegro, Scanner::GeminiTF, Scanner::SAFIRDualRingPrototype,
                                        Scanner::Siemens_mMR, Scanner::Siemens_mCT, Scanner::Siemens_Vision_600 };

static void
run_case(Ctx& ctx)
{
  vf::Rng& rng = ctx.rng;
  // predefined (full-size) scanners: thorough tier, -O2 flavour only (a factorised sweep of e.g. the Vision 600 is ~1e8 map
  // evaluations, hours under ASan); chosen by the case's own PRNG so that they are spread evenly over the shards
#ifdef NDEBUG
  const bool predefined = ctx.thorough() && rng.coin(0.05);
#else
  const bool predefined = false;
#endif
  shared_ptr<Scanner> sc;
  vg::ScannerSpec ss;
  if (predefined)
    {
      const Scanner::Type t = PREDEF[rng.range(0, static_cast<long>(sizeof(PREDEF) / sizeof(PREDEF[0])) - 1)];
      sc.reset(new Scanner(t));
      if (sc->get_num_detectors_per_ring() % 2 || sc->get_scanner_geometry() != "Cylindrical")
        throw vf::Skip("predefined scanner not cylindrical/even");
      if (sc->get_num_rings() < 1 || sc->get_num_detectors_per_ring() < 4)
        throw vf::Skip("predefined scanner type without ring/detector description"); // e.g. HiDAC (0 rings)
      ss.ndet = sc->get_num_detectors_per_ring();
      ss.nrings = sc->get_num_rings();
      ss.tof_bins = sc->is_tof_ready() ? sc->get_max_num_timing_poss() : 0;
      ctx.desc.add("scanner", sc->get_name());
    }
  else
    {
      vg::ScannerOpts so;
      so.max_det = ctx.thorough() ? (rng.coin(0.1) ? 400 : 96) : 40;
      so.max_rings = ctx.thorough() ? 8 : 5;
      so.allow_blocks = true;
      so.p_tof = 0.35;
      ss = vg::gen_scanner(rng, so);
      if (ss.geom != "Cylindrical")
        ss.tof_bins = 0;
      ctx.desc.add("scanner", ss.desc());
      try
        {
          sc = vg::make_scanner(ss);
        }
      catch (const std::exception& e)
        {
          throw vf::Skip(std::string("scanner rejected: ") + e.what());
        }
    }
  vg::PdiOpts po;
  po.allow_arccorr = false;
  vg::PdiSpec ps = vg::gen_pdi(rng, ss, po);
  // C01 sweeps need odd TOF mashing factors (get_all_det_pos_pairs_for_bin documents no support for even ones)
  if (ss.tof_bins > 0 && ps.tof_mash > 0 && ps.tof_mash % 2 == 0)
    ps.tof_mash = 1;
  if (predefined)
    {
      // keep the sweep affordable: restrict TOF to heavy mashing on the big scanners
      if (ss.tof_bins > 0)
        {
          ps.tof_mash = 0;
        }
      ps.num_tang = std::min(ps.num_tang, sc->get_max_num_non_arccorrected_bins());
      if (ps.num_tang < 1)
        ps.num_tang = sc->get_max_num_non_arccorrected_bins();
    }
  if (ss.geom != "Cylindrical")
    {
      // ProjDataInfoGeneric/BlocksOnCylindrical are documented as restricted to span=1 (no axial compression)
      ps.ge_mixed = false;
      ps.span = 1;
      ps.max_delta = static_cast<int>(rng.range(0, ss.nrings - 1));
    }
  shared_ptr<ProjDataInfo> pdi;
  try
    {
      pdi = vg::make_pdi(sc, ps, &rng);
    }
  catch (const std::exception& e)
    {
      throw vf::Skip(std::string("pdi rejected: ") + e.what());
    }
  ctx.desc.add("pdi", ps.desc());
  // asymmetric segment ranges (e.g. -2..1, 0..2, -3..0): legal for reduce_segment_range, and the ring-difference look-ups must
  // not assume that the stored ring differences are symmetric around 0.  Drawn from a PRNG of its own so that the rest of the
  // case is what it was before this was added.
  {
    vf::Rng r2(vf::mix3(ctx.seed, static_cast<uint64_t>(ctx.idx), 0xA5E6));
    if (r2.coin(0.4) && pdi->get_max_segment_num() >= 1)
      {
        const int lo = static_cast<int>(r2.range(pdi->get_min_segment_num(), 0));
        const int hi = static_cast<int>(r2.range(0, pdi->get_max_segment_num()));
        if (lo != -hi)
          {
            pdi->reduce_segment_range(lo, hi);
            ctx.desc.add("asymmetric_segment_range_min", lo).add("asymmetric_segment_range_max", hi);
            ctx.count(-lo > hi ? "cfg_more_negative_segments" : "cfg_more_positive_segments");
          }
      }
  }
  // history: the lazily built detector-pair tables must not remember the view mashing in force when they were first used.
  // The object is given another number of views, used once for a pair -> bin look-up, and then set (back) to the number of
  // views of this case through the public setter (what SSRB and interpolate_projdata do on a clone); sometimes the object swept
  // is a clone of it.  Own PRNG, so that the rest of the case is what it was before this was added.
  if (ss.geom == "Cylindrical")
    {
      vf::Rng r3(vf::mix3(ctx.seed, static_cast<uint64_t>(ctx.idx), 0xB17E));
      if (r3.coin(0.3))
        {
          const int maxviews = ss.ndet / 2;
          std::vector<int> others;
          for (int d = 1; d <= maxviews; ++d)
            if (maxviews % d == 0 && maxviews / d != pdi->get_num_views())
              others.push_back(maxviews / d);
          if (auto pc = dynamic_cast<ProjDataInfoCylindricalNoArcCorr*>(pdi.get()))
            if (!others.empty())
              {
                const int final_views = pdi->get_num_views();
                const int other = r3.pick(others);
                pdi->set_num_views(other);
                Bin b;
                (void)pc->get_bin_for_det_pos_pair(
                    b, DetectionPositionPair<>(DetectionPosition<>(0, 0, 0), DetectionPosition<>(static_cast<unsigned>(ss.ndet / 2), 0, 0), 0));
                pdi->set_num_views(final_views);
                if (r3.coin())
                  pdi = pdi->create_shared_clone();
                ctx.desc.add("tables_first_used_with_num_views", other);
                ctx.count("cfg_tables_first_used_with_another_view_mashing");
              }
        }
    }
  const long work = static_cast<long>(ss.ndet) * ss.ndet * ss.nrings * ss.nrings * std::max(1, ss.tof_bins);
  const int mode = work > 6000000L ? 1 : 0;
  ctx.desc.add("factorised", mode);
  ctx.heartbeat("sweep");
  if (auto p = dynamic_cast<const ProjDataInfoCylindricalNoArcCorr*>(pdi.get()))
    sweep(ctx, *p, true, mode);
  else if (auto p = dynamic_cast<const ProjDataInfoGenericNoArcCorr*>(pdi.get()))
    sweep(ctx, *p, false, mode);
  else
    throw vf::Skip("unexpected pdi class");
  // non-trivial: some compression or TOF or >1 ring, and at least one bin with contributors
  ctx.nontrivial = ctx.obs["bins_with_contributors"] > 0 && ctx.obs["pairs_assigned"] > 0;
  ctx.count(ps.span > 1 || ps.ge_mixed ? "cfg_axial_compression" : "cfg_span1");
  if (ps.num_views < ss.ndet / 2)
    ctx.count("cfg_view_mashing");
  if (pdi->is_tof_data())
    ctx.count(ps.tof_mash > 1 ? "cfg_tof_mashed" : "cfg_tof");
  if (ss.geom != "Cylindrical")
    ctx.count("cfg_blocks");
  if (ps.span % 2 == 0)
    ctx.count("cfg_even_span");
}

int
main(int argc, char** argv)
{
  vg::quiet();
  return vf::verif_main(argc, argv, "C01", run_case);
}
