// C02: projection data are one coherent array across access paths, layouts and files (DESIGN.md §6 C02).
// History + executable reference model (dense map with its own index formula, unique values per write);
// file backing: an independent reader re-opens the file after every write call and decodes the bytes
// with an independent offset formula; out-of-range requests must be reported (rel flavour: asserts off).
#include "common/verif.h"
#include "common/gen.h"
#include "stir/ProjData.h"
#include "stir/ProjDataInMemory.h"
#include "stir/ProjDataFromStream.h"
#include "stir/ProjDataInterfile.h"
#include "stir/ExamInfo.h"
#include "stir/Viewgram.h"
#include "stir/Sinogram.h"
#include "stir/SegmentByView.h"
#include "stir/SegmentBySinogram.h"
#include "stir/RelatedViewgrams.h"
#include "stir/TrivialDataSymmetriesForViewSegmentNumbers.h"
#include "stir/recon_buildblock/DataSymmetriesForBins_PET_CartesianGrid.h"
#include "stir/NumericType.h"
#include "stir/ByteOrder.h"
#include "stir/ViewSegmentNumbers.h"
#include <fstream>
#include <sstream>

using namespace stir;
using vf::Ctx;

struct Layout
{
  int min_seg, max_seg, min_view, max_view, min_tang, max_tang, min_tof, max_tof;
  std::vector<int> min_ax, max_ax; // indexed seg-min_seg
  long nbins = 0;
  std::vector<long> seg_base; // flat model index base per segment (model order: tof, seg, ax, view, tang)
  long per_tof = 0;
  void init(const ProjDataInfo& p)
  {
    min_seg = p.get_min_segment_num();
    max_seg = p.get_max_segment_num();
    min_view = p.get_min_view_num();
    max_view = p.get_max_view_num();
    min_tang = p.get_min_tangential_pos_num();
    max_tang = p.get_max_tangential_pos_num();
    min_tof = p.get_min_tof_pos_num();
    max_tof = p.get_max_tof_pos_num();
    long base = 0;
    for (int s = min_seg; s <= max_seg; ++s)
      {
        min_ax.push_back(p.get_min_axial_pos_num(s));
        max_ax.push_back(p.get_max_axial_pos_num(s));
        seg_base.push_back(base);
        base += static_cast<long>(max_ax.back() - min_ax.back() + 1) * nviews() * ntang();
      }
    per_tof = base;
    nbins = per_tof * (max_tof - min_tof + 1);
  }
  int nviews() const { return max_view - min_view + 1; }
  int ntang() const { return max_tang - min_tang + 1; }
  int nax(int s) const { return max_ax[static_cast<size_t>(s - min_seg)] - min_ax[static_cast<size_t>(s - min_seg)] + 1; }
  int minax(int s) const { return min_ax[static_cast<size_t>(s - min_seg)]; }
  int maxax(int s) const { return max_ax[static_cast<size_t>(s - min_seg)]; }
  long idx(int s, int a, int v, int t, int k) const
  {
    return (k - min_tof) * per_tof + seg_base[static_cast<size_t>(s - min_seg)]
           + (static_cast<long>(a - minax(s)) * nviews() + (v - min_view)) * ntang() + (t - min_tang);
  }
};

struct FileSpec
{
  bool by_view = true; // Segment_View_AxialPos_TangPos, else Segment_AxialPos_View_TangPos
  std::vector<int> seg_seq;
  NumericType type = NumericType::FLOAT;
  ByteOrder order = ByteOrder::native;
  float scale = 1.f;
  long offset = 0;
};

// independent byte-offset formula (in elements, not bytes)
static long
file_elem_offset(const Layout& L, const FileSpec& F, int s, int a, int v, int t, int k)
{
  long off = static_cast<long>(k - L.min_tof) * L.per_tof;
  for (int ss : F.seg_seq)
    {
      if (ss == s)
        break;
      off += static_cast<long>(L.nax(ss)) * L.nviews() * L.ntang();
    }
  if (F.by_view)
    off += (static_cast<long>(v - L.min_view) * L.nax(s) + (a - L.minax(s))) * L.ntang();
  else
    off += (static_cast<long>(a - L.minax(s)) * L.nviews() + (v - L.min_view)) * L.ntang();
  return off + (t - L.min_tang);
}

static double
decode(const unsigned char* p, const FileSpec& F)
{
  unsigned char b[8];
  const size_t n = F.type.size_in_bytes();
  const bool swap = !(F.order == ByteOrder::native) && !F.order.is_native_order();
  for (size_t i = 0; i < n; ++i)
    b[i] = swap ? p[n - 1 - i] : p[i];
  switch (F.type.id)
    {
    case NumericType::FLOAT: {
      float f;
      std::memcpy(&f, b, 4);
      return f;
    }
    case NumericType::SHORT: {
      short x;
      std::memcpy(&x, b, 2);
      return x;
    }
    case NumericType::USHORT: {
      unsigned short x;
      std::memcpy(&x, b, 2);
      return x;
    }
    case NumericType::INT: {
      int x;
      std::memcpy(&x, b, 4);
      return x;
    }
    case NumericType::SCHAR: {
      signed char x;
      std::memcpy(&x, b, 1);
      return x;
    }
    default:
      return std::nan("");
    }
}

struct World
{
  Ctx& ctx;
  shared_ptr<ProjDataInfo> pdi;
  shared_ptr<ProjDataInfo> pdi_full; // the same sampling before its segment range was reduced (source of "larger" fills)
  shared_ptr<ExamInfo> ei;
  Layout L;
  std::vector<float> model;
  shared_ptr<ProjData> pd;
  ProjDataInMemory* inmem = nullptr;
  ProjDataFromStream* fromstream = nullptr;
  shared_ptr<std::iostream> stream; // kept to clear the state after a rejected request (stringstream/fstream back ends)
  bool file_backed = false;
  std::string data_file;
  FileSpec F;
  long op = 0;
  long kmax = 1 << 20; // value range (integer counter) representable exactly
  bool nonneg = false;
  std::string trace;
  shared_ptr<DataSymmetriesForViewSegmentNumbers> symm_trivial, symm_pet;

  explicit World(Ctx& c)
      : ctx(c)
  {}

  float uval(long flat)
  {
    // unique-ish per (op, bin), exactly representable in the on-disk type after division by scale
    long k = (op * 7919 + flat * 13 + 1) % kmax;
    if (!nonneg && ((op + flat) & 1))
      k = -k;
    return static_cast<float>(k) * F.scale;
  }

  bool fail(const std::string& key, const std::string& w)
  {
    ctx.violation(key, w + " | history: " + trace);
    return false;
  }

  // ---------------- read paths: return full content through one path
  bool read_all(int path, std::vector<float>& out)
  {
    out.assign(static_cast<size_t>(L.nbins), std::nanf(""));
    const ProjData& p = *pd;
    for (int k = L.min_tof; k <= L.max_tof; ++k)
      for (int s = L.min_seg; s <= L.max_seg; ++s)
        {
          switch (path)
            {
            case 0: { // segment by view
              SegmentByView<float> seg = p.get_segment_by_view(s, k);
              for (int v = L.min_view; v <= L.max_view; ++v)
                for (int a = L.minax(s); a <= L.maxax(s); ++a)
                  for (int t = L.min_tang; t <= L.max_tang; ++t)
                    out[static_cast<size_t>(L.idx(s, a, v, t, k))] = seg[v][a][t];
              break;
            }
            case 1: { // segment by sinogram
              SegmentBySinogram<float> seg = p.get_segment_by_sinogram(s, k);
              for (int a = L.minax(s); a <= L.maxax(s); ++a)
                for (int v = L.min_view; v <= L.max_view; ++v)
                  for (int t = L.min_tang; t <= L.max_tang; ++t)
                    out[static_cast<size_t>(L.idx(s, a, v, t, k))] = seg[a][v][t];
              break;
            }
            case 2: // viewgrams
              for (int v = L.min_view; v <= L.max_view; ++v)
                {
                  Viewgram<float> vg = p.get_viewgram(v, s, false, k);
                  if (vg.get_view_num() != v || vg.get_segment_num() != s || vg.get_timing_pos_num() != k)
                    return fail("viewgram-carries-wrong-indices", "");
                  for (int a = L.minax(s); a <= L.maxax(s); ++a)
                    for (int t = L.min_tang; t <= L.max_tang; ++t)
                      out[static_cast<size_t>(L.idx(s, a, v, t, k))] = vg[a][t];
                }
              break;
            case 3: // sinograms
              for (int a = L.minax(s); a <= L.maxax(s); ++a)
                {
                  Sinogram<float> sg = p.get_sinogram(a, s, false, k);
                  if (sg.get_axial_pos_num() != a || sg.get_segment_num() != s || sg.get_timing_pos_num() != k)
                    return fail("sinogram-carries-wrong-indices", "");
                  for (int v = L.min_view; v <= L.max_view; ++v)
                    for (int t = L.min_tang; t <= L.max_tang; ++t)
                      out[static_cast<size_t>(L.idx(s, a, v, t, k))] = sg[v][t];
                }
              break;
            case 4: // single bins
              for (int a = L.minax(s); a <= L.maxax(s); ++a)
                for (int v = L.min_view; v <= L.max_view; ++v)
                  for (int t = L.min_tang; t <= L.max_tang; ++t)
                    {
                      Bin b(s, v, a, t);
                      b.timing_pos_num() = k;
                      float val;
                      if (inmem)
                        val = inmem->get_bin_value(b);
                      else
                        val = fromstream->get_bin_value(b);
                      out[static_cast<size_t>(L.idx(s, a, v, t, k))] = val;
                    }
              break;
            case 5: // related viewgrams (trivial or PET symmetries): every viewgram must be visited exactly once overall
              {
                auto& symm = (op % 2) ? symm_pet : symm_trivial;
                for (int v = L.min_view; v <= L.max_view; ++v)
                  {
                    ViewSegmentNumbers vs(v, s);
                    if (!symm->is_basic(vs))
                      continue;
                    RelatedViewgrams<float> rv = p.get_related_viewgrams(vs, symm, false, k);
                    for (auto it = rv.begin(); it != rv.end(); ++it)
                      {
                        const int vv = it->get_view_num(), ss = it->get_segment_num();
                        if (ss < L.min_seg || ss > L.max_seg)
                          continue;
                        for (int a = L.minax(ss); a <= L.maxax(ss); ++a)
                          for (int t = L.min_tang; t <= L.max_tang; ++t)
                            out[static_cast<size_t>(L.idx(ss, a, vv, t, k))] = (*it)[a][t];
                      }
                  }
                break;
              }
            }
        }
    if (path == 5)
      {
        // related viewgrams of other basic segments fill the rest; only check after the whole loop
      }
    return true;
  }
  bool read_iter(std::vector<float>& out)
  {
    // ProjDataInMemory iteration: documented as going through the buffer; check as multiset-free: every element equals the model
    // at the position given by the class' own (documented) layout: timing, segment sequence, axial pos, view, tangential pos
    out.assign(static_cast<size_t>(L.nbins), std::nanf(""));
    if (!inmem)
      return false;
    std::vector<int> seq = ProjData::standard_segment_sequence(*pdi);
    auto it = inmem->begin_all();
    for (int k = L.min_tof; k <= L.max_tof; ++k)
      for (int s : seq)
        for (int a = L.minax(s); a <= L.maxax(s); ++a)
          for (int v = L.min_view; v <= L.max_view; ++v)
            for (int t = L.min_tang; t <= L.max_tang; ++t)
              {
                if (it == inmem->end_all())
                  return fail("iteration-ends-early", "");
                out[static_cast<size_t>(L.idx(s, a, v, t, k))] = *it;
                ++it;
              }
    if (it != inmem->end_all())
      return fail("iteration-visits-too-many", "");
    return true;
  }

  bool compare(const std::vector<float>& got, const char* path)
  {
    for (long i = 0; i < L.nbins; ++i)
      if (!(got[static_cast<size_t>(i)] == model[static_cast<size_t>(i)]))
        {
          // decode i
          return fail(std::string("read-through-") + path + "-differs-from-written",
                      vf::fmt("flat model index %ld of %ld: read %.9g, last written %.9g (backend %s, type %s, scale %g, by_view %d)", i,
                              L.nbins, static_cast<double>(got[static_cast<size_t>(i)]), static_cast<double>(model[static_cast<size_t>(i)]),
                              inmem ? "memory" : (file_backed ? "file" : "stringstream"), F.type.id == NumericType::FLOAT ? "float" : "int",
                              static_cast<double>(F.scale), F.by_view));
        }
    ctx.count("bins_compared", L.nbins);
    return true;
  }

  static const char* pname(int p)
  {
    static const char* n[] = { "segment_by_view", "segment_by_sinogram", "viewgrams", "sinograms", "single_bins", "related_viewgrams", "iterator" };
    return n[p];
  }

  bool check_through(int path)
  {
    std::vector<float> got;
    if (path == 6)
      {
        if (!inmem)
          return true;
        if (!read_iter(got))
          return ctx.violations == 0;
      }
    else if (!read_all(path, got))
      return false;
    return compare(got, pname(path));
  }

  // independent reader of the data file
  bool check_file()
  {
    if (!file_backed)
      return true;
    std::ifstream in(data_file, std::ios::binary);
    std::vector<unsigned char> bytes((std::istreambuf_iterator<char>(in)), std::istreambuf_iterator<char>());
    const size_t esz = F.type.size_in_bytes();
    for (int k = L.min_tof; k <= L.max_tof; ++k)
      for (int s = L.min_seg; s <= L.max_seg; ++s)
        for (int a = L.minax(s); a <= L.maxax(s); ++a)
          for (int v = L.min_view; v <= L.max_view; ++v)
            for (int t = L.min_tang; t <= L.max_tang; ++t)
              {
                const long li = L.idx(s, a, v, t, k);
                const size_t pos = static_cast<size_t>(F.offset) + static_cast<size_t>(file_elem_offset(L, F, s, a, v, t, k)) * esz;
                const float want = model[static_cast<size_t>(li)];
                if (pos + esz > bytes.size())
                  {
                    if (want == 0.f && !std::signbit(want))
                      continue; // never written region may legitimately not exist yet
                    return fail("write-not-visible-to-independent-reader:file-too-short",
                                vf::fmt("bin seg %d ax %d view %d tang %d tof %d expected at byte %zu, file has %zu bytes", s, a, v, t, k,
                                        pos, bytes.size()));
                  }
                const double got = decode(&bytes[pos], F) * F.scale;
                if (!(static_cast<float>(got) == want))
                  return fail("write-not-visible-to-independent-reader",
                              vf::fmt("bin seg %d ax %d view %d tang %d tof %d at byte %zu: file holds %.9g, last written %.9g", s, a, v, t,
                                      k, pos, got, static_cast<double>(want)));
              }
    ctx.count("independent_reader_checks");
    return true;
  }

  // ---------------- write paths
  bool write_op(vf::Rng& rng)
  {
    ++op;
    const int path = static_cast<int>(rng.range(0, inmem ? 8 : 7));
    const int s = static_cast<int>(rng.range(L.min_seg, L.max_seg));
    const int k = static_cast<int>(rng.range(L.min_tof, L.max_tof));
    const int a = static_cast<int>(rng.range(L.minax(s), L.maxax(s)));
    const int v = static_cast<int>(rng.range(L.min_view, L.max_view));
    const int t = static_cast<int>(rng.range(L.min_tang, L.max_tang));
    trace += vf::fmt("w%d(s%d,a%d,v%d,t%d,k%d) ", path, s, a, v, t, k);
    ProjData& p = *pd;
    switch (path)
      {
      case 0: { // single bin
        Bin b(s, v, a, t);
        b.timing_pos_num() = k;
        const float val = uval(L.idx(s, a, v, t, k));
        b.set_bin_value(val);
        if (inmem)
          inmem->set_bin_value(b);
        else
          fromstream->set_bin_value(b);
        model[static_cast<size_t>(L.idx(s, a, v, t, k))] = val;
        ctx.count("writes_bin");
        break;
      }
      case 1: { // sinogram
        Sinogram<float> sg = p.get_empty_sinogram(a, s, false, k);
        for (int vv = L.min_view; vv <= L.max_view; ++vv)
          for (int tt = L.min_tang; tt <= L.max_tang; ++tt)
            model[static_cast<size_t>(L.idx(s, a, vv, tt, k))] = sg[vv][tt] = uval(L.idx(s, a, vv, tt, k));
        if (p.set_sinogram(sg) != Succeeded::yes)
          return fail("set_sinogram-failed", "");
        ctx.count("writes_sinogram");
        break;
      }
      case 2: { // viewgram
        Viewgram<float> vg = p.get_empty_viewgram(v, s, false, k);
        for (int aa = L.minax(s); aa <= L.maxax(s); ++aa)
          for (int tt = L.min_tang; tt <= L.max_tang; ++tt)
            model[static_cast<size_t>(L.idx(s, aa, v, tt, k))] = vg[aa][tt] = uval(L.idx(s, aa, v, tt, k));
        if (p.set_viewgram(vg) != Succeeded::yes)
          return fail("set_viewgram-failed", "");
        ctx.count("writes_viewgram");
        break;
      }
      case 3: { // segment by view
        SegmentByView<float> seg = p.get_empty_segment_by_view(s, false, k);
        for (int vv = L.min_view; vv <= L.max_view; ++vv)
          for (int aa = L.minax(s); aa <= L.maxax(s); ++aa)
            for (int tt = L.min_tang; tt <= L.max_tang; ++tt)
              model[static_cast<size_t>(L.idx(s, aa, vv, tt, k))] = seg[vv][aa][tt] = uval(L.idx(s, aa, vv, tt, k));
        if (p.set_segment(seg) != Succeeded::yes)
          return fail("set_segment_by_view-failed", "");
        ctx.count("writes_segment_by_view");
        break;
      }
      case 4: { // segment by sinogram
        SegmentBySinogram<float> seg = p.get_empty_segment_by_sinogram(s, false, k);
        for (int aa = L.minax(s); aa <= L.maxax(s); ++aa)
          for (int vv = L.min_view; vv <= L.max_view; ++vv)
            for (int tt = L.min_tang; tt <= L.max_tang; ++tt)
              model[static_cast<size_t>(L.idx(s, aa, vv, tt, k))] = seg[aa][vv][tt] = uval(L.idx(s, aa, vv, tt, k));
        if (p.set_segment(seg) != Succeeded::yes)
          return fail("set_segment_by_sinogram-failed", "");
        ctx.count("writes_segment_by_sinogram");
        break;
      }
      case 5: { // related viewgrams
        auto& symm = rng.coin() ? symm_pet : symm_trivial;
        ViewSegmentNumbers vs(v, s);
        symm->find_basic_view_segment_numbers(vs);
        RelatedViewgrams<float> rv = p.get_empty_related_viewgrams(vs, symm, false, k);
        for (auto it = rv.begin(); it != rv.end(); ++it)
          {
            const int vv = it->get_view_num(), ss = it->get_segment_num();
            for (int aa = L.minax(ss); aa <= L.maxax(ss); ++aa)
              for (int tt = L.min_tang; tt <= L.max_tang; ++tt)
                model[static_cast<size_t>(L.idx(ss, aa, vv, tt, k))] = (*it)[aa][tt] = uval(L.idx(ss, aa, vv, tt, k));
          }
        if (p.set_related_viewgrams(rv) != Succeeded::yes)
          return fail("set_related_viewgrams-failed", "");
        ctx.count("writes_related_viewgrams");
        break;
      }
      case 6: { // fill(value)
        const float val = uval(0);
        p.fill(val);
        std::fill(model.begin(), model.end(), val);
        ctx.count("writes_fill_value");
        break;
      }
      case 7: { // fill(ProjData) from a source with different content: same geometry in memory, or a source with MORE segments
        if (pdi_full->get_num_segments() > pdi->get_num_segments() && ctx.rng.coin(0.7))
          {
            // (documented: "requires at least the same segment numbers (but the source can have more)"), in memory or on file
            Layout LF;
            LF.init(*pdi_full);
            shared_ptr<ProjData> big;
            const bool big_on_file = ctx.rng.coin(0.4);
            if (big_on_file)
              big.reset(new ProjDataInterfile(ei, pdi_full, ctx.tmpdir + "/c02_big_" + std::to_string(ctx.idx) + "_" + std::to_string(op) + ".hs",
                                              std::ios::in | std::ios::out | std::ios::trunc));
            else
              big.reset(new ProjDataInMemory(ei, pdi_full));
            std::vector<float> vals(static_cast<size_t>(L.nbins));
            for (int kk = LF.min_tof; kk <= LF.max_tof; ++kk)
              for (int ss = LF.min_seg; ss <= LF.max_seg; ++ss)
                {
                  SegmentByView<float> seg = big->get_empty_segment_by_view(ss, false, kk);
                  const bool in_dest = ss >= L.min_seg && ss <= L.max_seg;
                  for (int vv = LF.min_view; vv <= LF.max_view; ++vv)
                    for (int aa = LF.minax(ss); aa <= LF.maxax(ss); ++aa)
                      for (int tt = LF.min_tang; tt <= LF.max_tang; ++tt)
                        {
                          // every bin of the source gets its own value; the ones of segments the destination lacks must not show up
                          const float v = uval(LF.idx(ss, aa, vv, tt, kk));
                          seg[vv][aa][tt] = v;
                          if (in_dest)
                            vals[static_cast<size_t>(L.idx(ss, aa, vv, tt, kk))] = v;
                        }
                  if (big->set_segment(seg) != Succeeded::yes)
                    return fail("set_segment-failed", "larger source");
                }
            p.fill(*big);
            model = vals;
            ctx.count("writes_fill_projdata");
            ctx.count(big_on_file ? "writes_fill_from_larger_source_on_file" : "writes_fill_from_larger_source_in_memory");
            break;
          }
        ProjDataInMemory src(ei, pdi);
        std::vector<float> vals(static_cast<size_t>(L.nbins));
        for (int kk = L.min_tof; kk <= L.max_tof; ++kk)
          for (int ss = L.min_seg; ss <= L.max_seg; ++ss)
            {
              SegmentByView<float> seg = src.get_empty_segment_by_view(ss, false, kk);
              for (int vv = L.min_view; vv <= L.max_view; ++vv)
                for (int aa = L.minax(ss); aa <= L.maxax(ss); ++aa)
                  for (int tt = L.min_tang; tt <= L.max_tang; ++tt)
                    vals[static_cast<size_t>(L.idx(ss, aa, vv, tt, kk))] = seg[vv][aa][tt] = uval(L.idx(ss, aa, vv, tt, kk));
              src.set_segment(seg);
            }
        p.fill(src);
        model = vals;
        ctx.count("writes_fill_projdata");
        break;
      }
      case 8: { // in-memory iterator write + arithmetic
        long n = 0;
        std::vector<int> seq = ProjData::standard_segment_sequence(*pdi);
        auto it = inmem->begin_all();
        for (int kk = L.min_tof; kk <= L.max_tof; ++kk)
          for (int ss : seq)
            for (int aa = L.minax(ss); aa <= L.maxax(ss); ++aa)
              for (int vv = L.min_view; vv <= L.max_view; ++vv)
                for (int tt = L.min_tang; tt <= L.max_tang; ++tt, ++it, ++n)
                  model[static_cast<size_t>(L.idx(ss, aa, vv, tt, kk))] = *it = uval(L.idx(ss, aa, vv, tt, kk));
        *inmem += 2.f;
        *inmem *= 2.f;
        for (auto& x : model)
          x = (x + 2.f) * 2.f;
        ctx.count("writes_iterator_arith");
        break;
      }
      }
    return true;
  }

  // ---------------- out-of-range requests (rel flavour only: asserts are off there, as for users)
  bool out_of_range(vf::Rng& rng)
  {
    const int which = static_cast<int>(rng.range(0, 12));
    const int s = static_cast<int>(rng.range(L.min_seg, L.max_seg));
    const int k = L.min_tof;
    const int delta = rng.coin() ? 1 : static_cast<int>(rng.range(2, 40));
    std::string what;
    bool reported = false;
    trace += vf::fmt("oor%d ", which);
    ctx.heartbeat(vf::fmt("oor%d-delta%d-%s", which, delta, inmem ? "mem" : "stream"));
    try
      {
        switch (which)
          {
          case 0:
            what = "get_viewgram(view beyond max)";
            (void)pd->get_viewgram(L.max_view + delta, s, false, k);
            break;
          case 1:
            what = "get_viewgram(view below min)";
            (void)pd->get_viewgram(L.min_view - delta, s, false, k);
            break;
          case 2:
            what = "get_sinogram(axial position beyond max)";
            (void)pd->get_sinogram(L.maxax(s) + delta, s, false, k);
            break;
          case 3:
            what = "get_segment_by_view(segment beyond max)";
            (void)pd->get_segment_by_view(L.max_seg + delta, k);
            break;
          case 4:
            what = "get_viewgram(timing position beyond max)";
            (void)pd->get_viewgram(L.min_view, s, false, L.max_tof + delta);
            break;
          case 5:
          case 6:
          case 7:
          case 8: {
            Bin b(s, L.min_view, L.minax(s), L.min_tang);
            b.timing_pos_num() = k;
            if (which == 5)
              {
                b.view_num() = L.max_view + delta;
                what = "bin value with view beyond max";
              }
            else if (which == 6)
              {
                b.tangential_pos_num() = L.max_tang + delta;
                what = "bin value with tangential position beyond max";
              }
            else if (which == 7)
              {
                b.tangential_pos_num() = L.min_tang - delta;
                what = "bin value with tangential position below min";
              }
            else
              {
                b.axial_pos_num() = L.minax(s) - delta;
                what = "bin value with axial position below min";
              }
            const bool do_write = rng.coin();
            what = std::string(do_write ? "set " : "get ") + what;
            b.set_bin_value(12345.f);
            if (inmem)
              {
                if (do_write)
                  inmem->set_bin_value(b);
                else
                  (void)inmem->get_bin_value(b);
              }
            else
              {
                if (do_write)
                  fromstream->set_bin_value(b);
                else
                  (void)fromstream->get_bin_value(b);
              }
            break;
          }
          case 9:
            what = "get_sinogram(axial position below min)";
            (void)pd->get_sinogram(L.minax(s) - delta, s, false, k);
            break;
          case 10:
            what = "get_viewgram(segment beyond max)";
            (void)pd->get_viewgram(L.min_view, L.max_seg + delta, false, k);
            break;
          case 11:
            what = "get_sinogram(segment below min)";
            (void)pd->get_sinogram(0, L.min_seg - delta, false, k);
            break;
          case 12:
            what = "get_segment_by_sinogram(segment below min)";
            (void)pd->get_segment_by_sinogram(L.min_seg - delta, k);
            break;
          }
      }
    catch (const std::exception&)
      {
        reported = true;
      }
    ctx.count("out_of_range_requests");
    std::string key = what;
    for (auto& c : key)
      if (c == ' ' || c == '(' || c == ')')
        c = '_';
    if (!reported)
      return fail("out-of-range-request-not-reported:" + key, what + vf::fmt(" (delta %d) returned normally on %s", delta,
                                                                            inmem ? "ProjDataInMemory" : "ProjDataFromStream"));
    // the stream may be left in a failed state by a rejected request: clear it, as a caller who catches the error would
    if (stream)
      stream->clear();
    return true;
  }
};

static void
run_case(Ctx& ctx)
{
  vf::Rng& rng = ctx.rng;
  vg::ScannerOpts so;
  so.min_det = 8;
  so.max_det = 16;
  so.max_rings = 4;
  so.p_tof = 0.35;
  vg::ScannerSpec ss = vg::gen_scanner(rng, so);
  if (ss.tof_bins > 5)
    ss.tof_bins = 5;
  vg::PdiOpts po;
  po.allow_arccorr = true;
  vg::PdiSpec ps = vg::gen_pdi(rng, ss, po);
  World w(ctx);
  try
    {
      auto sc = vg::make_scanner(ss);
      w.pdi = vg::make_pdi(sc, ps, &rng);
    }
  catch (const std::exception& e)
    {
      throw vf::Skip(std::string("geometry rejected: ") + e.what());
    }
  if (w.pdi->get_num_tof_poss() == 1 && ps.tof_mash != 0)
    {
      // one mashed TOF position: the Interfile header carries TOF keys only for more than one TOF position, so this
      // degenerate sampling cannot round-trip; use the non-TOF sampling instead
      ps.tof_mash = 0;
      auto sc2 = vg::make_scanner(ss);
      vg::PdiSpec ps2 = ps;
      ps2.reduce_segments = ps.reduce_segments;
      w.pdi = vg::make_pdi(sc2, ps2);
    }
  // segment ranges that are reduced, also asymmetrically (-2..1, 0..2, -1..0 ...): legal for reduce_segment_range; the
  // unreduced sampling is kept as the geometry of "larger" sources for fill(ProjData) ("the source can have more" segments).
  // Drawn from a PRNG of its own so that the rest of the case is what it was before this was added.
  w.pdi_full = w.pdi->create_shared_clone();
  bool asymmetric = false;
  {
    vf::Rng r2(vf::mix3(ctx.seed, static_cast<uint64_t>(ctx.idx), 0xC02A));
    if (r2.coin(0.35) && w.pdi->get_max_segment_num() >= 1)
      {
        int lo = static_cast<int>(r2.range(w.pdi->get_min_segment_num(), 0));
        const int hi = static_cast<int>(r2.range(0, w.pdi->get_max_segment_num()));
        // an asymmetric range only for data in memory accessed without the PET symmetries: those relate segment s to -s, and
        // the Interfile header cannot express such a range (asserted by its reader), so files and symmetries get lo == -hi
        asymmetric = lo != -hi && r2.coin(0.6);
        if (!asymmetric)
          lo = -hi;
        w.pdi->reduce_segment_range(lo, hi);
        ctx.desc.add("segment_range_min", lo).add("segment_range_max", hi);
        ctx.count(lo == -hi ? "cfg_symmetric_reduced_segment_range" : "cfg_asymmetric_segment_range");
      }
  }
  w.L.init(*w.pdi);
  if (w.L.nbins > 6000)
    throw vf::Skip("too many bins for a history case");
  w.ei.reset(new ExamInfo(ImagingModality::PT));
  w.model.assign(static_cast<size_t>(w.L.nbins), 0.f);
  int backend = static_cast<int>(rng.range(0, 3)); // 0 memory, 1 stringstream, 2 fstream, 3 interfile
  if (asymmetric)
    backend = 0;
  // file layout
  w.F.by_view = rng.coin();
  for (int s = w.L.min_seg; s <= w.L.max_seg; ++s)
    w.F.seg_seq.push_back(s);
  const bool permute = rng.coin() && backend != 0;
  if (permute)
    rng.shuffle(w.F.seg_seq);
  static const NumericType::Type types[] = { NumericType::FLOAT, NumericType::FLOAT, NumericType::SHORT, NumericType::USHORT, NumericType::INT,
                                             NumericType::SCHAR };
  w.F.type = backend == 0 ? NumericType(NumericType::FLOAT) : NumericType(types[rng.range(0, 5)]);
  w.F.order = rng.coin() ? ByteOrder::little_endian : ByteOrder::big_endian;
  w.F.offset = (backend == 1 || backend == 2) ? (rng.coin() ? 0 : rng.range(1, 64)) : 0;
  w.F.scale = 1.f;
  switch (w.F.type.id)
    {
    case NumericType::FLOAT:
      w.kmax = 1 << 20;
      break;
    case NumericType::SHORT:
      w.kmax = 30000;
      w.F.scale = rng.coin() ? 1.f : 0.5f;
      break;
    case NumericType::USHORT:
      w.kmax = 60000;
      w.nonneg = true;
      w.F.scale = rng.coin() ? 1.f : 0.25f;
      break;
    case NumericType::INT:
      w.kmax = 1 << 20;
      w.F.scale = rng.coin() ? 1.f : 0.125f;
      break;
    case NumericType::SCHAR:
      w.kmax = 120;
      w.F.scale = rng.coin() ? 1.f : 2.f;
      break;
    default:
      break;
    }
  ctx.desc.add("scanner", ss.desc()).add("pdi", ps.desc()).add("backend", backend).add("by_view", w.F.by_view).add("seg_seq", w.F.seg_seq);
  ctx.desc.add("type", static_cast<int>(w.F.type.id)).add("big_endian", w.F.order == ByteOrder::big_endian).add("scale", w.F.scale).add("offset", w.F.offset);
  ctx.heartbeat("setup");
  const ProjDataFromStream::StorageOrder so_ = w.F.by_view ? ProjDataFromStream::Segment_View_AxialPos_TangPos
                                                           : ProjDataFromStream::Segment_AxialPos_View_TangPos;
  const std::string base = ctx.tmpdir + "/c02_" + std::to_string(ctx.idx);
  try
    {
      if (backend == 0)
        {
          w.inmem = new ProjDataInMemory(w.ei, w.pdi);
          w.pd.reset(w.inmem);
        }
      else if (backend == 1)
        {
          shared_ptr<std::iostream> st(new std::stringstream(std::ios::in | std::ios::out | std::ios::binary));
          // pre-size the stream so that reads of never-written regions are defined (zero)
          std::string zeros(static_cast<size_t>(w.F.offset) + static_cast<size_t>(w.L.nbins) * w.F.type.size_in_bytes(), '\0');
          st->write(zeros.data(), static_cast<std::streamsize>(zeros.size()));
          w.fromstream = new ProjDataFromStream(w.ei, w.pdi, st, w.F.offset, w.F.seg_seq, so_, w.F.type, w.F.order, w.F.scale);
          w.pd.reset(w.fromstream);
          w.stream = st;
        }
      else if (backend == 2)
        {
          w.data_file = base + ".s";
          {
            std::ofstream mk(w.data_file, std::ios::binary);
            std::string zeros(static_cast<size_t>(w.F.offset) + static_cast<size_t>(w.L.nbins) * w.F.type.size_in_bytes(), '\0');
            mk.write(zeros.data(), static_cast<std::streamsize>(zeros.size()));
          }
          shared_ptr<std::iostream> st(new std::fstream(w.data_file, std::ios::in | std::ios::out | std::ios::binary));
          w.fromstream = new ProjDataFromStream(w.ei, w.pdi, st, w.F.offset, w.F.seg_seq, so_, w.F.type, w.F.order, w.F.scale);
          w.pd.reset(w.fromstream);
          w.stream = st;
          w.file_backed = true;
        }
      else
        {
          w.data_file = base + ".s";
          auto* pi = new ProjDataInterfile(w.ei, w.pdi, base + ".hs", std::ios::in | std::ios::out | std::ios::trunc, w.F.seg_seq, so_,
                                           w.F.type, w.F.order, w.F.scale);
          w.fromstream = pi;
          w.pd.reset(pi);
          w.file_backed = true;
          // a fresh Interfile data file is empty: write every bin once so that all reads are defined
          w.pd->fill(0.f);
        }
    }
  catch (const std::exception& e)
    {
      throw vf::Skip(std::string("backend rejected: ") + e.what());
    }
  w.symm_trivial.reset(new TrivialDataSymmetriesForViewSegmentNumbers);
  {
    vg::ImageSpec is;
    is.nx = is.ny = 9;
    is.nz = 2 * ss.nrings - 1;
    is.vx = is.vy = ss.bin_size;
    is.vz = ss.ring_spacing / 2;
    shared_ptr<VoxelsOnCartesianGrid<float>> im = vg::make_image(is);
    try
      {
        w.symm_pet.reset(new DataSymmetriesForBins_PET_CartesianGrid(w.pdi, im));
      }
    catch (const std::exception&)
      {
        w.symm_pet = w.symm_trivial;
      }
    if (asymmetric)
      w.symm_pet = w.symm_trivial;
  }
  const char* mode = std::getenv("VERIF_MODE");
  const bool with_oor = mode && std::string(mode) == "oor" && backend != 3;
  const int steps = static_cast<int>(rng.range(8, ctx.thorough() ? 120 : 40));
  ctx.desc.add("steps", steps).add("out_of_range_requests", with_oor);
  ctx.heartbeat("history");
  for (int st = 0; st < steps; ++st)
    {
      if (with_oor && rng.coin(0.3))
        {
          if (!w.out_of_range(rng))
            return;
        }
      else if (!w.write_op(rng))
        return;
      // visible to an independent reader as soon as the call returned
      if (!w.check_file())
        return;
      // read back through a randomly chosen path: whole array (so: touched bins right, nothing else changed)
      const int path = static_cast<int>(rng.range(0, w.inmem ? 6 : 5));
      w.trace += vf::fmt("r%d ", path);
      if (!w.check_through(path))
        return;
      if (st % 8 == 7)
        for (int p = 0; p <= (w.inmem ? 6 : 5); ++p)
          if (!w.check_through(p))
            return;
    }
  // header round trip for the Interfile backend: re-open and compare geometry + values
  if (backend == 3)
    {
      shared_ptr<ProjData> rd = ProjData::read_from_file(base + ".hs");
      if (!(*rd->get_proj_data_info_sptr() == *w.pdi))
        {
          w.fail("interfile-header-roundtrip:geometry-differs", rd->get_proj_data_info_sptr()->parameter_info());
          return;
        }
      World w2(ctx);
      w2.pdi = w.pdi;
      w2.ei = w.ei;
      w2.L = w.L;
      w2.model = w.model;
      w2.pd = rd;
      w2.F = w.F;
      w2.fromstream = dynamic_cast<ProjDataFromStream*>(rd.get());
      w2.symm_trivial = w.symm_trivial;
      w2.symm_pet = w.symm_pet;
      w2.trace = w.trace + " [re-read from header] ";
      if (w2.fromstream)
        for (int p = 0; p <= 4; ++p)
          if (!w2.check_through(p))
            return;
      ctx.count("interfile_roundtrips");
    }
  ctx.count(backend == 0 ? "cases_memory" : backend == 1 ? "cases_stringstream" : backend == 2 ? "cases_fstream" : "cases_interfile");
  if (permute)
    ctx.count("cases_permuted_segment_sequence");
  if (w.L.max_tof > w.L.min_tof)
    ctx.count("cases_tof");
  if (w.F.type.id != NumericType::FLOAT)
    ctx.count("cases_integer_on_disk");
  ctx.nontrivial = w.L.nbins >= 8 && steps >= 8;
}

int
main(int argc, char** argv)
{
  vg::quiet();
  return vf::verif_main(argc, argv, "C02", run_case);
}
