// C03: system-matrix rows do not depend on symmetries, caching or request history (DESIGN.md §6 C03).
//
// Oracle: every row handed out by a ProjMatrixByBinUsingRayTracing with some combination of the five symmetry switches,
// one of the cache modes and a request history (random order, repeats, clear_cache, set_up again, set_up for another
// geometry and back) is compared element-wise with the row of a *separate* matrix object of the same class that has all
// symmetries off and the cache disabled (so that it computes every row directly and keeps no state between requests).
// Band: 2e-3 of the reference row's maximum (STIR's own ProjMatrixElemsForOneBin::operator==); elements not above the band
// may be absent in either row.  Rows are compared "as applied": forward/back projection drop planes outside the image by
// design, so elements with z outside the image are removed from both rows first.
// Plus, for every row: values >= 0 and finite, no voxel twice, x/y inside the image, row labelled with the requested bin.
//
// Tie screen: bins for which "which voxel is first/last" or "does this tiny voxel appear" is a rounding tie are excluded by
// screen_bin(), which looks at (s, phi, t, tan(theta), grid, number of rays, FOV shape) only - never at a computed row.
#include "common/verif.h"
#include "common/gen.h"
#include "stir/recon_buildblock/ProjMatrixByBinUsingRayTracing.h"
#include "stir/recon_buildblock/ProjMatrixElemsForOneBin.h"
#include "stir/recon_buildblock/DataSymmetriesForBins.h"
#include "stir/recon_buildblock/SymmetryOperation.h"
#include "stir/ProjDataInfoCylindrical.h"
#include "stir/Bin.h"
#include <typeinfo>
#include <typeindex>
#include <unordered_map>

using namespace stir;
using vf::Ctx;
using vf::Rng;

// ------------------------------------------------------------------------------------------------ cache events seen from inside
// STIR calls the weak symbol stir_verif_point() at its row-cache lookup / insert / clear sites (guard UCL_STIR_VERIF).  Counting
// them for the matrix under test proves that the cache paths were really taken.  Nothing else is done in the hook.
#if defined(UCL_STIR_VERIF) && defined(__has_include)
#  if __has_include("stir/verif_hooks.h")
#    include "stir/verif_hooks.h"
#    define C03_HAVE_HOOKS 1
#  endif
#endif
namespace
{
struct HookState
{
  const void* obj = nullptr; // the ProjMatrixByBin sub-object of the matrix under test
  bool in_probe = false;     // look-ups made by the harness' own cache probe are not counted
  long hit = 0, miss = 0, inserted = 0, cleared = 0;
} g_hook;
} // namespace
#ifdef C03_HAVE_HOOKS
extern "C" void
stir_verif_point(int site, const void* obj, long a, long)
{
  if (obj != g_hook.obj || g_hook.in_probe)
    return;
  switch (site)
    {
    case STIR_VERIF_PMCACHE_LOOKUP:
      ++(a ? g_hook.hit : g_hook.miss);
      break;
    case STIR_VERIF_PMCACHE_INSERTED:
      ++g_hook.inserted;
      break;
    case STIR_VERIF_PMCACHE_CLEAR:
      ++g_hook.cleared;
      break;
    default:
      break;
    }
}
#endif

// ------------------------------------------------------------------------------------------------ small helpers
static std::string
bin_str(const Bin& b)
{
  return vf::fmt("bin(seg%d,ax%d,view%d,tang%d,tof%d)", b.segment_num(), b.axial_pos_num(), b.view_num(), b.tangential_pos_num(),
                 b.timing_pos_num());
}
static bool
same_bin_coords(const Bin& a, const Bin& b)
{
  return a.segment_num() == b.segment_num() && a.axial_pos_num() == b.axial_pos_num() && a.view_num() == b.view_num()
         && a.tangential_pos_num() == b.tangential_pos_num() && a.timing_pos_num() == b.timing_pos_num();
}

// read-only look into the row cache through the protected accessor ProjMatrixByBin offers to derived classes
class ProbeMatrix : public ProjMatrixByBinUsingRayTracing
{
public:
  bool is_cached(const Bin& b) const
  {
    ProjMatrixElemsForOneBin p(b);
    g_hook.in_probe = true;
    const bool found = this->get_cached_proj_matrix_elems_for_one_bin(p) == Succeeded::yes;
    g_hook.in_probe = false;
    return found;
  }
};

struct Settings
{
  unsigned sym = 0;   // bit0 90-phi, bit1 180-phi, bit2 swap_segment, bit3 swap_s, bit4 shift_z
  int cache_mode = 0; // 0 disabled (basic-bin code path), 1 disabled (all-bins code path), 2 basic bins only, 3 all bins
  int rays = 1;
  bool cyl_fov = true;
  vf::Desc desc() const
  {
    vf::Desc d;
    d.add("sym90", bool(sym & 1)).add("sym180", bool(sym & 2)).add("swap_segment", bool(sym & 4)).add("swap_s", bool(sym & 8));
    d.add("shift_z", bool(sym & 16));
    static const char* cm[] = { "disabled", "disabled_allbins_path", "basic_bins_only", "all_bins" };
    d.add("cache", cm[cache_mode]).add("tangential_rays", rays).add("cylindrical_fov", cyl_fov);
    return d;
  }
};
static void
apply_settings(ProjMatrixByBinUsingRayTracing& m, const Settings& s)
{
  m.set_do_symmetry_90degrees_min_phi(s.sym & 1);
  m.set_do_symmetry_180degrees_min_phi(s.sym & 2);
  m.set_do_symmetry_swap_segment(s.sym & 4);
  m.set_do_symmetry_swap_s(s.sym & 8);
  m.set_do_symmetry_shift_z(s.sym & 16);
  m.enable_cache(s.cache_mode >= 2);
  m.store_only_basic_bins_in_cache(s.cache_mode == 0 || s.cache_mode == 2);
  m.set_num_tangential_LORs(s.rays);
  m.set_restrict_to_cylindrical_FOV(s.cyl_fov);
  m.set_use_actual_detector_boundaries(false);
}

// ------------------------------------------------------------------------------------------------ generated geometry
struct Geo
{
  vg::ScannerSpec ss;
  vg::PdiSpec ps;
  shared_ptr<Scanner> sc;
  shared_ptr<ProjDataInfo> pdi;
  bool uncompressed_axially = true;
};
struct Grid
{
  vg::ImageSpec is;
  int k = 2; // vz = ring spacing / k
  shared_ptr<VoxelsOnCartesianGrid<float>> img;
  int minx, maxx, miny, maxy, minz, maxz;
};

static void
make_pdi_for(Geo& g, Rng& rng)
{
  try
    {
      g.pdi = vg::make_pdi(g.sc, g.ps, &rng);
    }
  catch (const std::exception& e)
    {
      throw vf::Skip(std::string("pdi rejected: ") + e.what());
    }
  g.uncompressed_axially = true;
  auto cyl = dynamic_cast<const ProjDataInfoCylindrical*>(g.pdi.get());
  if (!cyl)
    throw vf::Skip("unexpected pdi class");
  for (int seg = cyl->get_min_segment_num(); seg <= cyl->get_max_segment_num(); ++seg)
    if (cyl->get_min_ring_difference(seg) != cyl->get_max_ring_difference(seg))
      g.uncompressed_axially = false;
}

static void
gen_pdi_for(Geo& g, Rng& rng)
{
  vg::PdiOpts po;
  po.allow_arccorr = false;
  g.ps = vg::gen_pdi(rng, g.ss, po);
  // view mashing puts an azimuthal offset on view 0, for which the library switches the rotational symmetries off: keep it rarer
  if (g.ps.num_views != g.ss.ndet / 2 && rng.coin(0.6))
    g.ps.num_views = g.ss.ndet / 2;
  if (g.ss.tof_bins > 0)
    {
      // keep the number of TOF bins small (rows are requested for every TOF bin)
      std::vector<int> ok;
      for (int m = 1; m <= g.ss.tof_bins; ++m)
        if ((g.ss.tof_bins / m) % 2 == 1 && g.ss.tof_bins / m <= 5)
          ok.push_back(m);
      g.ps.tof_mash = ok.empty() ? 0 : rng.pick(ok);
    }
  make_pdi_for(g, rng);
}

static Geo
gen_geo(Rng& rng, bool thorough)
{
  Geo g;
  vg::ScannerOpts so;
  so.min_det = 8;
  so.max_det = thorough ? 64 : 40;
  so.min_rings = 1;
  so.max_rings = thorough ? 6 : 5;
  so.p_tof = 0.12;
  so.allow_tilt = true;
  so.allow_blocks = false;
  g.ss = vg::gen_scanner(rng, so);
  // keep tan(theta) of the first oblique segment away from 0 (a ray almost parallel to the planes amplifies float32 rounding
  // of its z position by 1/tan(theta); with R<=160 and ring spacing>=3 that stays two orders below the comparison band)
  {
    const float newR = static_cast<float>(rng.uniform(40., 150.));
    const float scale = newR / g.ss.radius;
    g.ss.radius = newR;
    g.ss.bin_size *= scale;
    g.ss.tof_size *= scale;
    g.ss.tof_res *= scale;
    if (g.ss.ring_spacing < 3.f)
      g.ss.ring_spacing = static_cast<float>(rng.uniform(3., 8.));
  }
  // an intrinsic tilt makes the library switch off the rotational symmetries: keep it, but rarely
  // (and never inside the 1e-4 rad window below which the library still treats view 0 as phi=0)
  if (g.ss.tilt != 0.f && (rng.coin(0.75) || std::fabs(g.ss.tilt) < 0.01f))
    g.ss.tilt = 0.f;
  // 90-phi symmetry needs a number of views that is a multiple of 4
  if (rng.coin(0.5))
    {
      g.ss.ndet = 8 * static_cast<int>(rng.range(1, so.max_det / 8));
      g.ss.trans_per_block = 1;
    }
  try
    {
      g.sc = vg::make_scanner(g.ss);
    }
  catch (const std::exception& e)
    {
      throw vf::Skip(std::string("scanner rejected: ") + e.what());
    }
  gen_pdi_for(g, rng);
  return g;
}

static void
build_image(Grid& gr)
{
  gr.img = vg::make_image(gr.is);
  BasicCoordinate<3, int> mn, mx;
  gr.img->get_regular_range(mn, mx);
  gr.minz = mn[1];
  gr.maxz = mx[1];
  gr.miny = mn[2];
  gr.maxy = mx[2];
  gr.minx = mn[3];
  gr.maxx = mx[3];
}

static Grid
gen_grid(Rng& rng, const Geo& g)
{
  Grid gr;
  const auto& cyl = dynamic_cast<const ProjDataInfoCylindrical&>(*g.pdi);
  const float samp = g.pdi->get_sampling_in_s(Bin(0, 0, 0, 0));
  gr.is.vx = static_cast<float>(samp * rng.uniform(0.5, 2.0));
  // square, or clearly not square: DataSymmetriesForBins_PET_CartesianGrid keeps the 90-degree symmetry while |vx-vy| <= 2e-3 mm,
  // i.e. it treats such a grid as square on purpose; the generator stays out of that grey zone
  gr.is.vy = rng.coin(0.65) ? gr.is.vx
                            : static_cast<float>(gr.is.vx * (rng.coin(0.5) ? rng.uniform(0.6, 0.95) : rng.uniform(1.05, 1.6)));
  gr.is.nx = static_cast<int>(rng.range(3, 13));
  gr.is.ny = rng.coin(0.5) ? gr.is.nx : static_cast<int>(rng.range(3, 13));
  // z voxel size = ring spacing / k; the matrix and the symmetries need every segment's axial sampling to be a multiple of it
  std::vector<int> ks;
  for (int k : { 1, 1, 1, 2, 2, 2, 2, 4 })
    {
      bool ok = true;
      for (int seg = cyl.get_min_segment_num(); seg <= cyl.get_max_segment_num(); ++seg)
        {
          const double r = cyl.get_axial_sampling(seg) * k / cyl.get_ring_spacing();
          if (std::fabs(r - std::floor(r + 0.5)) > 1e-4 || r < 0.5)
            ok = false;
        }
      if (ok)
        ks.push_back(k);
    }
  if (ks.empty())
    throw vf::Skip("no admissible z voxel size");
  gr.k = rng.pick(ks);
  gr.is.vz = g.ss.ring_spacing / gr.k;
  const int nz_std = (g.ss.nrings - 1) * gr.k + 1;
  gr.is.nz = std::max(1, nz_std + static_cast<int>(rng.range(-2, 3)));
  gr.is.min_z = rng.coin(0.6) ? 0 : static_cast<int>(rng.range(-3, 3));
  gr.is.oz = rng.coin(0.65) ? 0.f : static_cast<float>(rng.range(-3, 3)) * gr.is.vz;
  build_image(gr);
  return gr;
}

// ------------------------------------------------------------------------------------------------ geometric tie screen
static inline double
dist_to_half_integer(double a)
{
  return std::fabs((a - std::floor(a)) - 0.5);
}

// true if the bin has to be excluded.  Uses (s, phi, t, tan(theta)) of the bin, the grid and the ray set-up only.
static bool
screen_bin(const ProjDataInfo& pdi, const Bin& bin, const Grid& g, const Settings& st)
{
  const double TIE = 1e-3;
  const double vx = g.is.vx, vy = g.is.vy, vz = g.is.vz;
  const double s0 = pdi.get_s(bin);
  const double phi = pdi.get_phi(bin);
  const double cphi = std::cos(phi), sphi = std::sin(phi);
  const double tantheta = pdi.get_tantheta(bin);
  const double costheta = 1. / std::sqrt(1. + tantheta * tantheta);
  const double t = pdi.get_t(bin);
  const double samp_z = pdi.get_sampling_in_t(bin) / costheta;
  const int nzl = static_cast<int>(std::ceil(samp_z / vz - 1e-3));
  if (nzl < 1)
    return true;
  double offset_in_z = -samp_z / (2. * nzl) * (nzl - 1) - g.is.oz + (g.maxz + g.minz) / 2. * vz;
  if (tantheta == 0)
    {
      const double d = dist_to_half_integer((t + offset_in_z) / vz);
      if (std::fabs(d - 1e-3) < 2e-4)
        return true; // the "between two planes" switch itself is a tie
      if (d < 1e-3)
        offset_in_z -= .1 * vz;
    }
  const double fovrad = std::min(std::min(g.maxx, -g.minx) * vx, std::min(g.maxy, -g.miny) * vy);
  const double tol_mm = TIE * std::min(vx, vy);
  const double s_inc = pdi.get_sampling_in_s(bin) / st.rays;
  for (int r = 0; r < st.rays; ++r)
    {
      const double s = st.rays == 1 ? s0 : s0 - s_inc * (st.rays - 1) / 2. + r * s_inc;
      double max_a, min_a;
      if (st.cyl_fov)
        {
          if (std::fabs(std::fabs(s) - fovrad) <= tol_mm)
            return true; // ray inside/outside the FOV is a tie
          if (std::fabs(s) > fovrad)
            continue; // empty ray in every evaluation
          max_a = std::sqrt(fovrad * fovrad - s * s);
          min_a = -max_a;
        }
      else
        {
          if (std::fabs(std::fabs(cphi) - 1e-3) < 2e-4 || std::fabs(std::fabs(sphi) - 1e-3) < 2e-4)
            return true;
          if (std::fabs(cphi) < 1e-3 || std::fabs(sphi) < 1e-3)
            {
              if (std::fabs(std::fabs(s) - fovrad) <= tol_mm)
                return true;
              if (fovrad < std::fabs(s))
                continue;
              max_a = fovrad;
              min_a = -fovrad;
            }
          else
            {
              const double sgs = sphi < 0 ? -1 : 1, sgc = cphi < 0 ? -1 : 1;
              max_a = std::min((fovrad * sgs - s * cphi) / sphi, (fovrad * sgc + s * sphi) / cphi);
              min_a = std::max((-fovrad * sgs - s * cphi) / sphi, (-fovrad * sgc + s * sphi) / cphi);
              if (max_a - min_a < 3e-3 * vx)
                {
                  if (max_a - min_a > -1e-3 * vx)
                    return true; // "corner clipped" decision is a tie
                  continue;
                }
            }
        }
      const double p0[3] = { (t / costheta + offset_in_z - max_a * tantheta) / vz, (s * sphi - max_a * cphi) / vy,
                             (s * cphi + max_a * sphi) / vx };
      const double p1[3] = { (t / costheta + offset_in_z - min_a * tantheta) / vz, (s * sphi - min_a * cphi) / vy,
                             (s * cphi + min_a * sphi) / vx };
      double len2 = 0;
      for (int c = 0; c < 3; ++c)
        len2 += (p1[c] - p0[c]) * (p1[c] - p0[c]);
      if (len2 < 1e-6)
        return true; // (nearly) coinciding end points
      // end points: the voxel containing them is found by rounding
      for (int c = 0; c < 3; ++c)
        if (dist_to_half_integer(p0[c]) < TIE || dist_to_half_integer(p1[c]) < TIE)
          return true;
      // grid edges: wherever the ray crosses a plane between voxels, the other two coordinates must stay clear of their own planes
      for (int c = 0; c < 3; ++c)
        {
          const double d = p1[c] - p0[c];
          if (std::fabs(d) < 1e-9)
            continue;
          const double lo = std::min(p0[c], p1[c]), hi = std::max(p0[c], p1[c]);
          // planes at i+0.5, including the outer faces of the two end voxels
          for (double pl = std::floor(lo + 0.5) - 0.5; pl <= std::floor(hi + 0.5) + 0.5 + 1e-9; pl += 1.)
            {
              const double lam = (pl - p0[c]) / d;
              for (int o = 0; o < 3; ++o)
                if (o != c)
                  {
                    const double v = p0[o] + lam * (p1[o] - p0[o]);
                    if (dist_to_half_integer(v) < TIE)
                      return true;
                  }
            }
        }
    }
  return false;
}

// ------------------------------------------------------------------------------------------------ rows
struct Elem
{
  int z, y, x;
  float v;
};
static inline bool
elem_less(const Elem& a, const Elem& b)
{
  return std::tie(a.z, a.y, a.x) < std::tie(b.z, b.y, b.x);
}
static inline bool
elem_same(const Elem& a, const Elem& b)
{
  return a.z == b.z && a.y == b.y && a.x == b.x;
}
static void
extract(const ProjMatrixElemsForOneBin& p, std::vector<Elem>& out)
{
  out.clear();
  out.reserve(p.size());
  for (auto it = p.begin(); it != p.end(); ++it)
    out.push_back(Elem{ it->coord1(), it->coord2(), it->coord3(), it->get_value() });
  std::sort(out.begin(), out.end(), elem_less);
}

static std::string
short_op_name(const SymmetryOperation& op)
{
  static std::unordered_map<std::type_index, std::string> cache;
  const std::type_index ti(typeid(op));
  auto it = cache.find(ti);
  if (it != cache.end())
    return it->second;
  std::string n = typeid(op).name(), out;
  const std::string key = "CartesianGrid_";
  const size_t p = n.find(key);
  if (p != std::string::npos)
    {
      out = n.substr(p + key.size());
      if (!out.empty() && out.back() == 'E')
        out.pop_back();
    }
  else if (n.find("Trivial") != std::string::npos)
    out = "trivial";
  else
    out = "other";
  cache[ti] = out;
  return out;
}

// what is wrong with a returned row (clause == nullptr: nothing)
struct Finding
{
  const char* clause = nullptr;
  std::string detail;
};

// All per-row clauses and the comparison with the directly computed row.
//   a, label : the row under scrutiny (sorted) and the bin it says it belongs to;  b : the reference row (sorted)
static Finding
examine(const std::vector<Elem>& a, const Bin& label, const std::vector<Elem>& b, const Bin& bin, const Grid& grid, long* clipped_out)
{
  Finding f;
  if (!same_bin_coords(label, bin))
    {
      f.clause = "row-labelled-with-other-bin";
      f.detail = "returned row is labelled " + bin_str(label);
      return f;
    }
  for (size_t i = 0; i < a.size(); ++i)
    {
      const Elem& e = a[i];
      if (!(e.v >= 0.f) || !std::isfinite(e.v))
        {
          f.clause = "negative-or-nan-element";
          f.detail = vf::fmt("voxel(z%d,y%d,x%d) value %g", e.z, e.y, e.x, e.v);
          return f;
        }
      if (i > 0 && elem_same(a[i - 1], e))
        {
          f.clause = "voxel-twice-in-row";
          f.detail = vf::fmt("voxel(z%d,y%d,x%d) values %g and %g", e.z, e.y, e.x, a[i - 1].v, e.v);
          return f;
        }
      if (e.x < grid.minx || e.x > grid.maxx || e.y < grid.miny || e.y > grid.maxy)
        {
          f.clause = "voxel-outside-image-xy";
          f.detail = vf::fmt("voxel(z%d,y%d,x%d) image x %d..%d y %d..%d", e.z, e.y, e.x, grid.minx, grid.maxx, grid.miny, grid.maxy);
          return f;
        }
    }
  // band from the complete reference row, comparison on the rows as applied (z clipped to the image)
  float mx = 0;
  for (const Elem& e : b)
    mx = std::max(mx, e.v);
  const float tol = mx * .002F;
  auto in_z = [&](const Elem& e) { return e.z >= grid.minz && e.z <= grid.maxz; };
  size_t i = 0, j = 0;
  long clipped = 0;
  const char* what = nullptr;
  Elem wa{ 0, 0, 0, 0 }, wb{ 0, 0, 0, 0 };
  while (i < a.size() || j < b.size())
    {
      if (i < a.size() && !in_z(a[i]))
        {
          ++i;
          ++clipped;
          continue;
        }
      if (j < b.size() && !in_z(b[j]))
        {
          ++j;
          continue;
        }
      if (i < a.size() && j < b.size() && elem_same(a[i], b[j]))
        {
          if (std::fabs(a[i].v - b[j].v) > tol)
            {
              what = "value-differs";
              wa = a[i];
              wb = b[j];
              break;
            }
          ++i;
          ++j;
        }
      else if (j >= b.size() || (i < a.size() && elem_less(a[i], b[j])))
        {
          if (a[i].v > tol)
            {
              what = "extra-voxel";
              wa = a[i];
              break;
            }
          ++i;
        }
      else
        {
          if (b[j].v > tol)
            {
              what = "missing-voxel";
              wb = b[j];
              break;
            }
          ++j;
        }
    }
  if (clipped_out)
    *clipped_out = clipped;
  if (what)
    {
      f.clause = "row-differs-from-direct-computation";
      f.detail = what;
      if (std::string(what) != "missing-voxel")
        f.detail += vf::fmt(" got voxel(z%d,y%d,x%d)=%g", wa.z, wa.y, wa.x, wa.v);
      if (std::string(what) != "extra-voxel")
        f.detail += vf::fmt(" reference voxel(z%d,y%d,x%d)=%g", wb.z, wb.y, wb.x, wb.v);
      f.detail += vf::fmt(" band %g (row max %g); row has %zu elements, reference %zu", tol, mx, a.size(), b.size());
    }
  return f;
}

// one matrix under test with its reference, for one (pdi, grid)
struct Monitor
{
  Ctx& ctx;
  const ProbeMatrix& M;
  const ProjMatrixByBinUsingRayTracing& REF;
  const Geo& geo;
  const Grid& grid;
  Settings st;
  std::string geo_tag; // stage of the history: which geometry the matrix is currently set up for ("first", "after-re-set_up:<variant>", ...)
  // set when set_up() was observed to do nothing although the image's index range changed (see run_case): every violation
  // seen in that state is reported under this one key
  std::string key_override;
  ProjMatrixElemsForOneBin row, refrow;
  std::vector<Elem> a, b;
  long rows_via_symmetry = 0, rows_compared = 0;

  Monitor(Ctx& c, const ProbeMatrix& m, const ProjMatrixByBinUsingRayTracing& r, const Geo& g, const Grid& gr, const Settings& s,
          const std::string& tag)
      : ctx(c),
        M(m),
        REF(r),
        geo(g),
        grid(gr),
        st(s),
        geo_tag(tag)
  {}

  // Triage of a finding, only to choose a stable violation key: does a *fresh* matrix object with the same symmetry switches
  // (cache disabled, set up once for this geometry, asked for this bin only) return the same kind of wrong row?
  //   yes -> the symmetry path is wrong whatever the history:  <clause>:symmetry-operation:<op>
  //   no  -> the row depends on the history / cache:           <clause>:request-history:<cache mode>:<stage>
  std::string key_for(const Finding& f, const Bin& bin, const char* phase, const std::string& op, std::string& note)
  {
    if (!key_override.empty())
      {
        note = "[set_up() returned without doing anything although the image index range changed] ";
        return key_override;
      }
    bool fresh_is_wrong_too = false;
    try
      {
        ProjMatrixByBinUsingRayTracing fresh;
        Settings s = st;
        s.cache_mode = (st.cache_mode == 1 || st.cache_mode == 3) ? 1 : 0; // same code path, nothing cached
        apply_settings(fresh, s);
        fresh.set_up(geo.pdi, grid.img);
        ProjMatrixElemsForOneBin r;
        fresh.get_proj_matrix_elems_for_one_bin(r, bin);
        std::vector<Elem> fa;
        extract(r, fa);
        const Finding ff = examine(fa, r.get_bin(), b, bin, grid, nullptr);
        fresh_is_wrong_too = ff.clause != nullptr;
      }
    catch (...)
      {}
    if (fresh_is_wrong_too)
      {
        note = "[a fresh matrix with the same symmetry switches and no cache returns a wrong row for this bin as well] ";
        return std::string(f.clause) + ":symmetry-operation:" + op;
      }
    note = "[a fresh matrix with the same symmetry switches and no cache returns the correct row: the error depends on the history] ";
    static const char* cmn[] = { "cache-disabled", "cache-disabled-allbins-path", "cache-basic-bins-only", "cache-all-bins" };
    std::string stage = geo_tag.substr(0, geo_tag.find(':'));
    if (stage == "first")
      stage = phase;
    else if (std::string(phase) != "first-pass")
      stage += std::string("+") + phase;
    return std::string(f.clause) + ":request-history:" + cmn[st.cache_mode] + ":" + stage;
  }

  // returns false after reporting a violation
  bool request_and_check(const Bin& bin, const char* phase)
  {
    // which symmetry operation / basic bin the matrix will use (evidence + violation key)
    Bin basic = bin;
    std::string op;
    bool derived;
    {
      unique_ptr<SymmetryOperation> sop = M.get_symmetries_ptr()->find_symmetry_operation_from_basic_bin(basic);
      op = short_op_name(*sop);
      derived = !same_bin_coords(basic, bin);
    }
    // what is in the cache right before the request (evidence that the cache paths are really taken)
    if (st.cache_mode >= 2)
      {
        bool hit = false;
        if (st.cache_mode == 3 && M.is_cached(bin))
          {
            hit = true;
            ctx.count("cache_hit_full_row");
          }
        else if (M.is_cached(basic))
          {
            hit = true;
            ctx.count(derived ? "cache_hit_basic_row_then_transformed" : "cache_hit_basic_row");
          }
        if (!hit)
          ctx.count("cache_miss");
      }
    else
      ctx.count("requests_with_cache_disabled");

    M.get_proj_matrix_elems_for_one_bin(row, bin);
    REF.get_proj_matrix_elems_for_one_bin(refrow, bin);
    extract(row, a);
    extract(refrow, b);
    ++rows_compared;
    ctx.count("rows_compared");
    ctx.count("symop_" + op);
    if (derived)
      {
        ++rows_via_symmetry;
        ctx.count("rows_via_symmetry");
      }
    if (!b.empty())
      ctx.count("rows_nonempty");

    long clipped = 0;
    const Finding f = examine(a, row.get_bin(), b, bin, grid, &clipped);
    if (clipped)
      ctx.count("elements_outside_image_z_dropped_as_applied", clipped);
    if (f.clause)
      {
        std::string note;
        const std::string k = key_for(f, bin, phase, op, note);
        ctx.violation(k, note + bin_str(bin) + " phase=" + phase + " geometry=" + geo_tag + " symmetry_op=" + op + " basic_"
                             + bin_str(basic) + " settings=" + st.desc().str() + " : " + f.detail);
        return false;
      }
    return true;
  }
};

// all bins of a geometry
static void
all_bins(const ProjDataInfo& pdi, std::vector<Bin>& out)
{
  out.clear();
  for (int seg = pdi.get_min_segment_num(); seg <= pdi.get_max_segment_num(); ++seg)
    for (int ax = pdi.get_min_axial_pos_num(seg); ax <= pdi.get_max_axial_pos_num(seg); ++ax)
      for (int view = pdi.get_min_view_num(); view <= pdi.get_max_view_num(); ++view)
        for (int tg = pdi.get_min_tangential_pos_num(); tg <= pdi.get_max_tangential_pos_num(); ++tg)
          for (int k = pdi.get_min_tof_pos_num(); k <= pdi.get_max_tof_pos_num(); ++k)
            out.push_back(Bin(seg, view, ax, tg, k));
}

// bins that survive the tie screen (in a random order)
static void
screened_bins(Ctx& ctx, const Geo& g, const Grid& gr, const Settings& st, std::vector<Bin>& out)
{
  std::vector<Bin> all;
  all_bins(*g.pdi, all);
  out.clear();
  long ties = 0;
  for (const Bin& b : all)
    {
      // the screen does not depend on the TOF index
      if (screen_bin(*g.pdi, b, gr, st))
        ++ties;
      else
        out.push_back(b);
    }
  ctx.count("bins_total", static_cast<long>(all.size()));
  ctx.count("bins_screened_as_ties", ties);
  ctx.rng.shuffle(out);
}

static void
set_up_reference(ProjMatrixByBinUsingRayTracing& ref, const Geo& g, const Grid& gr, const Settings& st)
{
  Settings s0 = st;
  s0.sym = 0;
  s0.cache_mode = 0;
  apply_settings(ref, s0);
  ref.set_up(g.pdi, gr.img);
}

// ------------------------------------------------------------------------------------------------ the case
static void
run_case(Ctx& ctx)
{
  Rng& rng = ctx.rng;
  Geo g1 = gen_geo(rng, ctx.thorough());
  Grid gr1 = gen_grid(rng, g1);
  Settings st;
  // stratify the 2^5 symmetry settings x 4 cache modes over the case index, the rest is random
  st.sym = static_cast<unsigned>(ctx.idx % 32);
  st.cache_mode = static_cast<int>((ctx.idx / 32 + rng.range(0, 1) * 2) % 4);
  if (rng.coin(0.4))
    st.cache_mode = static_cast<int>(rng.range(2, 3));
  st.rays = static_cast<int>(rng.range(1, 3));
  st.cyl_fov = rng.coin(0.75);
  const bool is_tof = g1.pdi->is_tof_data();

  ctx.desc.add("scanner", g1.ss.desc()).add("pdi", g1.ps.desc()).add("image", gr1.is.desc()).add("k", gr1.k);
  ctx.desc.add("settings", st.desc());
  ctx.heartbeat("set_up");

  ProjMatrixByBinUsingRayTracing REF;
  ProbeMatrix M;
  g_hook = HookState();
  g_hook.obj = static_cast<const ProjMatrixByBin*>(&M);
  struct HookReport
  {
    Ctx& c;
    ~HookReport()
    {
      // also on the violation / exception paths
      c.count("hook_pmcache_lookup_hit", g_hook.hit);
      c.count("hook_pmcache_lookup_miss", g_hook.miss);
      c.count("hook_pmcache_inserted", g_hook.inserted);
      c.count("hook_pmcache_cleared", g_hook.cleared);
      g_hook = HookState();
    }
  } hook_report{ ctx };
  try
    {
      set_up_reference(REF, g1, gr1, st);
      apply_settings(M, st);
      M.set_up(g1.pdi, gr1.img);
    }
  catch (const std::exception& e)
    {
      throw vf::Skip(std::string("set_up rejected: ") + e.what());
    }
  catch (const std::string& e)
    {
      throw vf::Skip(std::string("set_up rejected: ") + e);
    }

  std::vector<Bin> bins;
  screened_bins(ctx, g1, gr1, st, bins);
  if (bins.empty())
    throw vf::Skip("every bin is a tie");
  // the library may still reject the grid when the first row is computed (error() in calculate_proj_matrix_elems_for_one_bin)
  try
    {
      ProjMatrixElemsForOneBin tmp;
      REF.get_proj_matrix_elems_for_one_bin(tmp, bins[0]);
    }
  catch (const std::exception& e)
    {
      throw vf::Skip(std::string("first row rejected: ") + e.what());
    }

  Monitor mon(ctx, M, REF, g1, gr1, st, "first");
  ctx.heartbeat("first-pass");

  // ---- phase 1: every bin once in random order, interleaved with repeats, clear_cache and repeated set_up with the same arguments
  const size_t n = bins.size();
  std::set<size_t> clear_at, setup_at;
  for (int i = 0, m = static_cast<int>(rng.range(1, 3)); i < m; ++i)
    clear_at.insert(static_cast<size_t>(rng.range(0, static_cast<long>(n) - 1)));
  if (rng.coin(0.5))
    setup_at.insert(static_cast<size_t>(rng.range(0, static_cast<long>(n) - 1)));
  bool after_clear = false, after_setup = false;
  for (size_t i = 0; i < n; ++i)
    {
      if (clear_at.count(i))
        {
          M.clear_cache();
          ctx.count("clear_cache_events");
          after_clear = true;
        }
      if (setup_at.count(i))
        {
          M.set_up(g1.pdi, gr1.img); // same arguments: documented to be skipped
          ctx.count("re_setups_same_arguments");
          after_setup = true;
        }
      if (!mon.request_and_check(bins[i], after_setup ? "after-set_up-with-same-arguments" : (after_clear ? "after-clear_cache" : "first-pass")))
        return;
      // repeats of bins requested earlier (so that cached rows and rows of related bins are requested in every order)
      while (rng.coin(0.25))
        {
          const Bin& rb = bins[static_cast<size_t>(rng.range(0, static_cast<long>(i)))];
          ctx.count("repeated_requests");
          if (!mon.request_and_check(rb, "repeat"))
            return;
        }
    }

  // ---- phase 2: set the same matrix object up for another geometry, check it there, come back and check again
  if (rng.coin(0.8))
    {
      Geo g2 = g1;
      Grid gr2 = gr1;
      std::string variant;
      const double u = rng.u01();
      try
        {
          if (u < 0.25)
            {
              // same projection data, same voxel sizes and origin, image of another size
              variant = "same-data-same-voxels-other-image-size";
              for (int tries = 0; tries < 20; ++tries)
                {
                  gr2.is.nx = static_cast<int>(rng.range(3, 13));
                  gr2.is.ny = rng.coin(0.5) ? gr2.is.nx : static_cast<int>(rng.range(3, 13));
                  gr2.is.nz = std::max(1, gr1.is.nz + static_cast<int>(rng.range(-2, 2)));
                  gr2.is.min_z = rng.coin(0.5) ? gr1.is.min_z : static_cast<int>(rng.range(-3, 3));
                  if (gr2.is.nx != gr1.is.nx || gr2.is.ny != gr1.is.ny || gr2.is.nz != gr1.is.nz || gr2.is.min_z != gr1.is.min_z)
                    break;
                }
              build_image(gr2);
            }
          else if (u < 0.45)
            {
              variant = "same-data-other-voxel-size-or-origin";
              gr2 = gen_grid(rng, g2);
            }
          else if (u < 0.75)
            {
              variant = "other-data-same-scanner";
              gen_pdi_for(g2, rng);
              gr2 = gen_grid(rng, g2);
            }
          else
            {
              variant = "other-scanner";
              g2 = gen_geo(rng, false);
              gr2 = gen_grid(rng, g2);
            }
        }
      catch (const vf::Skip&)
        {
          variant.clear();
          ctx.count("other_geometry_rejected");
        }
      if (!variant.empty())
        {
          ProjMatrixByBinUsingRayTracing REF2;
          bool ok2 = true;
          const void* sym_before = nullptr;
          bool set_up_did_nothing = false;
          std::vector<Bin> bins2;
          try
            {
              set_up_reference(REF2, g2, gr2, st);
              vf::Desc d2;
              d2.add("variant", variant).add("scanner", g2.ss.desc()).add("pdi", g2.ps.desc()).add("image", gr2.is.desc()).add("k", gr2.k);
              ctx.desc.add("other_geometry", d2);
              ctx.heartbeat("other-geometry-set_up");
              sym_before = M.get_symmetries_ptr();
              M.set_up(g2.pdi, gr2.img);
              // a set_up that really happens builds a new symmetries object (allocated before the old one is released)
              set_up_did_nothing = M.get_symmetries_ptr() == sym_before;
              screened_bins(ctx, g2, gr2, st, bins2);
              if (!bins2.empty())
                {
                  ProjMatrixElemsForOneBin tmp;
                  REF2.get_proj_matrix_elems_for_one_bin(tmp, bins2[0]);
                }
            }
          catch (const std::exception&)
            {
              ok2 = false;
              ctx.count("other_geometry_rejected");
            }
          if (ok2)
            {
              ctx.count("re_setups");
              ctx.count("re_setup_" + variant);
              Monitor mon2(ctx, M, REF2, g2, gr2, st, "after-re-set_up:" + variant);
              const bool range_changed = gr2.minx != gr1.minx || gr2.maxx != gr1.maxx || gr2.miny != gr1.miny || gr2.maxy != gr1.maxy
                                         || gr2.minz != gr1.minz || gr2.maxz != gr1.maxz;
              if (set_up_did_nothing && range_changed)
                {
                  // known shape of one specific defect: give everything seen in this state one key of its own
                  ctx.count("set_up_did_nothing_although_image_index_range_changed");
                  mon2.key_override = "stale-rows:set_up-skipped-for-image-with-other-index-range-but-same-voxel-size-and-origin";
                }
              const size_t lim = ctx.thorough() ? 6000 : 2500;
              ctx.heartbeat("other-geometry");
              for (size_t i = 0; i < bins2.size() && i < lim; ++i)
                {
                  if (!mon2.request_and_check(bins2[i], "first-pass"))
                    return;
                  if (rng.coin(0.15))
                    {
                      ctx.count("repeated_requests");
                      if (!mon2.request_and_check(bins2[static_cast<size_t>(rng.range(0, static_cast<long>(i)))], "repeat"))
                        return;
                    }
                }
              mon.rows_via_symmetry += mon2.rows_via_symmetry;
              mon.rows_compared += mon2.rows_compared;
            }
          // and back to the first geometry (possibly with other symmetry switches: that is also "setting up again")
          Settings st_back = st;
          if (rng.coin(0.3))
            {
              st_back.sym = static_cast<unsigned>(rng.range(0, 31));
              ctx.desc.add("settings_on_return", st_back.desc());
              ctx.count("re_setups_with_other_symmetry_switches");
            }
          ctx.heartbeat("back-set_up");
          try
            {
              apply_settings(M, st_back);
              M.set_up(g1.pdi, gr1.img);
            }
          catch (const std::exception& e)
            {
              // the first geometry was accepted before: a rejection now is history dependence
              ctx.violation("set_up-rejects-previously-accepted-geometry:" + variant, e.what());
              return;
            }
          ctx.count("re_setups");
          ctx.count("re_setups_back_to_first_geometry");
          Monitor mon3(ctx, M, REF, g1, gr1, st_back, "back-after-re-set_up:" + (ok2 ? variant : std::string("rejected-geometry")));
          rng.shuffle(bins);
          const size_t lim = ctx.thorough() ? 6000 : 2500;
          ctx.heartbeat("back");
          for (size_t i = 0; i < bins.size() && i < lim; ++i)
            {
              if (!mon3.request_and_check(bins[i], "first-pass"))
                return;
              if (rng.coin(0.15))
                {
                  ctx.count("repeated_requests");
                  if (!mon3.request_and_check(bins[static_cast<size_t>(rng.range(0, static_cast<long>(i)))], "repeat"))
                    return;
                }
            }
          mon.rows_via_symmetry += mon3.rows_via_symmetry;
          mon.rows_compared += mon3.rows_compared;
        }
    }

  // ---- evidence
  char symname[8];
  std::snprintf(symname, sizeof symname, "%02u", st.sym);
  ctx.count(std::string("cfg_sym_") + symname);
  static const char* cm[] = { "cfg_cache_disabled", "cfg_cache_disabled_allbins_path", "cfg_cache_basic_bins_only", "cfg_cache_all_bins" };
  ctx.count(cm[st.cache_mode]);
  ctx.count(vf::fmt("cfg_tangential_rays_%d", st.rays));
  ctx.count(st.cyl_fov ? "cfg_cylindrical_fov" : "cfg_square_fov");
  if (is_tof)
    ctx.count("cfg_tof");
  if (!g1.uncompressed_axially)
    ctx.count("cfg_axial_compression");
  if (g1.ps.num_views != g1.ss.ndet / 2)
    ctx.count("cfg_view_mashing");
  ctx.count(vf::fmt("cfg_z_voxel_ring_spacing_over_%d", gr1.k));
  if (gr1.is.oz != 0.f)
    ctx.count("cfg_shifted_z_origin");
  if (gr1.is.vx != gr1.is.vy)
    ctx.count("cfg_anisotropic_xy");
  if (gr1.is.nx % 2 == 0 || gr1.is.ny % 2 == 0)
    ctx.count("cfg_even_xy_size");
  // non-trivial: enough rows compared, a symmetry switched on, and rows really derived from another bin's row
  ctx.nontrivial = st.sym != 0 && mon.rows_compared >= 200 && mon.rows_via_symmetry >= 50;
}

int
main(int argc, char** argv)
{
  vg::quiet();
  return vf::verif_main(argc, argv, "C03", run_case);
}
