// C04: matched projector pairs are linear, adjoint and additive over pieces (DESIGN.md §6 C04).
//
// Per case: one generated (scanner, sampling, image grid, matrix configuration).  The real
// Forward/BackProjectorByBinUsingProjMatrixByBin (ray-tracing or interpolation matrix, symmetry switches,
// cache modes, tangential rays) are run on random SIGNED images / data and their float32 results are
// compared
//   * with each other (adjointness <Ax,y> = <x,A'y>, linearity, subsets/groups/tiles add up, sentinel bins,
//     accumulation of back projections), and
//   * with a float64 application of the rows delivered by an identically configured, separately
//     constructed matrix object (this gives the exact number of terms n and sum of |terms| A per bin and
//     per voxel, from which every acceptance band is computed: vf::band32(n, A), DESIGN §5).
// Finally ForwardProjectorByBinUsingRayTracing is compared with forward projection through
// ProjMatrixByBinUsingRayTracing (default settings, 1 tangential ray) where the on-the-fly projector's
// documented/asserted preconditions hold.
#include "common/verif.h"
#include "common/gen.h"
#include "stir/ProjDataInMemory.h"
#include "stir/ProjDataInfoCylindrical.h"
#include "stir/ExamInfo.h"
#include "stir/Viewgram.h"
#include "stir/RelatedViewgrams.h"
#include "stir/ViewSegmentNumbers.h"
#include "stir/DataSymmetriesForViewSegmentNumbers.h"
#include "stir/recon_buildblock/ProjMatrixByBin.h"
#include "stir/recon_buildblock/ProjMatrixByBinUsingRayTracing.h"
#include "stir/recon_buildblock/ProjMatrixByBinUsingInterpolation.h"
#include "stir/recon_buildblock/ProjMatrixElemsForOneBin.h"
#include "stir/recon_buildblock/ForwardProjectorByBinUsingProjMatrixByBin.h"
#include "stir/recon_buildblock/BackProjectorByBinUsingProjMatrixByBin.h"
#include "stir/recon_buildblock/ForwardProjectorByBinUsingRayTracing.h"
#include "stir/recon_buildblock/ProjectorByBinPairUsingProjMatrixByBin.h"
#include <sstream>
#include <numeric>

using namespace stir;
using vf::Ctx;
typedef VoxelsOnCartesianGrid<float> Img;

namespace {

const float SENT = -7777.25f; // sentinel: exactly representable, never produced by the generated inputs

// ------------------------------------------------------------------------------------------------ layouts
struct VG // one viewgram (segment, tof, view)
{
  int seg, k, view;
  bool operator<(const VG& o) const { return std::tie(seg, k, view) < std::tie(o.seg, o.k, o.view); }
  bool operator==(const VG& o) const { return seg == o.seg && k == o.k && view == o.view; }
};

struct Layout // canonical order of all bins: segment, tof, view, axial, tangential
{
  shared_ptr<const ProjDataInfo> pdi;
  int s0, s1, k0, k1, v0, v1, t0, t1, nt, nv, nk;
  std::vector<int> a0, na;
  std::vector<size_t> seg_off;
  size_t n = 0;
  explicit Layout(const shared_ptr<const ProjDataInfo>& p)
      : pdi(p)
  {
    s0 = p->get_min_segment_num();
    s1 = p->get_max_segment_num();
    k0 = p->get_min_tof_pos_num();
    k1 = p->get_max_tof_pos_num();
    v0 = p->get_min_view_num();
    v1 = p->get_max_view_num();
    t0 = p->get_min_tangential_pos_num();
    t1 = p->get_max_tangential_pos_num();
    nt = t1 - t0 + 1;
    nv = v1 - v0 + 1;
    nk = k1 - k0 + 1;
    for (int s = s0; s <= s1; ++s)
      {
        a0.push_back(p->get_min_axial_pos_num(s));
        na.push_back(p->get_max_axial_pos_num(s) - p->get_min_axial_pos_num(s) + 1);
        seg_off.push_back(n);
        n += static_cast<size_t>(na.back()) * nt * nv * nk;
      }
  }
  size_t vg_len(int seg) const { return static_cast<size_t>(na[seg - s0]) * nt; }
  size_t vg_off(const VG& g) const { return seg_off[g.seg - s0] + (static_cast<size_t>(g.k - k0) * nv + (g.view - v0)) * vg_len(g.seg); }
  size_t idx(const VG& g, int ax, int tang) const { return vg_off(g) + static_cast<size_t>(ax - a0[g.seg - s0]) * nt + (tang - t0); }
  int min_ax(int seg) const { return a0[seg - s0]; }
  int max_ax(int seg) const { return a0[seg - s0] + na[seg - s0] - 1; }
  std::vector<VG> all_vgs() const
  {
    std::vector<VG> v;
    for (int s = s0; s <= s1; ++s)
      for (int k = k0; k <= k1; ++k)
        for (int w = v0; w <= v1; ++w)
          v.push_back(VG{ s, k, w });
    return v;
  }
  std::string describe(size_t i) const
  {
    int si = 0;
    while (si + 1 < static_cast<int>(seg_off.size()) && seg_off[si + 1] <= i)
      ++si;
    size_t r = i - seg_off[si];
    const size_t len = static_cast<size_t>(na[si]) * nt;
    const int kv = static_cast<int>(r / len);
    r %= len;
    return vf::fmt("bin(seg%d,ax%d,view%d,tang%d,tof%d)", s0 + si, a0[si] + static_cast<int>(r / nt), v0 + kv % nv,
                   t0 + static_cast<int>(r % nt), k0 + kv / nv);
  }
};

struct Grid
{
  int z0, z1, y0, y1, x0, x1, nx, ny, nz;
  size_t n;
  explicit Grid(const Img& im)
  {
    z0 = im.get_min_z();
    z1 = im.get_max_z();
    y0 = im.get_min_y();
    y1 = im.get_max_y();
    x0 = im.get_min_x();
    x1 = im.get_max_x();
    nx = x1 - x0 + 1;
    ny = y1 - y0 + 1;
    nz = z1 - z0 + 1;
    n = static_cast<size_t>(nx) * ny * nz;
  }
  size_t idx(int z, int y, int x) const { return (static_cast<size_t>(z - z0) * ny + (y - y0)) * nx + (x - x0); }
  std::string describe(size_t i) const
  {
    return vf::fmt("voxel(z%d,y%d,x%d)", z0 + static_cast<int>(i / (static_cast<size_t>(nx) * ny)), y0 + static_cast<int>((i / nx) % ny),
                   x0 + static_cast<int>(i % nx));
  }
};

std::vector<float>
img_vec(const Img& im, const Grid& g)
{
  std::vector<float> v(g.n);
  for (int z = g.z0; z <= g.z1; ++z)
    for (int y = g.y0; y <= g.y1; ++y)
      for (int x = g.x0; x <= g.x1; ++x)
        v[g.idx(z, y, x)] = im[z][y][x];
  return v;
}
void
vec_img(Img& im, const Grid& g, const std::vector<float>& v)
{
  for (int z = g.z0; z <= g.z1; ++z)
    for (int y = g.y0; y <= g.y1; ++y)
      for (int x = g.x0; x <= g.x1; ++x)
        im[z][y][x] = v[g.idx(z, y, x)];
}

void
vec_to_pd(const Layout& L, const std::vector<float>& v, ProjData& pd)
{
  for (const VG& g : L.all_vgs())
    {
      Viewgram<float> vg = pd.get_empty_viewgram(g.view, g.seg, false, g.k);
      for (int ax = L.min_ax(g.seg); ax <= L.max_ax(g.seg); ++ax)
        for (int t = L.t0; t <= L.t1; ++t)
          vg[ax][t] = v[L.idx(g, ax, t)];
      if (pd.set_viewgram(vg) != Succeeded::yes)
        throw std::runtime_error("harness: set_viewgram failed");
    }
}
void
copy_vg(const Layout& L, const Viewgram<float>& vg, std::vector<float>& v)
{
  const VG g{ vg.get_segment_num(), vg.get_timing_pos_num(), vg.get_view_num() };
  for (int ax = L.min_ax(g.seg); ax <= L.max_ax(g.seg); ++ax)
    for (int t = L.t0; t <= L.t1; ++t)
      v[L.idx(g, ax, t)] = vg[ax][t];
}
std::vector<float>
pd_to_vec(const Layout& L, const ProjData& pd)
{
  std::vector<float> v(L.n);
  for (const VG& g : L.all_vgs())
    copy_vg(L, pd.get_viewgram(g.view, g.seg, false, g.k), v);
  return v;
}

// ------------------------------------------------------------------------------------------------ matrix configuration
struct MatCfg
{
  bool interp = false;
  bool s90 = true, s180 = true, sseg = true, ss = true, sz = true;
  int ntang = 1;
  bool cylfov = true;
  bool actual = false;
  bool cache = true;
  bool basic_only = true;
  bool pwl = true, exactjac = true;
  vf::Desc desc() const
  {
    vf::Desc d;
    d.add("type", interp ? "interpolation" : "raytracing").add("s90", s90).add("s180", s180).add("sseg", sseg).add("ss", ss).add("sz", sz);
    d.add("tang_rays", ntang).add("cyl_fov", cylfov).add("actual_det_boundaries", actual).add("cache", cache).add("cache_basic_only", basic_only);
    if (interp)
      d.add("piecewise_linear", pwl).add("exact_jacobian", exactjac);
    return d;
  }
};

shared_ptr<ProjMatrixByBin>
make_matrix(const MatCfg& c, bool force_cache_off = false)
{
  shared_ptr<ProjMatrixByBin> m;
  if (c.interp)
    {
      // the symmetry switches of this class can only be set by parsing
      auto pm = std::make_shared<ProjMatrixByBinUsingInterpolation>();
      std::ostringstream s;
      s << "Interpolation Matrix Parameters:=\n"
        << "use_piecewise_linear_interpolation:=" << (c.pwl ? 1 : 0) << "\n"
        << "use_exact_Jacobian:=" << (c.exactjac ? 1 : 0) << "\n"
        << "do_symmetry_90degrees_min_phi:=" << (c.s90 ? 1 : 0) << "\n"
        << "do_symmetry_180degrees_min_phi:=" << (c.s180 ? 1 : 0) << "\n"
        << "do_symmetry_swap_segment:=" << (c.sseg ? 1 : 0) << "\n"
        << "do_symmetry_swap_s:=" << (c.ss ? 1 : 0) << "\n"
        << "do_symmetry_shift_z:=" << (c.sz ? 1 : 0) << "\n"
        << "End Interpolation Matrix Parameters:=\n";
      std::istringstream is(s.str());
      if (!pm->parse(is))
        throw vf::Skip("interpolation matrix parameters rejected by parser");
      m = pm;
    }
  else
    {
      auto pm = std::make_shared<ProjMatrixByBinUsingRayTracing>();
      pm->set_do_symmetry_90degrees_min_phi(c.s90);
      pm->set_do_symmetry_180degrees_min_phi(c.s180);
      pm->set_do_symmetry_swap_segment(c.sseg);
      pm->set_do_symmetry_swap_s(c.ss);
      pm->set_do_symmetry_shift_z(c.sz);
      pm->set_num_tangential_LORs(c.ntang);
      pm->set_restrict_to_cylindrical_FOV(c.cylfov);
      pm->set_use_actual_detector_boundaries(c.actual);
      m = pm;
    }
  m->enable_cache(force_cache_off ? false : c.cache);
  m->store_only_basic_bins_in_cache(c.basic_only);
  return m;
}

// ------------------------------------------------------------------------------------------------ float64 reference from rows
struct Ref
{
  std::vector<size_t> rs; // CSR row starts (rows in Layout order)
  std::vector<int> col;
  std::vector<float> val;
  std::vector<int> m; // number of rows touching each voxel
  int n_row_max = 0;
  size_t nnz() const { return col.size(); }
  int n(size_t b) const { return static_cast<int>(rs[b + 1] - rs[b]); }
};

// returns false (after reporting) when a row has an element outside the image in x/y (the projectors index unchecked)
bool
build_ref(Ctx& ctx, Ref& R, const ProjMatrixByBin& pm, const Layout& L, const Grid& G)
{
  R.rs.assign(L.n + 1, 0);
  R.m.assign(G.n, 0);
  ProjMatrixElemsForOneBin row;
  size_t b = 0;
  for (const VG& g : L.all_vgs())
    for (int ax = L.min_ax(g.seg); ax <= L.max_ax(g.seg); ++ax)
      for (int t = L.t0; t <= L.t1; ++t)
        {
          b = L.idx(g, ax, t);
          // all_vgs()/ax/t is the layout order, so rows are appended in increasing b
          R.rs[b] = R.col.size();
          const Bin bin(g.seg, g.view, ax, t, g.k, 0.f);
          pm.get_proj_matrix_elems_for_one_bin(row, bin);
          for (auto it = row.begin(); it != row.end(); ++it)
            {
              const int z = it->coord1(), y = it->coord2(), x = it->coord3();
              if (z < G.z0 || z > G.z1)
                continue; // dropped by ProjMatrixElemsForOneBin::forward/back_project by design
              if (y < G.y0 || y > G.y1 || x < G.x0 || x > G.x1)
                {
                  ctx.violation("matrix-row-element-outside-image-in-xy",
                                L.describe(b) + vf::fmt(" has element (z%d,y%d,x%d) value %g; image x[%d,%d] y[%d,%d]", z, y, x,
                                                        it->get_value(), G.x0, G.x1, G.y0, G.y1));
                  return false;
                }
              R.col.push_back(static_cast<int>(G.idx(z, y, x)));
              R.val.push_back(it->get_value());
              ++R.m[G.idx(z, y, x)];
            }
          R.rs[b + 1] = R.col.size();
          R.n_row_max = std::max(R.n_row_max, R.n(b));
        }
  return true;
}

struct D2 // value and sum of |terms|
{
  std::vector<double> v, a;
};

D2
ref_fwd(const Ref& R, const std::vector<float>& x, size_t nb)
{
  D2 o;
  o.v.assign(nb, 0.);
  o.a.assign(nb, 0.);
  for (size_t b = 0; b < nb; ++b)
    {
      double s = 0, a = 0;
      for (size_t e = R.rs[b]; e < R.rs[b + 1]; ++e)
        {
          const double t = static_cast<double>(R.val[e]) * x[R.col[e]];
          s += t;
          a += std::fabs(t);
        }
      o.v[b] = s;
      o.a[b] = a;
    }
  return o;
}

// back projection of the bins in the listed viewgrams, restricted to [ax0,ax1]x[tg0,tg1] when given
struct BackRef
{
  std::vector<double> v, a;
  std::vector<int> cnt;
};
BackRef
ref_back(const Ref& R, const Layout& L, size_t nvox, const std::vector<float>& y, const std::vector<VG>& vgs, bool tile = false, int ax0 = 0,
         int ax1 = 0, int tg0 = 0, int tg1 = 0)
{
  BackRef o;
  o.v.assign(nvox, 0.);
  o.a.assign(nvox, 0.);
  o.cnt.assign(nvox, 0);
  for (const VG& g : vgs)
    for (int ax = tile ? ax0 : L.min_ax(g.seg); ax <= (tile ? ax1 : L.max_ax(g.seg)); ++ax)
      for (int t = tile ? tg0 : L.t0; t <= (tile ? tg1 : L.t1); ++t)
        {
          const size_t b = L.idx(g, ax, t);
          const double yb = y[b];
          if (yb == 0)
            continue;
          for (size_t e = R.rs[b]; e < R.rs[b + 1]; ++e)
            {
              const double tm = static_cast<double>(R.val[e]) * yb;
              o.v[R.col[e]] += tm;
              o.a[R.col[e]] += std::fabs(tm);
              ++o.cnt[R.col[e]];
            }
        }
  return o;
}

double
dot(const std::vector<float>& a, const std::vector<float>& b)
{
  double s = 0;
  for (size_t i = 0; i < a.size(); ++i)
    s += static_cast<double>(a[i]) * b[i];
  return s;
}

// ------------------------------------------------------------------------------------------------ random exact inputs
// values are multiples of 1/64 in [-10,10]: products with the small dyadic coefficients below and their sums are exact in float32
float
dyadic(vf::Rng& r)
{
  return static_cast<float>(r.range(-640, 640)) / 64.f;
}
void
fill_vec(vf::Rng& r, std::vector<float>& v, double p_zero)
{
  for (auto& e : v)
    e = r.coin(p_zero) ? 0.f : dyadic(r);
}
float
coef(vf::Rng& r)
{
  static const std::vector<float> c = { -3.f, -2.f, -1.5f, -1.f, -0.5f, 0.25f, 0.5f, 1.f, 1.25f, 2.f, 3.f };
  return r.pick(c);
}

// ------------------------------------------------------------------------------------------------ the monitor
struct Mon
{
  Ctx& ctx;
  const Layout& L;
  const Grid& G;
  const Ref& R;
  bool failed = false;

  void fail(const std::string& key, const std::string& w)
  {
    if (!failed)
      ctx.violation(key, w);
    failed = true;
  }

  // float32 forward result vs float64 reference on the given viewgrams (tile optional); scale multiplies the band
  bool fwd_vs_ref(const std::string& key, const std::vector<float>& got, const D2& ref, const std::vector<VG>& vgs, const std::string& what)
  {
    for (const VG& g : vgs)
      {
        const size_t o = L.vg_off(g), len = L.vg_len(g.seg);
        for (size_t b = o; b < o + len; ++b)
          {
            const double band = vf::band32(R.n(b), ref.a[b]);
            if (!vf::close_enough(got[b], ref.v[b], band))
              {
                fail(key, what + ": " + L.describe(b)
                              + vf::fmt(" projector %.9g, float64 reference %.17g, |diff| %.3g > band %.3g (n=%d, sum|terms|=%.6g)", got[b],
                                        ref.v[b], std::fabs(got[b] - ref.v[b]), band, R.n(b), ref.a[b]));
                return false;
              }
          }
        ctx.count("fwd_bins_vs_float64_rows", static_cast<long>(len));
      }
    return true;
  }
  bool back_vs_ref(const std::string& key, const std::vector<float>& got, const BackRef& ref, const std::string& what, int passes = 1)
  {
    for (size_t v = 0; v < G.n; ++v)
      {
        const double band = vf::band32(static_cast<double>(ref.cnt[v]) + passes, ref.a[v]);
        if (!vf::close_enough(got[v], ref.v[v], band))
          {
            fail(key, what + ": " + G.describe(v)
                          + vf::fmt(" projector %.9g, float64 reference %.17g, |diff| %.3g > band %.3g (n=%d, sum|terms|=%.6g)", got[v],
                                    ref.v[v], std::fabs(got[v] - ref.v[v]), band, ref.cnt[v], ref.a[v]));
            return false;
          }
      }
    ctx.count("back_voxels_vs_float64_rows", static_cast<long>(G.n));
    return true;
  }
  // two float32 forward results that must be the same computation: exact, else inside the band (counted), else violation
  bool same_fwd(const std::string& key, const std::vector<float>& got, const std::vector<float>& whole, const D2& ref, size_t b,
                const std::string& what)
  {
    if (got[b] == whole[b])
      return true;
    const double band = 2 * vf::band32(R.n(b), ref.a[b]);
    if (vf::close_enough(got[b], whole[b], band))
      {
        ctx.count("fwd_piece_bins_equal_only_within_band");
        return true;
      }
    fail(key, what + ": " + L.describe(b) + vf::fmt(" piece %.9g, whole-data projection %.9g, band %.3g", got[b], whole[b], band));
    return false;
  }
};

std::vector<float>
fwd_pd(ForwardProjectorByBin& f, const Layout& L, const shared_ptr<const ExamInfo>& exam, const Img& x, int s, int n, bool zero,
       float prefill, int overload)
{
  ProjDataInMemory pd(exam, L.pdi, false);
  pd.fill(prefill);
  if (overload == 0)
    f.forward_project(pd, x, s, n, zero);
  else if (overload == 1)
    {
      f.set_input(x);
      f.forward_project(pd, s, n, zero);
    }
  else
    f.forward_project(pd, x); // all defaults: whole data
  return pd_to_vec(L, pd);
}

std::vector<int>
split_range(vf::Rng& r, int lo, int hi, int max_pieces, std::vector<std::pair<int, int>>& out)
{
  // random contiguous pieces covering [lo,hi]
  const int len = hi - lo + 1;
  const int np = static_cast<int>(r.range(1, std::min(max_pieces, len)));
  std::vector<int> cuts;
  std::vector<int> cand;
  for (int c = lo + 1; c <= hi; ++c)
    cand.push_back(c);
  r.shuffle(cand);
  for (int i = 0; i < np - 1; ++i)
    cuts.push_back(cand[i]);
  std::sort(cuts.begin(), cuts.end());
  int a = lo;
  for (int c : cuts)
    {
      out.push_back({ a, c - 1 });
      a = c;
    }
  out.push_back({ a, hi });
  return cuts;
}

} // namespace

static void
run_case(Ctx& ctx)
{
  vf::Rng& rng = ctx.rng;
  const char* mode_env = std::getenv("VERIF_MODE");
  const bool small = mode_env && std::string(mode_env) == "small"; // sanitizer stage: same generator, smaller sizes
  const bool thorough = ctx.thorough() && !(mode_env && std::string(mode_env) == "quicksize"); // sanitizer stage with quick-tier sizes

  // ---------------------------------------------------------------------------------------------- scanner
  const bool quicksize = mode_env && std::string(mode_env) == "quicksize";
  const bool large = !small && !quicksize && rng.coin(thorough ? 0.25 : 0.08); // a few bigger geometries
  vg::ScannerOpts so;
  so.min_det = 8;
  so.max_det = small ? 16 : (large ? 64 : 40);
  so.max_rings = small ? 3 : (large ? 6 : 4);
  so.p_tof = 0.3;
  so.allow_blocks = true;
  vg::ScannerSpec ss = vg::gen_scanner(rng, so);
  if (ss.geom != "Cylindrical" && rng.coin(0.6))
    ss.geom = "Cylindrical"; // ~12% blocks-on-cylindrical
  const bool blocks = ss.geom != "Cylindrical";
  if (blocks)
    ss.tof_bins = 0;
  if (ss.tilt != 0.f && rng.coin(0.5))
    ss.tilt = 0.f;
  // a share of cases in which the full 8-fold view/segment symmetry can really be used by the matrix
  const bool symfriendly = !blocks && rng.coin(0.3);
  if (symfriendly)
    {
      ss.tilt = 0.f;
      ss.tof_bins = 0;
      const int old_ndet = ss.ndet;
      ss.ndet = std::max(16, ss.ndet - ss.ndet % 8);
      ss.bin_size *= static_cast<float>(old_ndet) / ss.ndet; // keep arc-corrected bins inside the detector ring
      ss.nrings = std::max(2, ss.nrings);
      ss.trans_per_block = rng.pick(vg::divisors(ss.ndet));
      ss.axial_per_block = rng.pick(vg::divisors(ss.nrings));
    }
  // on-the-fly ray tracing projector: only inside its documented/asserted domain (see (f) below)
  const bool want_rt = !blocks && rng.coin(0.4);
  // unequal x/y voxel size with views n/4 and 3n/4 present: the reduced-symmetry dispatch of the on-the-fly projector
  const bool rt_aniso = want_rt && rng.coin(0.3);
  if (want_rt)
    {
      ss.tilt = 0.f;    // "cannot handle data with non-zero view offset"
      ss.tof_bins = 0;  // its symmetries object switches view/segment symmetries off for TOF -> "error in symmetries"
      const int old_ndet = ss.ndet;
      ss.ndet -= ss.ndet % (rt_aniso ? 8 : 4); // even number of (unmashed) views
      if (ss.ndet < 8)
        ss.ndet = 8;
      if (rt_aniso && rng.coin(0.7))
        {
          ss.nrings = std::max(2, ss.nrings);
          ss.axial_per_block = rng.pick(vg::divisors(ss.nrings));
        }
      ss.bin_size *= static_cast<float>(old_ndet) / ss.ndet;
      ss.trans_per_block = rng.pick(vg::divisors(ss.ndet));
    }
  ctx.desc.add("scanner", ss.desc());
  shared_ptr<Scanner> sc;
  try
    {
      sc = vg::make_scanner(ss);
    }
  catch (const std::exception& e)
    {
      throw vf::Skip(std::string("scanner rejected: ") + e.what());
    }

  // ---------------------------------------------------------------------------------------------- sampling
  vg::PdiOpts po;
  po.allow_arccorr = !blocks;
  po.allow_reduce = false; // handled below
  vg::PdiSpec ps = vg::gen_pdi(rng, ss, po);
  if (blocks)
    {
      // blocks-on-cylindrical: no axial compression, no view mashing (documented span=1 only)
      ps.ge_mixed = false;
      ps.span = 1;
      ps.max_delta = static_cast<int>(rng.range(0, ss.nrings - 1));
      ps.num_views = ss.ndet / 2;
      ps.arccorr = false;
    }
  if (want_rt && (ps.num_views % 2 || rng.coin(0.8)))
    ps.num_views = ss.ndet / 2; // view mashing gives a view offset, which the on-the-fly projector rejects
  if (rt_aniso && ss.nrings > 1 && ps.max_delta == 0 && !ps.ge_mixed)
    ps.max_delta = std::min(ss.nrings - 1, std::max(1, (ps.span + 1) / 2));
  if (symfriendly)
    {
      if (ps.num_views % 4 || ps.num_views < 8)
        ps.num_views = ss.ndet / 2;
      if (ps.max_delta == 0 && !ps.ge_mixed)
        ps.max_delta = std::min(ss.nrings - 1, std::max(1, (ps.span + 1) / 2));
    }
  if (ps.num_views < 2 && rng.coin(0.9))
    ps.num_views = ss.ndet / 2;
  if (ss.tof_bins > 0 && ps.tof_mash > 0 && rng.coin(0.5))
    {
      // prefer few TOF bins (cost)
      for (int m = ss.tof_bins; m >= 1; --m)
        if ((ss.tof_bins / m) % 2 == 1 && ss.tof_bins / m <= 5)
          ps.tof_mash = m;
    }
  const size_t cap_bins = small ? 2500 : (large ? 150000 : 40000);
  shared_ptr<ProjDataInfo> pdi;
  ps.reduce_segments = -1;
  bool first = true;
  for (int attempt = 0; attempt < 12; ++attempt)
    {
      try
        {
          pdi = vg::make_pdi(sc, ps, nullptr);
        }
      catch (const std::exception& e)
        {
          throw vf::Skip(std::string("pdi rejected: ") + e.what());
        }
      if (first && rng.coin(0.25) && pdi->get_max_segment_num() > 0)
        {
          first = false;
          ps.reduce_segments = static_cast<int>(rng.range(0, pdi->get_max_segment_num()));
          continue;
        }
      first = false;
      Layout Lt(pdi);
      if (Lt.n <= cap_bins)
        break;
      const int mx = pdi->get_max_segment_num();
      if (mx > 0)
        ps.reduce_segments = mx / 2;
      else if (pdi->get_num_tof_poss() > 1)
        ps.tof_mash = 0;
      else if (ps.num_tang > 5)
        ps.num_tang = std::max(5, ps.num_tang / 2);
      else
        break;
    }
  ctx.desc.add("pdi", ps.desc());
  {
    // a LOR outside the detector ring has no tan(theta) (sqrt of a negative number in ProjDataInfoCylindrical::get_tantheta)
    const float r_eff = sc->get_effective_ring_radius();
    const float smax = std::max(std::fabs(pdi->get_s(Bin(0, 0, 0, pdi->get_min_tangential_pos_num()))),
                                std::fabs(pdi->get_s(Bin(0, 0, 0, pdi->get_max_tangential_pos_num()))));
    if (!(smax < 0.97f * r_eff))
      throw vf::Skip("generated tangential range reaches outside the detector ring");
  }
  const Layout L(pdi);
  const bool tof = pdi->is_tof_data();
  const auto* pdi_cyl = dynamic_cast<const ProjDataInfoCylindrical*>(pdi.get());
  if (!pdi_cyl)
    throw vf::Skip("projection data info is not (derived from) ProjDataInfoCylindrical");

  // ---------------------------------------------------------------------------------------------- matrix configuration
  MatCfg mc;
  mc.interp = !blocks && rng.coin(0.2);
  {
    const double u = rng.u01();
    if (u < 0.3 || (symfriendly && u < 0.8))
      ; // all symmetries on
    else if (u < 0.4)
      mc.s90 = mc.s180 = mc.sseg = mc.ss = mc.sz = false;
    else
      {
        mc.s90 = rng.coin();
        mc.s180 = rng.coin();
        mc.sseg = rng.coin();
        mc.ss = rng.coin();
        mc.sz = rng.coin();
      }
  }
  mc.ntang = rng.coin(0.5) ? 1 : static_cast<int>(rng.range(2, 3));
  mc.cylfov = rng.coin(0.7);
  mc.actual = rng.coin(0.2);
  mc.cache = rng.coin(0.6);
  mc.basic_only = rng.coin(0.5);
  mc.pwl = rng.coin(0.7);
  mc.exactjac = rng.coin(0.7);
  ctx.desc.add("matrix", mc.desc());

  // ---------------------------------------------------------------------------------------------- image grid
  // DataSymmetriesForBins_PET_CartesianGrid: z voxel size = axial sampling / integer for every segment, z origin a
  // multiple of it; ProjMatrixByBinUsingRayTracing: no x/y origin shift, "sampling distance in axial direction ... integer
  // multiple of the voxel size".
  vg::ImageSpec is;
  const float rs = pdi_cyl->get_ring_spacing();
  bool all_ring_sampling = true;
  for (int s = L.s0; s <= L.s1; ++s)
    if (pdi_cyl->get_min_ring_difference(s) != pdi_cyl->get_max_ring_difference(s))
      all_ring_sampling = false;
  const float base = all_ring_sampling ? rs : rs / 2;
  static const std::vector<int> zdiv = { 1, 1, 1, 2, 2, 3 };
  int kz = rng.pick(zdiv);
  if (want_rt)
    is.vz = rs / 2; // Siddon code: assert(voxel_size.z * 2 / ring_spacing == 1)
  else
    is.vz = base / kz;
  const int full_nz = std::max(1, static_cast<int>(std::lround((2 * ss.nrings - 1) * (rs / 2) / is.vz)));
  is.nz = rng.coin(0.5) ? full_nz : static_cast<int>(rng.range(1, full_nz + 2));
  if (want_rt)
    {
      // The 2-D (segment 0) part of the on-the-fly projector traces one ray at z = planes_per_axial_pos*axial_pos + offset and
      // notes that a ray "right along the edges of the voxels" is ill-defined: keep the direct LORs in the middle of a plane,
      // i.e. (nz-1) - planes_per_axial_pos*(num_axial_poss(0)-1) even (the matrix splits such a ray over both planes instead).
      const int ppa0 = pdi_cyl->get_min_ring_difference(0) != pdi_cyl->get_max_ring_difference(0) ? 1 : 2;
      const int p = ppa0 * (pdi->get_num_axial_poss(0) - 1);
      if ((is.nz - 1 - p) % 2 != 0)
        ++is.nz;
    }
  static const std::vector<int> minzs = { 0, 0, 0, -1, 1, -3 };
  is.min_z = want_rt ? 0 : rng.pick(minzs); // Siddon code: assert(image.get_min_index() == 0)
  static const std::vector<int> ozs = { 0, 0, 0, 1, -1, 2 };
  {
    int j = rng.pick(ozs); // z origin shifted by whole planes, but keep the image inside the scanner
    if (std::abs(j) > (is.nz - 1) / 2)
      j = 0;
    is.oz = j * is.vz;
  }
  const float s_samp = pdi->get_sampling_in_s(Bin(0, 0, 0, 0));
  const int nx_lo = blocks ? 13 : 3; // blocks: the matrix' FOV radius is (half size - 5) voxels
  const int nx_hi = blocks ? (small ? 15 : 23) : (small ? 9 : (large ? 33 : 21));
  is.nx = static_cast<int>(rng.range(nx_lo, nx_hi));
  is.ny = rng.coin(0.6) ? is.nx : static_cast<int>(rng.range(nx_lo, nx_hi));
  if (want_rt || mc.interp)
    {
      // Siddon code indexes image[z][x][-y]; interpolation matrix applies x<->y symmetries to all voxels: square, symmetric range
      is.nx |= 1;
      is.ny = is.nx;
    }
  is.vx = s_samp * static_cast<float>(want_rt ? rng.uniform(1.0, 2.3) : rng.uniform(0.6, 2.3));
  is.vy = rt_aniso ? is.vx * static_cast<float>(rng.uniform(1.02, 1.25))
                   : ((symfriendly || want_rt || rng.coin(0.75)) ? is.vx : is.vx * static_cast<float>(rng.uniform(1.0, 1.25)));
  ctx.desc.add("image", is.desc());
  ctx.desc.add("min_z", is.min_z);
  shared_ptr<Img> x_sptr = vg::make_image(is);
  const Grid G(*x_sptr);

  // ---------------------------------------------------------------------------------------------- projectors
  const int pair_mode = static_cast<int>(rng.range(0, 2)); // 0: ProjectorByBinPairUsingProjMatrixByBin, 1: shared matrix, 2: own matrices
  ctx.desc.add("pair_mode", pair_mode);
  ctx.heartbeat("set_up");
  shared_ptr<ForwardProjectorByBin> fwd;
  shared_ptr<BackProjectorByBin> bck;
  shared_ptr<ProjMatrixByBin> ref_matrix;
  shared_ptr<ProjectorByBinPairUsingProjMatrixByBin> pair;
  try
    {
      if (pair_mode == 0)
        {
          pair.reset(new ProjectorByBinPairUsingProjMatrixByBin(make_matrix(mc)));
          if (pair->set_up(pdi, x_sptr) != Succeeded::yes)
            throw vf::Skip("projector pair set_up returned no");
          fwd = pair->get_forward_projector_sptr();
          bck = pair->get_back_projector_sptr();
        }
      else
        {
          shared_ptr<ProjMatrixByBin> m1 = make_matrix(mc);
          shared_ptr<ProjMatrixByBin> m2 = pair_mode == 1 ? m1 : make_matrix(mc);
          fwd.reset(new ForwardProjectorByBinUsingProjMatrixByBin(m1));
          bck.reset(new BackProjectorByBinUsingProjMatrixByBin(m2));
          fwd->set_up(pdi, x_sptr);
          bck->set_up(pdi, x_sptr);
        }
      ref_matrix = make_matrix(mc, /*force_cache_off=*/true);
      ref_matrix->set_up(pdi, x_sptr);
    }
  catch (const vf::Skip&)
    {
      throw;
    }
  catch (const std::exception& e)
    {
      throw vf::Skip(std::string("set_up rejected: ") + e.what());
    }
  catch (const std::string& e)
    {
      throw vf::Skip(std::string("set_up rejected: ") + e);
    }

  // ---------------------------------------------------------------------------------------------- float64 reference rows
  ctx.heartbeat("reference rows");
  Ref R;
  try
    {
      if (!build_ref(ctx, R, *ref_matrix, L, G))
        return;
    }
  catch (const std::exception& e)
    {
      // run-time rejection of the geometry by the matrix ("currently need sampling distance ...")
      if (std::string(e.what()).find("currently need") != std::string::npos)
        throw vf::Skip(std::string("matrix rejected geometry: ") + e.what());
      throw;
    }
  ctx.count("matrix_nonzeros", static_cast<long>(R.nnz()));
  ctx.desc.add("bins", static_cast<long>(L.n)).add("voxels", static_cast<long>(G.n)).add("nnz", static_cast<long>(R.nnz()));
  Mon M{ ctx, L, G, R };
  shared_ptr<ExamInfo> exam(new ExamInfo);

  // ---------------------------------------------------------------------------------------------- inputs
  std::vector<float> xv(G.n), zv(G.n), wv(G.n), yv(L.n), y2v(L.n), ycv(L.n);
  fill_vec(rng, xv, 0.05);
  fill_vec(rng, zv, 0.05);
  fill_vec(rng, yv, 0.1);
  fill_vec(rng, y2v, 0.1);
  const float ca = coef(rng), cb = coef(rng);
  for (size_t i = 0; i < G.n; ++i)
    wv[i] = ca * xv[i] + cb * zv[i]; // exact
  for (size_t i = 0; i < L.n; ++i)
    ycv[i] = ca * yv[i] + cb * y2v[i]; // exact
  ctx.desc.add("coef_a", ca).add("coef_b", cb);
  Img& X = *x_sptr;
  vec_img(X, G, xv);
  shared_ptr<Img> z_sptr(X.clone()), w_sptr(X.clone()), out_sptr(X.clone());
  vec_img(*z_sptr, G, zv);
  vec_img(*w_sptr, G, wv);
  ProjDataInMemory ypd(exam, pdi), y2pd(exam, pdi), ycpd(exam, pdi);
  vec_to_pd(L, yv, ypd);
  vec_to_pd(L, y2v, y2pd);
  vec_to_pd(L, ycv, ycpd);
  const std::vector<VG> ALL = L.all_vgs();

  // ---------------------------------------------------------------------------------------------- whole data: forward
  ctx.heartbeat("forward whole");
  const D2 Fx = ref_fwd(R, xv, L.n), Fz = ref_fwd(R, zv, L.n), Fw = ref_fwd(R, wv, L.n);
  const std::vector<float> fx = fwd_pd(*fwd, L, exam, X, 0, 1, true, SENT, 0);
  const std::vector<float> fz = fwd_pd(*fwd, L, exam, *z_sptr, 0, 1, false, SENT, 1);
  const std::vector<float> fw = fwd_pd(*fwd, L, exam, *w_sptr, 0, 1, true, 0.f, 2);
  if (!M.fwd_vs_ref("forward-projection-differs-from-float64-rows", fx, Fx, ALL, "forward_project(ProjData, x)"))
    return;
  if (!M.fwd_vs_ref("forward-projection-differs-from-float64-rows", fz, Fz, ALL, "forward_project(ProjData, z) after set_input"))
    return;
  if (!M.fwd_vs_ref("forward-projection-differs-from-float64-rows", fw, Fw, ALL, "forward_project(ProjData, a*x+b*z)"))
    return;
  // (b) linearity, projector against projector
  for (size_t b = 0; b < L.n; ++b)
    {
      const double lin = static_cast<double>(ca) * fx[b] + static_cast<double>(cb) * fz[b];
      const double band = vf::band32(R.n(b), Fw.a[b] + std::fabs(ca) * Fx.a[b] + std::fabs(cb) * Fz.a[b]);
      if (!vf::close_enough(fw[b], lin, band))
        {
          M.fail("forward-projection-not-linear", L.describe(b)
                                                      + vf::fmt(": A(a x+b z)=%.9g but a*Ax+b*Az=%.9g (a=%g b=%g, Ax=%.9g Az=%.9g), band %.3g",
                                                                fw[b], lin, ca, cb, fx[b], fz[b], band));
          return;
        }
    }
  ctx.count("linearity_bins_checked", static_cast<long>(L.n));

  // ---------------------------------------------------------------------------------------------- whole data: back
  ctx.heartbeat("back whole");
  auto back_whole = [&](const ProjData& pd, int s, int n) {
    out_sptr->fill(SENT); // "it overwrites the data already present in the volume"
    bck->back_project(*out_sptr, pd, s, n);
    return img_vec(*out_sptr, G);
  };
  const BackRef By = ref_back(R, L, G.n, yv, ALL), By2 = ref_back(R, L, G.n, y2v, ALL), Byc = ref_back(R, L, G.n, ycv, ALL);
  const std::vector<float> by = back_whole(ypd, 0, 1), by2 = back_whole(y2pd, 0, 1), byc = back_whole(ycpd, 0, 1);
  if (!M.back_vs_ref("back-projection-differs-from-float64-rows", by, By, "back_project(image, y)"))
    return;
  if (!M.back_vs_ref("back-projection-differs-from-float64-rows", by2, By2, "back_project(image, y2)"))
    return;
  if (!M.back_vs_ref("back-projection-differs-from-float64-rows", byc, Byc, "back_project(image, a*y+b*y2)"))
    return;
  for (size_t v = 0; v < G.n; ++v)
    {
      const double lin = static_cast<double>(ca) * by[v] + static_cast<double>(cb) * by2[v];
      const double band = vf::band32(Byc.cnt[v] + By.cnt[v] + By2.cnt[v], Byc.a[v] + std::fabs(ca) * By.a[v] + std::fabs(cb) * By2.a[v]);
      if (!vf::close_enough(byc[v], lin, band))
        {
          M.fail("back-projection-not-linear",
                 G.describe(v) + vf::fmt(": A'(a y+b y2)=%.9g but a*A'y+b*A'y2=%.9g (a=%g b=%g), band %.3g", byc[v], lin, ca, cb, band));
          return;
        }
    }
  ctx.count("linearity_voxels_checked", static_cast<long>(G.n));

  // homogeneity over many orders of magnitude: scaling the input by a power of two scales every float32 product and sum
  // exactly (no underflow at these magnitudes), so A(c x) == c A x and A'(c y) == c A'y must hold BIT FOR BIT, for data in
  // "small units" (c = 2^-20 ... 2^-40) as well as large ones; a threshold or short-cut on small values breaks it
  {
    static const int exps[] = { -40, -30, -24, -20, -10, 12, 30 };
    const int e = exps[rng.range(0, static_cast<long>(sizeof exps / sizeof exps[0]) - 1)];
    const float c = std::ldexp(1.f, e);
    std::vector<float> xs(G.n), ys(L.n);
    for (size_t i = 0; i < G.n; ++i)
      xs[i] = c * xv[i];
    for (size_t i = 0; i < L.n; ++i)
      ys[i] = c * yv[i];
    shared_ptr<Img> xs_sptr(X.clone());
    vec_img(*xs_sptr, G, xs);
    ProjDataInMemory yspd(exam, pdi);
    vec_to_pd(L, ys, yspd);
    const std::vector<float> fxs = fwd_pd(*fwd, L, exam, *xs_sptr, 0, 1, true, SENT, 0);
    for (size_t b = 0; b < L.n; ++b)
      if (!(fxs[b] == c * fx[b]))
        {
          M.fail("forward-projection-not-homogeneous", L.describe(b) + vf::fmt(": A(c x) = %.9g but c*A x = %.9g for c = 2^%d (A x = %.9g)", fxs[b],
                                                                         static_cast<double>(c * fx[b]), e, fx[b]));
          return;
        }
    const std::vector<float> bys = back_whole(yspd, 0, 1);
    for (size_t v = 0; v < G.n; ++v)
      if (!(bys[v] == c * by[v]))
        {
          M.fail("back-projection-not-homogeneous", G.describe(v) + vf::fmt(": A'(c y) = %.9g but c*A'y = %.9g for c = 2^%d (A'y = %.9g)", bys[v],
                                                                      static_cast<double>(c * by[v]), e, by[v]));
          return;
        }
    fwd->set_input(X); // later clauses project x again through the RelatedViewgrams overloads
    ctx.count("homogeneity_checks");
    ctx.count(e < -15 ? "homogeneity_checks_small_units" : "homogeneity_checks_other_units");
  }

  // ---------------------------------------------------------------------------------------------- (a) adjointness, whole data
  auto fwd_band_sum = [&](const std::vector<VG>& vgs, const std::vector<float>& y, const D2& F, bool tile, int a0, int a1, int t0, int t1,
                          double& abs_total) {
    double band = 0;
    for (const VG& g : vgs)
      for (int ax = tile ? a0 : L.min_ax(g.seg); ax <= (tile ? a1 : L.max_ax(g.seg)); ++ax)
        for (int t = tile ? t0 : L.t0; t <= (tile ? t1 : L.t1); ++t)
          {
            const size_t b = L.idx(g, ax, t);
            band += std::fabs(y[b]) * (vf::band32(R.n(b), F.a[b]) + 4 * vf::EPS32 * std::fabs(F.v[b]));
            abs_total += std::fabs(y[b]) * F.a[b];
          }
    return band;
  };
  auto back_band_sum = [&](const std::vector<float>& x, const BackRef& B) {
    double band = 0;
    for (size_t v = 0; v < G.n; ++v)
      band += std::fabs(x[v]) * (vf::band32(B.cnt[v] + 1, B.a[v]) + 4 * vf::EPS32 * std::fabs(B.v[v]));
    return band;
  };
  double inner_ref = 0;
  {
    double A = 0;
    const double lhs = dot(fx, yv), rhs = dot(xv, by);
    const double band = fwd_band_sum(ALL, yv, Fx, false, 0, 0, 0, 0, A) + back_band_sum(xv, By);
    for (size_t b = 0; b < L.n; ++b)
      inner_ref += Fx.v[b] * yv[b];
    ctx.count("adjoint_checks");
    ctx.count("adjoint_checks_whole_data");
    if (!(std::fabs(lhs - rhs) <= band))
      {
        M.fail("adjoint-mismatch-whole-data", vf::fmt("<Ax,y>=%.17g <x,A'y>=%.17g diff %.3g > band %.3g; float64 rows give %.17g; nnz %zu, "
                                                      "sum|terms| %.6g",
                                                      lhs, rhs, std::fabs(lhs - rhs), band, inner_ref, R.nnz(), A));
        return;
      }
  }

  // ---------------------------------------------------------------------------------------------- symmetry groups
  const DataSymmetriesForViewSegmentNumbers* sym = fwd->get_symmetries_used();
  shared_ptr<DataSymmetriesForViewSegmentNumbers> sym_sptr(sym->clone());
  struct Group
  {
    ViewSegmentNumbers basic;
    std::vector<std::pair<int, int>> vs; // (seg, view) members
  };
  std::vector<Group> groups;
  std::map<std::pair<int, int>, int> vs_group; // (seg,view) -> group index
  {
    std::map<std::pair<int, int>, int> times;
    for (int s = L.s0; s <= L.s1; ++s)
      for (int v = L.v0; v <= L.v1; ++v)
        {
          const ViewSegmentNumbers vs(v, s);
          if (!sym->is_basic(vs))
            continue;
          Group g;
          g.basic = vs;
          std::vector<ViewSegmentNumbers> rel;
          sym->get_related_view_segment_numbers(rel, vs);
          for (auto& r : rel)
            {
              g.vs.push_back({ r.segment_num(), r.view_num() });
              ++times[{ r.segment_num(), r.view_num() }];
              vs_group[{ r.segment_num(), r.view_num() }] = static_cast<int>(groups.size());
            }
          groups.push_back(g);
        }
    for (int s = L.s0; s <= L.s1; ++s)
      for (int v = L.v0; v <= L.v1; ++v)
        if (times[{ s, v }] != 1)
          {
            M.fail("symmetry-groups-do-not-partition-view-segments",
                   vf::fmt("view %d segment %d is a member of %d related-viewgram groups", v, s, times[{ s, v }]));
            return;
          }
    if (times.size() != static_cast<size_t>(L.nv) * (L.s1 - L.s0 + 1))
      {
        M.fail("symmetry-groups-leave-the-data-range", "a related view/segment lies outside the projection data");
        return;
      }
  }
  ctx.desc.add("symmetry_groups", static_cast<long>(groups.size()));
  auto group_vgs = [&](const Group& g, int k) {
    std::vector<VG> v;
    for (auto& m : g.vs)
      v.push_back(VG{ m.first, k, m.second });
    return v;
  };
  // which viewgrams a subset call must process: views min_view+subset_num, +num_subsets, ... that are basic, plus everything related
  auto subset_vgs = [&](int s, int n) {
    std::vector<VG> v;
    for (int seg = L.s0; seg <= L.s1; ++seg)
      for (int view = L.v0 + s; view <= L.v1; view += n)
        if (sym->is_basic(ViewSegmentNumbers(view, seg)))
          for (int k = L.k0; k <= L.k1; ++k)
            for (auto& m : groups[vs_group[{ seg, view }]].vs)
              v.push_back(VG{ m.first, k, m.second });
    std::sort(v.begin(), v.end());
    return v;
  };

  // ---------------------------------------------------------------------------------------------- (c)(d) subsets
  ctx.heartbeat("subsets");
  std::vector<int> nsubs;
  {
    std::vector<int> cand;
    for (int n = 2; n <= L.nv; ++n)
      cand.push_back(n);
    const size_t keep = small ? 2 : (thorough ? 8 : 4);
    if (cand.size() > keep)
      {
        rng.shuffle(cand);
        cand.resize(keep);
        if (std::find(cand.begin(), cand.end(), L.nv) == cand.end() && rng.coin(0.5))
          cand[0] = L.nv;
      }
    nsubs = cand;
    if (rng.coin(0.15))
      nsubs.push_back(L.nv + 1); // last subset is empty
    nsubs.push_back(1);
    std::sort(nsubs.begin(), nsubs.end());
  }
  ctx.desc.add("num_subsets_tried", nsubs);
  for (int n : nsubs)
    {
      std::vector<std::vector<VG>> E(n);
      std::map<VG, int> own;
      for (int s = 0; s < n; ++s)
        {
          E[s] = subset_vgs(s, n);
          for (auto& g : E[s])
            {
              if (own.count(g))
                {
                  M.fail("subsets-overlap", vf::fmt("num_subsets %d: view %d segment %d tof %d in subsets %d and %d", n, g.view, g.seg, g.k,
                                                    own[g], s));
                  return;
                }
              own[g] = s;
            }
        }
      if (own.size() != ALL.size())
        {
          M.fail("subsets-do-not-cover-the-data", vf::fmt("num_subsets %d: %zu of %zu viewgrams are in a subset", n, own.size(), ALL.size()));
          return;
        }
      // forward: all subsets in random order into one sentinel-filled data set, zero=false
      {
        ProjDataInMemory pd(exam, pdi, false);
        pd.fill(SENT);
        std::vector<int> order(n);
        std::iota(order.begin(), order.end(), 0);
        rng.shuffle(order);
        std::set<int> done;
        for (int s : order)
          {
            fwd->forward_project(pd, X, s, n, /*zero=*/false);
            done.insert(s);
            const std::vector<float> got = pd_to_vec(L, pd);
            for (const VG& g : ALL)
              {
                const bool written = done.count(own[g]) > 0;
                const size_t o = L.vg_off(g), len = L.vg_len(g.seg);
                for (size_t b = o; b < o + len; ++b)
                  {
                    if (written)
                      {
                        if (!M.same_fwd("forward-subset-differs-from-whole", got, fx, Fx, b,
                                        vf::fmt("forward_project(ProjData,x,subset %d of %d,zero=false) after %zu subset calls", own[g], n,
                                                done.size())))
                          return;
                      }
                    else if (got[b] != SENT)
                      {
                        M.fail("forward-subset-touches-bins-of-other-subsets",
                               L.describe(b) + vf::fmt(" belongs to subset %d of %d but holds %.9g instead of the sentinel after projecting subset %d "
                                                       "with zero=false",
                                               own[g], n, got[b], s));
                        return;
                      }
                  }
                if (!written)
                  ctx.count("sentinel_bins_checked", static_cast<long>(len));
              }
            ctx.count("subsets_checked");
          }
      }
      // forward with zero=true: every other bin is zero (num_subsets>1), subset bins as in the whole projection
      {
        const int s = static_cast<int>(rng.range(0, n - 1));
        const std::vector<float> got = fwd_pd(*fwd, L, exam, X, s, n, true, SENT, static_cast<int>(rng.range(0, 1)));
        for (const VG& g : ALL)
          {
            const size_t o = L.vg_off(g), len = L.vg_len(g.seg);
            for (size_t b = o; b < o + len; ++b)
              if (own[g] == s)
                {
                  if (!M.same_fwd("forward-subset-differs-from-whole", got, fx, Fx, b, vf::fmt("forward_project(.., subset %d of %d, zero=true)", s, n)))
                    return;
                }
              else if (!(got[b] == 0.f))
                {
                  M.fail("forward-subset-zeroing-missing", L.describe(b)
                                                               + vf::fmt(" is outside subset %d of %d and holds %.9g after forward_project with "
                                                                         "zero=true (prefilled with %g)",
                                                                         s, n, got[b], SENT));
                  return;
                }
            if (own[g] != s)
              ctx.count("zeroed_bins_checked", static_cast<long>(len));
          }
      }
      // back: each subset, adjointness per subset, sum of subsets = whole
      std::vector<double> sum(G.n, 0.);
      for (int s = 0; s < n; ++s)
        {
          const std::vector<float> bs = back_whole(ypd, s, n);
          const BackRef Bs = ref_back(R, L, G.n, yv, E[s]);
          if (!M.back_vs_ref("back-projection-subset-differs-from-float64-rows", bs, Bs, vf::fmt("back_project(image,y,subset %d of %d)", s, n)))
            return;
          double A = 0, lhs = 0;
          for (const VG& g : E[s])
            {
              const size_t o = L.vg_off(g), len = L.vg_len(g.seg);
              for (size_t b = o; b < o + len; ++b)
                lhs += static_cast<double>(fx[b]) * yv[b];
            }
          const double rhs = dot(xv, bs);
          const double band = fwd_band_sum(E[s], yv, Fx, false, 0, 0, 0, 0, A) + back_band_sum(xv, Bs);
          ctx.count("adjoint_checks");
          ctx.count("adjoint_checks_subset");
          if (!(std::fabs(lhs - rhs) <= band))
            {
              M.fail("adjoint-mismatch-subset", vf::fmt("subset %d of %d: <A_s x,y>=%.17g <x,A_s'y>=%.17g diff %.3g > band %.3g (sum|terms| %.6g)", s, n,
                                                        lhs, rhs, std::fabs(lhs - rhs), band, A));
              return;
            }
          for (size_t v = 0; v < G.n; ++v)
            sum[v] += bs[v];
        }
      for (size_t v = 0; v < G.n; ++v)
        {
          const double band = 2 * vf::band32(By.cnt[v] + n, By.a[v]);
          if (!vf::close_enough(sum[v], by[v], band))
            {
              M.fail("back-projection-subsets-do-not-add-up",
                     G.describe(v) + vf::fmt(": sum over %d subsets %.9g, whole %.9g, band %.3g", n, sum[v], static_cast<double>(by[v]), band));
              return;
            }
        }
      ctx.count("subset_partitions_checked");
    }

  // ---------------------------------------------------------------------------------------------- related-viewgram groups
  ctx.heartbeat("related viewgrams");
  {
    std::vector<double> sum(G.n, 0.);
    fwd->set_input(X);
    std::vector<float> got(L.n, SENT);
    for (const Group& g : groups)
      for (int k = L.k0; k <= L.k1; ++k)
        {
          const std::vector<VG> vgs = group_vgs(g, k);
          ViewSegmentNumbers bvs = g.basic;
          // forward
          stir::RelatedViewgrams<float> rv = ypd.get_empty_related_viewgrams(bvs, sym_sptr, false, k);
          if (rv.get_num_viewgrams() != static_cast<int>(vgs.size()))
            {
              M.fail("related-viewgrams-size-differs-from-symmetries", vf::fmt("basic view %d segment %d: %d viewgrams, symmetries list %zu",
                                                                               bvs.view_num(), bvs.segment_num(), rv.get_num_viewgrams(), vgs.size()));
              return;
            }
          fwd->forward_project(rv);
          for (auto it = rv.begin(); it != rv.end(); ++it)
            copy_vg(L, *it, got);
          for (const VG& vg : vgs)
            {
              const size_t o = L.vg_off(vg), len = L.vg_len(vg.seg);
              for (size_t b = o; b < o + len; ++b)
                if (!M.same_fwd("forward-related-viewgrams-differ-from-whole", got, fx, Fx, b, "forward_project(RelatedViewgrams)"))
                  return;
            }
          // back
          const stir::RelatedViewgrams<float> ry = ypd.get_related_viewgrams(bvs, sym_sptr, false, k);
          bck->start_accumulating_in_new_target();
          bck->back_project(ry);
          out_sptr->fill(SENT);
          bck->get_output(*out_sptr);
          const std::vector<float> bg = img_vec(*out_sptr, G);
          const BackRef Bg = ref_back(R, L, G.n, yv, vgs);
          if (!M.back_vs_ref("back-projection-related-viewgrams-differ-from-float64-rows", bg, Bg,
                             vf::fmt("back_project(RelatedViewgrams basic view %d segment %d tof %d)", bvs.view_num(), bvs.segment_num(), k)))
            return;
          double A = 0, lhs = 0;
          for (const VG& vg : vgs)
            {
              const size_t o = L.vg_off(vg), len = L.vg_len(vg.seg);
              for (size_t b = o; b < o + len; ++b)
                lhs += static_cast<double>(got[b]) * yv[b];
            }
          const double rhs = dot(xv, bg);
          const double band = fwd_band_sum(vgs, yv, Fx, false, 0, 0, 0, 0, A) + back_band_sum(xv, Bg);
          ctx.count("adjoint_checks");
          ctx.count("related_viewgram_groups");
          ctx.sub_eval(vf::mix3(static_cast<uint64_t>(bvs.view_num() + 1000), static_cast<uint64_t>(bvs.segment_num() + 1000), static_cast<uint64_t>(k + 1000)), A > 0);
          if (!(std::fabs(lhs - rhs) <= band))
            {
              M.fail("adjoint-mismatch-related-viewgrams",
                     vf::fmt("basic view %d segment %d tof %d (%zu viewgrams): <A_g x,y>=%.17g <x,A_g'y>=%.17g diff %.3g > band %.3g (sum|terms| %.6g)",
                             bvs.view_num(), bvs.segment_num(), k, vgs.size(), lhs, rhs, std::fabs(lhs - rhs), band, A));
              return;
            }
          for (size_t v = 0; v < G.n; ++v)
            sum[v] += bg[v];
        }
    for (size_t v = 0; v < G.n; ++v)
      {
        const double band = 2 * vf::band32(By.cnt[v] + static_cast<double>(groups.size()) * L.nk, By.a[v]);
        if (!vf::close_enough(sum[v], by[v], band))
          {
            M.fail("back-projection-related-viewgrams-do-not-add-up", G.describe(v)
                                                                          + vf::fmt(": sum over %zu groups %.9g, whole %.9g, band %.3g",
                                                                                    groups.size() * L.nk, sum[v], static_cast<double>(by[v]), band));
            return;
          }
      }
  }

  // ---------------------------------------------------------------------------------------------- axial x tangential tiles
  ctx.heartbeat("tiles");
  {
    const int ntile_groups = std::min<int>(static_cast<int>(groups.size()), small ? 2 : (thorough ? 8 : 4));
    std::vector<int> gi(groups.size());
    std::iota(gi.begin(), gi.end(), 0);
    rng.shuffle(gi);
    for (int q = 0; q < ntile_groups; ++q)
      {
        const Group& g = groups[gi[q]];
        const int k = static_cast<int>(rng.range(L.k0, L.k1));
        const std::vector<VG> vgs = group_vgs(g, k);
        const int seg = g.basic.segment_num();
        std::vector<std::pair<int, int>> axp, tgp;
        split_range(rng, L.min_ax(seg), L.max_ax(seg), 3, axp);
        split_range(rng, L.t0, L.t1, 3, tgp);
        struct Tile
        {
          int a0, a1, t0, t1;
        };
        std::vector<Tile> tiles;
        for (auto& a : axp)
          for (auto& t : tgp)
            tiles.push_back(Tile{ a.first, a.second, t.first, t.second });
        rng.shuffle(tiles);
        // forward: tile by tile into sentinel-filled viewgrams
        stir::RelatedViewgrams<float> rv = ypd.get_empty_related_viewgrams(g.basic, sym_sptr, false, k);
        rv.fill(SENT);
        fwd->set_input(X);
        std::vector<float> got(L.n, SENT);
        std::vector<char> written(L.n, 0);
        const stir::RelatedViewgrams<float> ry = ypd.get_related_viewgrams(g.basic, sym_sptr, false, k);
        std::vector<double> sum(G.n, 0.);
        bck->start_accumulating_in_new_target();
        // second object: one accumulates all tiles, one is restarted per tile
        shared_ptr<BackProjectorByBin> bck2(new BackProjectorByBinUsingProjMatrixByBin(make_matrix(mc)));
        bck2->set_up(pdi, x_sptr);
        for (const Tile& T : tiles)
          {
            const bool full_tang = T.t0 == L.t0 && T.t1 == L.t1;
            const bool full = full_tang && T.a0 == L.min_ax(seg) && T.a1 == L.max_ax(seg);
            if (full && rng.coin())
              fwd->forward_project(rv);
            else if (full_tang && rng.coin())
              fwd->forward_project(rv, T.a0, T.a1);
            else
              fwd->forward_project(rv, T.a0, T.a1, T.t0, T.t1);
            for (const VG& vg : vgs)
              for (int ax = T.a0; ax <= T.a1; ++ax)
                for (int t = T.t0; t <= T.t1; ++t)
                  written[L.idx(vg, ax, t)] = 1;
            for (auto it = rv.begin(); it != rv.end(); ++it)
              copy_vg(L, *it, got);
            for (const VG& vg : vgs)
              {
                const size_t o = L.vg_off(vg), len = L.vg_len(vg.seg);
                for (size_t b = o; b < o + len; ++b)
                  if (written[b])
                    {
                      if (!M.same_fwd("forward-sub-range-differs-from-whole", got, fx, Fx, b,
                                      vf::fmt("forward_project(RelatedViewgrams, ax %d..%d, tang %d..%d)", T.a0, T.a1, T.t0, T.t1)))
                        return;
                    }
                  else if (got[b] != SENT)
                    {
                      M.fail("forward-sub-range-writes-outside-requested-range",
                             L.describe(b) + vf::fmt(" holds %.9g instead of the sentinel after forward_project(RelatedViewgrams, ax %d..%d, tang %d..%d)",
                                                     got[b], T.a0, T.a1, T.t0, T.t1));
                      return;
                    }
              }
            // back: this tile alone
            bck2->start_accumulating_in_new_target();
            const int ov = static_cast<int>(rng.range(0, 2));
            if (full && ov == 0)
              {
                bck2->back_project(ry);
                bck->back_project(ry);
              }
            else if (full_tang && ov <= 1)
              {
                bck2->back_project(ry, T.a0, T.a1);
                bck->back_project(ry, T.a0, T.a1);
              }
            else
              {
                bck2->back_project(ry, T.a0, T.a1, T.t0, T.t1);
                bck->back_project(ry, T.a0, T.a1, T.t0, T.t1);
              }
            bck2->get_output(*out_sptr);
            const std::vector<float> bt = img_vec(*out_sptr, G);
            const BackRef Bt = ref_back(R, L, G.n, yv, vgs, true, T.a0, T.a1, T.t0, T.t1);
            if (!M.back_vs_ref("back-projection-sub-range-differs-from-float64-rows", bt, Bt,
                               vf::fmt("back_project(RelatedViewgrams, ax %d..%d, tang %d..%d) basic view %d segment %d", T.a0, T.a1, T.t0, T.t1,
                                       g.basic.view_num(), seg)))
              return;
            double A = 0, lhs = 0;
            for (const VG& vg : vgs)
              for (int ax = T.a0; ax <= T.a1; ++ax)
                for (int t = T.t0; t <= T.t1; ++t)
                  lhs += static_cast<double>(got[L.idx(vg, ax, t)]) * yv[L.idx(vg, ax, t)];
            const double rhs = dot(xv, bt);
            const double band = fwd_band_sum(vgs, yv, Fx, true, T.a0, T.a1, T.t0, T.t1, A) + back_band_sum(xv, Bt);
            ctx.count("adjoint_checks");
            ctx.count("sub_range_tiles");
            if (!(std::fabs(lhs - rhs) <= band))
              {
                M.fail("adjoint-mismatch-sub-range",
                       vf::fmt("basic view %d segment %d tof %d ax %d..%d tang %d..%d: <A_t x,y>=%.17g <x,A_t'y>=%.17g diff %.3g > band %.3g",
                               g.basic.view_num(), seg, k, T.a0, T.a1, T.t0, T.t1, lhs, rhs, std::fabs(lhs - rhs), band));
                return;
              }
            for (size_t v = 0; v < G.n; ++v)
              sum[v] += bt[v];
          }
        // all tiles accumulated in one target == whole group == sum of the separate tiles
        bck->get_output(*out_sptr);
        const std::vector<float> ball = img_vec(*out_sptr, G);
        const BackRef Bg = ref_back(R, L, G.n, yv, vgs);
        if (!M.back_vs_ref("back-projection-accumulated-sub-ranges-differ-from-float64-rows", ball, Bg,
                           vf::fmt("%zu sub-range back projections accumulated in one target, basic view %d segment %d", tiles.size(),
                                   g.basic.view_num(), seg),
                           static_cast<int>(tiles.size())))
          return;
        for (size_t v = 0; v < G.n; ++v)
          {
            const double band = 2 * vf::band32(Bg.cnt[v] + static_cast<double>(tiles.size()), Bg.a[v]);
            if (!vf::close_enough(sum[v], ball[v], band))
              {
                M.fail("back-projection-sub-ranges-do-not-add-up", G.describe(v)
                                                                       + vf::fmt(": sum of %zu separate tiles %.9g, accumulated %.9g, band %.3g",
                                                                                 tiles.size(), sum[v], static_cast<double>(ball[v]), band));
                return;
              }
          }
      }
  }

  // ---------------------------------------------------------------------------------------------- (e) accumulation
  ctx.heartbeat("accumulation");
  {
    const int n = nsubs.size() > 1 ? nsubs[static_cast<size_t>(rng.range(0, static_cast<long>(nsubs.size()) - 1))] : 1;
    const int s = static_cast<int>(rng.range(0, n - 1));
    const std::vector<VG> Es = subset_vgs(s, n);
    bck->start_accumulating_in_new_target();
    bck->get_output(*out_sptr);
    for (float v : img_vec(*out_sptr, G))
      if (v != 0.f)
        {
          M.fail("new-accumulation-target-not-zero", vf::fmt("get_output directly after start_accumulating_in_new_target gives %.9g", v));
          return;
        }
    bck->back_project(ypd, s, n);
    bck->get_output(*out_sptr);
    const std::vector<float> first_only = img_vec(*out_sptr, G);
    bck->back_project(y2pd);
    bck->get_output(*out_sptr);
    const std::vector<float> both = img_vec(*out_sptr, G);
    bck->get_output(*out_sptr);
    const std::vector<float> again = img_vec(*out_sptr, G);
    const std::vector<float> sep1 = back_whole(ypd, s, n); // separate projections (restart the target)
    const BackRef B1 = ref_back(R, L, G.n, yv, Es);
    for (size_t v = 0; v < G.n; ++v)
      {
        if (again[v] != both[v])
          {
            M.fail("get-output-not-repeatable", G.describe(v) + vf::fmt(": %.9g then %.9g", both[v], again[v]));
            return;
          }
        if (first_only[v] != sep1[v] && !vf::close_enough(first_only[v], sep1[v], 2 * vf::band32(B1.cnt[v] + 1, B1.a[v])))
          {
            M.fail("back-projection-differs-between-targets", G.describe(v) + vf::fmt(": %.9g vs %.9g for the same data", first_only[v], sep1[v]));
            return;
          }
        const double want = static_cast<double>(sep1[v]) + by2[v];
        const double band = 2 * vf::band32(B1.cnt[v] + By2.cnt[v] + 2, B1.a[v] + By2.a[v]);
        if (!vf::close_enough(both[v], want, band))
          {
            M.fail("back-projection-does-not-accumulate",
                   G.describe(v) + vf::fmt(": back_project(y,subset %d of %d) then back_project(y2) gives %.9g; separately %.9g + %.9g = %.9g; band %.3g",
                                           s, n, both[v], sep1[v], by2[v], want, band));
            return;
          }
      }
    ctx.count("accumulation_checks");
  }

  // ---------------------------------------------------------------------------------------------- (f) on-the-fly ray tracing
  if (want_rt)
    {
      ctx.heartbeat("ray tracing forward projector");
      ForwardProjectorByBinUsingRayTracing rt;
      bool ok = true;
      try
        {
          rt.set_up(pdi, x_sptr);
        }
      catch (const std::exception& e)
        {
          ok = false;
          ctx.count("raytracing_projector_rejected");
          if (std::getenv("VERIF_C04_DEBUG"))
            std::fprintf(stderr, "RTREJECT %s\n", e.what());
        }
      if (ok)
        {
          MatCfg dc; // defaults: all symmetries, 1 tangential ray, cylindrical FOV
          dc.cache = rng.coin();
          ForwardProjectorByBinUsingProjMatrixByBin mf(make_matrix(dc));
          mf.set_up(pdi, x_sptr);
          const std::vector<float> fm = fwd_pd(mf, L, exam, X, 0, 1, true, SENT, 0);
          const std::vector<float> fr = fwd_pd(rt, L, exam, X, 0, 1, true, SENT, 0);
          long compared = 0;
          if (std::getenv("VERIF_C04_DEBUG"))
            for (size_t b = 0; b < L.n; ++b)
              std::fprintf(stderr, "RT %s rt=%.6g mat=%.6g %s\n", L.describe(b).c_str(), fr[b], fm[b],
                           std::fabs(fr[b] - fm[b]) > 1e-3 * (std::fabs(fm[b]) + 1) ? "<<<" : "");
          // Two defects of the on-the-fly projector get their own keys (see the C04 report):
          //  D1: forward_project_all_symmetries_2D, branch "tang_pos_num==0 and phi!=k*45", 2 planes per axial position: the second
          //      proj_Siddon<4> call passes max_axial_pos_num where the three sibling branches pass max_axial_pos_num+1, so the
          //      quarter-weight contribution of the plane above the LAST axial position is dropped;
          //  D2: unequal x/y voxel size switches the 90-degree symmetry off; the group {view n/4, view 3n/4} (related by 180-phi) is
          //      then taken for a "+90 degrees" pair because 3n/4 == n/4 + n/2, and view 3n/4 is filled through the x<->y swap.
          const int ppa0 = pdi_cyl->get_min_ring_difference(0) != pdi_cyl->get_max_ring_difference(0) ? 1 : 2;
          const bool aniso = std::fabs(is.vx - is.vy) > 2.e-3f;
          // geometric tie screen (DESIGN §5), blind to the results: a (view, tangential position) is excluded when its transaxial line
          // passes within 1e-3 voxel of a grid vertex (this includes lines running along a voxel edge); there the two ray tracers may
          // legitimately pick different voxels
          std::vector<char> tie(static_cast<size_t>(L.nv) * L.nt, 0);
          long excluded = 0;
          for (int view = L.v0; view <= L.v1; ++view)
            for (int t = L.t0; t <= L.t1; ++t)
              {
                const Bin bn(0, view, 0, t);
                const double phi = pdi->get_phi(bn), sm = pdi->get_s(bn);
                const double cp = std::cos(phi), sp = std::sin(phi);
                const double lim = 1e-3 * std::min(is.vx, is.vy);
                bool hit = false;
                for (int j = G.y0 - 1; j <= G.y1 && !hit; ++j)
                  for (int i = G.x0 - 1; i <= G.x1; ++i)
                    if (std::fabs((i + .5) * is.vx * cp + (j + .5) * is.vy * sp - sm) < lim)
                      {
                        hit = true;
                        break;
                      }
                tie[static_cast<size_t>(view - L.v0) * L.nt + (t - L.t0)] = hit;
              }
          std::string w_gen, w_d1, w_d2;
          long n_d1 = 0, n_d2 = 0;
          const DataSymmetriesForViewSegmentNumbers* rsym0 = rt.get_symmetries_used();
          auto general_phi_branch = [&](const VG& g) {
            ViewSegmentNumbers vs(g.view, g.seg);
            rsym0->find_basic_view_segment_numbers(vs);
            return !(vs.view_num() == 0 || 4 * vs.view_num() == L.nv);
          };
          for (const VG& g : ALL)
            {
              const size_t o = L.vg_off(g), len = L.vg_len(g.seg);
              double mx = 0;
              for (size_t b = o; b < o + len; ++b)
                mx = std::max(mx, static_cast<double>(std::fabs(fm[b])));
              const double tol = 2e-3 * mx + 1e-5;
              for (int ax = L.min_ax(g.seg); ax <= L.max_ax(g.seg); ++ax)
                for (int t = L.t0; t <= L.t1; ++t)
                  {
                    const size_t b = L.idx(g, ax, t);
                    if (tie[static_cast<size_t>(g.view - L.v0) * L.nt + (t - L.t0)])
                      {
                        ++excluded;
                        continue;
                      }
                    ++compared;
                    if (std::fabs(static_cast<double>(fr[b]) - fm[b]) <= tol)
                      continue;
                    const std::string w = L.describe(b)
                                          + vf::fmt(": ForwardProjectorByBinUsingRayTracing %.9g, via ProjMatrixByBinUsingRayTracing %.9g, tolerance %.3g "
                                                    "(viewgram max %.6g)",
                                                    fr[b], fm[b], tol, mx);
                    if (aniso && L.nv % 4 == 0 && g.view == 3 * L.nv / 4)
                      {
                        if (!n_d2++)
                          w_d2 = w;
                      }
                    else if (g.seg == 0 && t == 0 && ax == L.max_ax(0) && ppa0 == 2 && general_phi_branch(g))
                      {
                        if (!n_d1++)
                          w_d1 = w;
                      }
                    else if (w_gen.empty())
                      w_gen = w;
                  }
            }
          if (n_d1)
            ctx.violation("raytracing-forward-projector-differs-from-raytracing-matrix:segment0-tang0-last-axial-pos-two-planes-per-axial-pos",
                          vf::fmt("%ld bins, first: ", n_d1) + w_d1);
          if (n_d2)
            ctx.violation("raytracing-forward-projector-differs-from-raytracing-matrix:unequal-xy-voxel-size-view-three-quarters",
                          vf::fmt("%ld bins, first: ", n_d2) + w_d2);
          if (!w_gen.empty())
            {
              M.fail("raytracing-forward-projector-differs-from-raytracing-matrix", w_gen);
              return;
            }
          ctx.count("fwd_raytracing_vs_matrix_bins", compared);
          ctx.count("fwd_raytracing_tie_bins_excluded", excluded);
          ctx.count("cfg_raytracing_projector_compared");
          if (aniso && L.nv % 4 == 0)
            {
              // views n/4 and 3n/4 are a '180-phi' pair, not a '+90' pair (defect D2)
              ctx.count("cfg_raytracing_projector_unequal_xy_views_multiple_of_4");
              if (L.s1 > 0)
                ctx.count("cfg_raytracing_projector_unequal_xy_views_multiple_of_4_oblique");
            }
          if (ppa0 == 2 && is.oz != 0.f)
            ctx.count("cfg_raytracing_projector_two_planes_per_axial_pos_shifted_origin"); // defect D1 visible
          // the subset / sentinel clause holds for every ForwardProjectorByBin
          const int n = nsubs.back();
          const int s = static_cast<int>(rng.range(0, n - 1));
          const DataSymmetriesForViewSegmentNumbers* rsym = rt.get_symmetries_used();
          std::set<VG> mine;
          for (int seg = L.s0; seg <= L.s1; ++seg)
            for (int view = L.v0 + s; view <= L.v1; view += n)
              if (rsym->is_basic(ViewSegmentNumbers(view, seg)))
                {
                  std::vector<ViewSegmentNumbers> rel;
                  rsym->get_related_view_segment_numbers(rel, ViewSegmentNumbers(view, seg));
                  for (auto& r : rel)
                    mine.insert(VG{ r.segment_num(), 0, r.view_num() });
                }
          const std::vector<float> got = fwd_pd(rt, L, exam, X, s, n, false, SENT, 0);
          for (const VG& g : ALL)
            {
              const size_t o = L.vg_off(g), len = L.vg_len(g.seg);
              const bool in = mine.count(g) > 0;
              for (size_t b = o; b < o + len; ++b)
                if (in ? !(got[b] == fr[b]) : got[b] != SENT)
                  {
                    M.fail(in ? "raytracing-forward-subset-differs-from-whole" : "forward-subset-touches-bins-of-other-subsets",
                           L.describe(b) + vf::fmt(": ForwardProjectorByBinUsingRayTracing subset %d of %d gives %.9g, whole %.9g", s, n, got[b], fr[b]));
                    return;
                  }
              if (!in)
                ctx.count("sentinel_bins_checked", static_cast<long>(len));
            }
          // the sub-range clause holds for every ForwardProjectorByBin as well: forward_project(RelatedViewgrams, axial range,
          // tangential range) fills exactly the requested bins (with what the whole projection gives there) and touches nothing else.
          // Tangential pieces lying entirely at negative s, entirely at positive s and across 0 all occur.
          {
            shared_ptr<DataSymmetriesForViewSegmentNumbers> rsym_sptr(rsym->clone());
            double fr_max = 0;
            for (size_t b = 0; b < L.n; ++b)
              fr_max = std::max(fr_max, static_cast<double>(std::fabs(fr[b])));
            const double tol = 2e-5 * fr_max + 1e-6;
            for (int q = 0; q < (small ? 2 : 3); ++q)
              {
                ViewSegmentNumbers vs(static_cast<int>(rng.range(L.v0, L.v1)), static_cast<int>(rng.range(L.s0, L.s1)));
                rsym->find_basic_view_segment_numbers(vs);
                const int seg = vs.segment_num();
                std::vector<ViewSegmentNumbers> rel;
                rsym->get_related_view_segment_numbers(rel, vs);
                std::vector<std::pair<int, int>> axp, tgp;
                split_range(rng, L.min_ax(seg), L.max_ax(seg), 2, axp);
                split_range(rng, L.t0, L.t1, 3, tgp);
                struct RTile
                {
                  int a0, a1, t0, t1;
                };
                std::vector<RTile> tiles;
                for (auto& a : axp)
                  for (auto& t : tgp)
                    tiles.push_back(RTile{ a.first, a.second, t.first, t.second });
                rng.shuffle(tiles);
                rt.set_input(X);
                for (const RTile& T : tiles)
                  {
                    // zero-filled viewgrams for every piece: the base class documents that the viewgrams are overwritten, the
                    // on-the-fly projector ADDS to them; with zeros both readings give the same data (the statement fixes neither)
                    stir::RelatedViewgrams<float> rv = ypd.get_empty_related_viewgrams(vs, rsym_sptr, false, 0);
                    rv.fill(0.F);
                    std::vector<float> got(L.n, SENT);
                    std::vector<char> written(L.n, 0);
                    rt.forward_project(rv, T.a0, T.a1, T.t0, T.t1);
                    ctx.count("raytracing_sub_range_tiles");
                    if (T.t1 < 0)
                      ctx.count("raytracing_sub_range_tiles_at_negative_s_only");
                    for (auto& r : rel)
                      for (int ax = T.a0; ax <= T.a1; ++ax)
                        for (int t = T.t0; t <= T.t1; ++t)
                          written[L.idx(VG{ r.segment_num(), 0, r.view_num() }, ax, t)] = 1;
                    for (auto it = rv.begin(); it != rv.end(); ++it)
                      copy_vg(L, *it, got);
                    for (auto& r : rel)
                      {
                        const VG vg{ r.segment_num(), 0, r.view_num() };
                        const size_t o = L.vg_off(vg), len = L.vg_len(vg.seg);
                        for (size_t b = o; b < o + len; ++b)
                          if (written[b] ? !(std::fabs(static_cast<double>(got[b]) - fr[b]) <= tol) : got[b] != 0.F)
                            {
                              M.fail(written[b] ? "raytracing-forward-sub-range-differs-from-whole" : "raytracing-forward-sub-range-writes-outside-requested-range",
                                     L.describe(b)
                                         + vf::fmt(": %.9g after ForwardProjectorByBinUsingRayTracing::forward_project(RelatedViewgrams, ax %d..%d, tang %d..%d); "
                                                   "whole projection %.9g (bins outside the sub-range were 0 before the call)",
                                                   got[b], T.a0, T.a1, T.t0, T.t1, fr[b]));
                              return;
                            }
                      }
                  }
              }
          }
        }
    }

  // ---------------------------------------------------------------------------------------------- bookkeeping
  ctx.nontrivial = R.nnz() > 0 && L.nv >= 2 && inner_ref != 0;
  ctx.count(tof ? "cfg_tof" : "cfg_non_tof");
  ctx.count(blocks ? "cfg_blocks_on_cylindrical" : "cfg_cylindrical");
  ctx.count(mc.interp ? "cfg_interpolation_matrix" : "cfg_raytracing_matrix");
  ctx.count(mc.cache ? (mc.basic_only ? "cfg_cache_basic_bins" : "cfg_cache_all_bins") : "cfg_cache_off");
  if (mc.s90 && mc.s180 && mc.sseg && mc.ss && mc.sz)
    ctx.count("cfg_all_symmetries");
  else if (!mc.s90 && !mc.s180 && !mc.sseg && !mc.ss && !mc.sz)
    ctx.count("cfg_no_symmetries");
  else
    ctx.count("cfg_some_symmetries");
  if (mc.ntang > 1)
    ctx.count("cfg_multiple_tangential_rays");
  if (ps.span > 1 || ps.ge_mixed)
    ctx.count("cfg_axial_compression");
  if (ps.num_views < ss.ndet / 2)
    ctx.count("cfg_view_mashing");
  if (ps.arccorr)
    ctx.count("cfg_arc_corrected");
  ctx.count(vf::fmt("cfg_pair_mode_%d", pair_mode));
  long big = 0;
  for (auto& g : groups)
    big = std::max<long>(big, static_cast<long>(g.vs.size()));
  ctx.count(vf::fmt("cfg_max_group_size_%ld", big));
}

int
main(int argc, char** argv)
{
  vg::quiet();
  return vf::verif_main(argc, argv, "C04", run_case);
}
