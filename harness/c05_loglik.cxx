// C05: Poisson log-likelihood quantities equal their textbook definition (DESIGN.md §6 C05).
//
// Oracle: the explicit system matrix F (rows taken from a ProjMatrixByBinUsingRayTracing configured exactly like the one
// inside the objective function's ProjectorByBinPairUsingProjMatrixByBin), held sparsely in double, and the model that
// the class documents:   ybar = D (F lambda + a),  D = BinNormalisation::undo (bin efficiencies),  a = additive term,
//   value    L      = sum_b  y_b log(ybar_b) - ybar_b                         (bins with ybar_b = y_b = 0 contribute 0)
//   gradient        = F' [ y/(F lambda + a) ] - F' D 1
//   sensitivity     = F' D 1           (TOF data without "use time-of-flight sensitivities": non-TOF F, as documented)
//   Hessian x v     = - F' [ y (F v) / (F lambda + a)^2 ]
// float32 results are compared inside the computed band vf::band32 (DESIGN §5).  Data are generated such that the
// documented truncations of divide_and_truncate / accumulate_loglikelihood never trigger (counts 0 or >= 1, quotients far
// below 1e4); the one truncation that cannot be avoided by construction (numerator <= max*1e-6 in the Hessian product)
// is modelled with a guard zone.
//
// Clauses: (1) every subset / full data / one-subset object / penalised quantities of a freshly configured object against
// the reference; (2) 24 orders of first use on fresh objects, bit for bit; (3) re-configuration histories (every second
// case): one object reaches the case's configuration through 1..4 earlier configurations + set_up() calls (public setters,
// requests in between) and must then agree with the reference and, bit for bit, with the fresh object of clause (1).
// Violation keys of (3): history:<quantity>-differs-from-<reference|fresh-object>-after-re-set_up:<settings that must change
// between two set_up()s, found by reducing the failing history>.
#include "common/verif.h"
#include "common/gen.h"
#include "stir/recon_buildblock/PoissonLogLikelihoodWithLinearModelForMeanAndProjData.h"
#include "stir/recon_buildblock/ProjMatrixByBinUsingRayTracing.h"
#include "stir/recon_buildblock/ProjectorByBinPairUsingProjMatrixByBin.h"
#include "stir/recon_buildblock/ProjMatrixElemsForOneBin.h"
#include "stir/recon_buildblock/BinNormalisationFromProjData.h"
#include "stir/recon_buildblock/ChainedBinNormalisation.h"
#include "stir/recon_buildblock/TrivialBinNormalisation.h"
#include "stir/recon_buildblock/QuadraticPrior.h"
#include "stir/recon_buildblock/DataSymmetriesForBins.h"
#include "stir/ProjDataInMemory.h"
#include "stir/SegmentByView.h"
#include "stir/ExamInfo.h"
#include "stir/ViewSegmentNumbers.h"
#include "stir/DiscretisedDensity.h"
#include "stir/IO/write_to_file.h"
#include <cstring>
#include <new>
#include <memory>
#include <array>

using namespace stir;
using vf::Ctx;

typedef DiscretisedDensity<3, float> Target;
typedef PoissonLogLikelihoodWithLinearModelForMeanAndProjData<Target> ObjFn;

#if defined(__has_feature)
#  if __has_feature(address_sanitizer)
#    define C05_ASAN_BUILD 1
#  endif
#endif
#ifndef C05_ASAN_BUILD
#  define C05_ASAN_BUILD 0
#endif

// ------------------------------------------------------------------------------------------------ bin index space
struct Geo
{
  shared_ptr<const ProjDataInfo> pdi;
  int min_seg = 0, max_seg = 0, min_tof = 0, max_tof = 0, min_view = 0, nviews = 0, min_tang = 0, ntang = 0, ntof = 1;
  std::vector<int> seg_off, min_ax, nax;
  int nbins = 0;
  void init(const shared_ptr<const ProjDataInfo>& p)
  {
    pdi = p;
    min_seg = p->get_min_segment_num();
    max_seg = p->get_max_segment_num();
    min_tof = p->get_min_tof_pos_num();
    max_tof = p->get_max_tof_pos_num();
    ntof = max_tof - min_tof + 1;
    min_view = p->get_min_view_num();
    nviews = p->get_num_views();
    min_tang = p->get_min_tangential_pos_num();
    ntang = p->get_num_tangential_poss();
    nbins = 0;
    for (int s = min_seg; s <= max_seg; ++s)
      {
        seg_off.push_back(nbins);
        min_ax.push_back(p->get_min_axial_pos_num(s));
        nax.push_back(p->get_num_axial_poss(s));
        nbins += ntof * nviews * nax.back() * ntang;
      }
  }
  int index(int seg, int tof, int view, int ax, int tang) const
  {
    const int si = seg - min_seg;
    return seg_off[si] + (((tof - min_tof) * nviews + (view - min_view)) * nax[si] + (ax - min_ax[si])) * ntang + (tang - min_tang);
  }
};
struct BinRec
{
  int seg, tof, view, ax, tang;
};
static std::vector<BinRec>
all_bins(const Geo& g)
{
  std::vector<BinRec> v(g.nbins);
  for (int s = g.min_seg; s <= g.max_seg; ++s)
    for (int k = g.min_tof; k <= g.max_tof; ++k)
      for (int vw = g.min_view; vw < g.min_view + g.nviews; ++vw)
        for (int a = g.min_ax[s - g.min_seg]; a < g.min_ax[s - g.min_seg] + g.nax[s - g.min_seg]; ++a)
          for (int t = g.min_tang; t < g.min_tang + g.ntang; ++t)
            v[g.index(s, k, vw, a, t)] = BinRec{ s, k, vw, a, t };
  return v;
}

static shared_ptr<ProjDataInMemory>
make_pd(const shared_ptr<const ExamInfo>& exam, const Geo& g, const std::vector<float>& vals)
{
  shared_ptr<ProjDataInMemory> pd(new ProjDataInMemory(exam, g.pdi));
  for (int s = g.min_seg; s <= g.max_seg; ++s)
    for (int k = g.min_tof; k <= g.max_tof; ++k)
      {
        SegmentByView<float> seg = pd->get_empty_segment_by_view(s, false, k);
        for (int vw = g.min_view; vw < g.min_view + g.nviews; ++vw)
          for (int a = g.min_ax[s - g.min_seg]; a < g.min_ax[s - g.min_seg] + g.nax[s - g.min_seg]; ++a)
            for (int t = g.min_tang; t < g.min_tang + g.ntang; ++t)
              seg[vw][a][t] = vals[g.index(s, k, vw, a, t)];
        if (pd->set_segment(seg) != Succeeded::yes)
          throw std::runtime_error("harness: set_segment failed");
      }
  return pd;
}

// ------------------------------------------------------------------------------------------------ sparse matrix
struct Sparse
{
  std::vector<int> rowptr, col;
  std::vector<double> val;
  int max_row_nnz = 0;
  long nnz() const { return static_cast<long>(col.size()); }
};

// ------------------------------------------------------------------------------------------------ configuration
struct Cfg
{
  vg::ScannerSpec ss;
  vg::PdiSpec ps;
  bool tof = false;
  int nxy = 5;
  float zoom = 1.f;
  int norm_kind = 0;      // 0 trivial, 1 from projdata, 2 chained
  int chain_first = 1;    // for chained: 0 trivial, 1 projdata (non-TOF), 2 projdata (TOF)
  int chain_second = 1;   // idem
  bool norm_tof = false;  // for kind 1
  bool parse_tofsens = false;
  bool additive = false;
  bool zero_ends = false;
  int max_seg = -1;
  bool use_subset_sens = true;
  bool supplied = false;
  int S = 1;
  bool prior = false;
  float beta = 1.f;
  // matrix
  bool cache_disabled = false, basic_only = false, sym90 = true, sym180 = true, swap_seg = true, swap_s = true, shift_z = true;
  bool restrict_fov = true, actual_boundaries = false;
  int tang_lors = 1;
  int alloc = 0; // 0 plain new, 1 storage pre-filled with 0x00, 2 pre-filled with 0x01
  vf::Desc desc() const
  {
    vf::Desc d;
    d.add("scanner", ss.desc()).add("pdi", ps.desc()).add("tof", tof).add("nxy", nxy).add("zoom", zoom).add("norm_kind", norm_kind);
    d.add("chain_first", chain_first).add("chain_second", chain_second).add("norm_tof", norm_tof).add("parse_tofsens", parse_tofsens);
    d.add("additive", additive).add("zero_ends", zero_ends).add("max_seg", max_seg).add("use_subset_sens", use_subset_sens);
    d.add("supplied_sens", supplied).add("num_subsets", S).add("prior", prior).add("beta", beta);
    d.add("cache_disabled", cache_disabled).add("basic_only", basic_only).add("sym90", sym90).add("sym180", sym180);
    d.add("swap_seg", swap_seg).add("swap_s", swap_s).add("shift_z", shift_z).add("restrict_fov", restrict_fov);
    d.add("actual_boundaries", actual_boundaries).add("tang_lors", tang_lors).add("alloc", alloc);
    return d;
  }
};

static shared_ptr<ProjMatrixByBinUsingRayTracing>
make_matrix(const Cfg& c)
{
  shared_ptr<ProjMatrixByBinUsingRayTracing> m(new ProjMatrixByBinUsingRayTracing());
  m->set_num_tangential_LORs(c.tang_lors);
  m->set_restrict_to_cylindrical_FOV(c.restrict_fov);
  m->set_use_actual_detector_boundaries(c.actual_boundaries);
  m->set_do_symmetry_90degrees_min_phi(c.sym90);
  m->set_do_symmetry_180degrees_min_phi(c.sym180);
  m->set_do_symmetry_swap_segment(c.swap_seg);
  m->set_do_symmetry_swap_s(c.swap_s);
  m->set_do_symmetry_shift_z(c.shift_z);
  m->enable_cache(!c.cache_disabled);
  m->store_only_basic_bins_in_cache(c.basic_only);
  return m;
}

// ------------------------------------------------------------------------------------------------ the generated world
struct NormComp
{
  bool trivial = true;
  bool tof = false;
  std::vector<float> N; // values in gT (tof) or g0 (non-tof) index space
  shared_ptr<ProjData> pd;
};

struct World
{
  Cfg c;
  shared_ptr<ExamInfo> exam;
  shared_ptr<ProjDataInfo> pdiT, pdi0;
  Geo gT, g0;
  std::vector<BinRec> binsT, bins0;
  shared_ptr<VoxelsOnCartesianGrid<float>> image;
  int nz = 0, ny = 0, nx = 0, z0 = 0, y0 = 0, x0 = 0, nvox = 0;
  std::vector<NormComp> norms; // 0..2 components
  std::vector<float> y, a;
  shared_ptr<ProjData> y_pd, a_pd;
  std::vector<float> lam1, lam2, vin, out0;
  bool tofsens = false;     // sensitivity uses the TOF projector
  bool sens_nontof = false; // TOF data with non-TOF sensitivity projector
  std::string sens_pattern, sens_file;
  int maxseg_eff = 0;

  shared_ptr<Target> img_from(const std::vector<float>& v) const
  {
    shared_ptr<Target> t(image->get_empty_copy());
    size_t i = 0;
    for (auto it = t->begin_all(); it != t->end_all(); ++it, ++i)
      *it = v[i];
    return t;
  }
  static std::vector<float> vec_from(const Target& t)
  {
    std::vector<float> v;
    for (auto it = t.begin_all_const(); it != t.end_all_const(); ++it)
      v.push_back(*it);
    return v;
  }
  int non_tof_index(const BinRec& b) const { return g0.index(b.seg, 0, b.view, b.ax, b.tang); }
  // efficiency of a bin of the data (double, from the float norm data):  undo() divides by the norm data
  double eff_T(int ib) const
  {
    double e = 1;
    for (auto& n : norms)
      if (!n.trivial)
        e /= static_cast<double>(n.tof ? n.N[ib] : n.N[non_tof_index(binsT[ib])]);
    return e;
  }
  double eff_0(int ib0) const
  {
    double e = 1;
    for (auto& n : norms)
      if (!n.trivial)
        e /= static_cast<double>(n.N[ib0]); // only used when all components are non-TOF
    return e;
  }
  shared_ptr<BinNormalisation> make_norm() const
  {
    auto comp = [&](const NormComp& n) -> shared_ptr<BinNormalisation> {
      if (n.trivial)
        return shared_ptr<BinNormalisation>(new TrivialBinNormalisation());
      return shared_ptr<BinNormalisation>(new BinNormalisationFromProjData(n.pd));
    };
    if (c.norm_kind == 0)
      return shared_ptr<BinNormalisation>(new TrivialBinNormalisation());
    if (c.norm_kind == 1)
      return comp(norms[0]);
    return shared_ptr<BinNormalisation>(new ChainedBinNormalisation(comp(norms[0]), comp(norms[1])));
  }
};

// holder that optionally constructs the objective function in pre-filled storage: members that the constructor
// leaves uninitialised then hold a *known* indeterminate value (all-zero bytes, or 0x01 bytes = every bool 'true'),
// which makes reads of never-initialised set-up flags reproducible instead of depending on heap history.
struct Holder
{
  void* mem = nullptr;
  ObjFn* obj = nullptr;
  bool placed = false;
  Holder() = default;
  Holder(const Holder&) = delete;
  Holder& operator=(const Holder&) = delete;
  void create(int alloc)
  {
    if (alloc == 0)
      {
        obj = new ObjFn();
        placed = false;
      }
    else
      {
        mem = ::operator new(sizeof(ObjFn));
        std::memset(mem, alloc == 1 ? 0x00 : 0x01, sizeof(ObjFn));
        obj = new (mem) ObjFn();
        placed = true;
      }
  }
  ~Holder()
  {
    if (!obj)
      return;
    if (placed)
      {
        obj->~ObjFn();
        ::operator delete(mem);
      }
    else
      delete obj;
  }
};

enum SensMode
{
  SENS_COMPUTE = 0,
  SENS_COMPUTE_AND_WRITE = 1,
  SENS_READ = 2
};

// configure + set_up a fresh objective function.  Throws whatever STIR throws.
static void
build_objfn(Holder& h, const World& w, int S, SensMode sm, bool with_prior)
{
  const Cfg& c = w.c;
  h.create(c.alloc);
  ObjFn& o = *h.obj;
  if (c.parse_tofsens)
    {
      std::istringstream par("PoissonLogLikelihoodWithLinearModelForMeanAndProjData Parameters:=\n"
                             "use time-of-flight sensitivities := 1\n"
                             "End PoissonLogLikelihoodWithLinearModelForMeanAndProjData Parameters:=\n");
      if (!o.parse(par))
        throw std::runtime_error("harness: parsing 'use time-of-flight sensitivities' failed");
    }
  o.set_proj_data_sptr(w.y_pd);
  shared_ptr<ProjMatrixByBin> m = make_matrix(c);
  shared_ptr<ProjectorByBinPair> pair(new ProjectorByBinPairUsingProjMatrixByBin(m));
  o.set_projector_pair_sptr(pair);
  o.set_normalisation_sptr(w.make_norm());
  if (c.additive)
    o.set_additive_proj_data_sptr(w.a_pd);
  if (c.zero_ends)
    o.set_zero_seg0_end_planes(true);
  if (c.max_seg >= 0)
    o.set_max_segment_num_to_process(c.max_seg);
  o.set_use_subset_sensitivities(c.use_subset_sens);
  o.set_num_subsets(S);
  if (sm != SENS_COMPUTE)
    {
      if (c.use_subset_sens)
        o.set_subsensitivity_filenames(w.sens_pattern);
      else
        o.set_sensitivity_filename(w.sens_file);
    }
  o.set_recompute_sensitivity(sm != SENS_READ);
  if (with_prior)
    {
      shared_ptr<GeneralisedPrior<Target>> pr(new QuadraticPrior<float>(false, c.beta));
      o.set_prior_sptr(pr);
    }
  shared_ptr<Target> target(w.image->clone());
  if (o.set_up(target) != Succeeded::yes)
    throw std::runtime_error("set_up returned Succeeded::no");
}

// ------------------------------------------------------------------------------------------------ generation
static void
gen_cfg(Ctx& ctx, Cfg& c)
{
  vf::Rng& rng = ctx.rng;
  vg::ScannerOpts so;
  so.min_det = 8;
  so.max_det = ctx.thorough() ? 32 : 24;
  so.min_rings = 1;
  so.max_rings = ctx.thorough() ? 5 : 4;
  so.p_tof = 0.;
  so.allow_tilt = true;
  so.allow_blocks = false;
  c.ss = vg::gen_scanner(rng, so);
  if (c.ss.nrings == 1 && rng.coin(0.6))
    c.ss.nrings = static_cast<int>(rng.range(2, so.max_rings));
  c.ss.axial_per_block = rng.pick(vg::divisors(c.ss.nrings));
  c.tof = rng.coin(0.35);
  if (c.tof)
    {
      static const std::vector<std::pair<int, int>> tb = { { 3, 1 }, { 5, 1 }, { 9, 3 }, { 15, 5 }, { 15, 3 } };
      const auto p = rng.pick(tb);
      c.ss.tof_bins = p.first;
      const double window_ps = 4. * c.ss.radius / 0.299792458 * rng.uniform(0.8, 1.3);
      c.ss.tof_size = static_cast<float>(window_ps / c.ss.tof_bins);
      c.ss.tof_res = static_cast<float>(c.ss.tof_size * rng.uniform(0.8, 3.));
    }
  vg::PdiOpts po;
  po.allow_ge = false;
  po.allow_arccorr = !c.tof;
  po.allow_even_span = true;
  c.ps = vg::gen_pdi(rng, c.ss, po);
  if (c.tof)
    {
      // keep the number of TOF positions at 3 or 5 so that the explicit matrix stays small
      c.ps.tof_mash = c.ss.tof_bins <= 5 ? 1 : (c.ss.tof_bins == 9 ? 3 : (rng.coin() ? 5 : 3));
    }
  else
    c.ps.tof_mash = 0;
  const int maxtang = std::min(c.ss.ndet / 2 + 1, c.ss.ndet - 1);
  if (c.ps.num_tang < 3)
    c.ps.num_tang = std::min(3, maxtang);
  // image: odd, square transaxial size (symmetric index range, required by the symmetry operations of the matrix)
  const int maxn = ctx.thorough() ? 11 : 9;
  c.nxy = 2 * static_cast<int>(rng.range(1, (maxn - 1) / 2)) + 1;
  c.zoom = static_cast<float>(std::min(1., c.nxy / (rng.uniform(0.6, 1.2) * c.ps.num_tang)));
  const double r = rng.u01();
  c.norm_kind = r < 0.25 ? 0 : (r < 0.65 ? 1 : 2);
  c.norm_tof = c.tof && rng.coin(0.5);
  c.chain_first = static_cast<int>(rng.range(0, c.tof ? 2 : 1));
  c.chain_second = static_cast<int>(rng.range(1, c.tof ? 2 : 1));
  const bool any_tof_norm
      = (c.norm_kind == 1 && c.norm_tof) || (c.norm_kind == 2 && (c.chain_first == 2 || c.chain_second == 2));
  c.parse_tofsens = c.tof && !any_tof_norm && rng.coin(0.3);
  c.additive = rng.coin(0.6);
  c.zero_ends = rng.coin(0.4);
  c.use_subset_sens = rng.coin(0.65);
  c.supplied = rng.coin(0.35);
  c.prior = rng.coin(0.5);
  c.beta = static_cast<float>(rng.uniform(0.1, 2.));
  c.cache_disabled = rng.coin(0.25);
  c.basic_only = rng.coin(0.3);
  c.sym90 = rng.coin(0.75);
  c.sym180 = rng.coin(0.75);
  c.swap_seg = rng.coin(0.75);
  c.swap_s = rng.coin(0.75);
  c.shift_z = rng.coin(0.75);
  c.restrict_fov = rng.coin(0.8);
  c.actual_boundaries = rng.coin(0.15);
  static const std::vector<int> tl = { 1, 1, 2, 3 };
  c.tang_lors = rng.pick(tl);
  // storage mode of the objects under test
  const char* env = std::getenv("VERIF_C05_ALLOC");
  if (env && std::string(env) == "plain")
    c.alloc = 0;
  else if (C05_ASAN_BUILD && ctx.idx % 10 == 0)
    c.alloc = 0;
  else
    c.alloc = rng.coin() ? 1 : 2;
}

static std::vector<float>
rand_vec(vf::Rng& rng, int n, double lo, double hi)
{
  std::vector<float> v(n);
  for (auto& x : v)
    x = static_cast<float>(rng.uniform(lo, hi));
  return v;
}

// extract all rows of matrix m for the bins of geometry g (double, duplicates merged, planes outside the image dropped
// exactly as ProjMatrixElemsForOneBin::forward_project/back_project do)
static void
extract(Sparse& P, const ProjMatrixByBin& m, const Geo& g, const std::vector<BinRec>& bins, const World& w)
{
  P.rowptr.assign(1, 0);
  ProjMatrixElemsForOneBin row;
  std::vector<std::pair<int, double>> tmp;
  for (const BinRec& b : bins)
    {
      Bin bin(b.seg, b.view, b.ax, b.tang, b.tof);
      m.get_proj_matrix_elems_for_one_bin(row, bin);
      tmp.clear();
      for (auto it = row.begin(); it != row.end(); ++it)
        {
          const int z = it->coord1(), yy = it->coord2(), xx = it->coord3();
          if (z < w.z0 || z >= w.z0 + w.nz)
            continue;
          if (yy < w.y0 || yy >= w.y0 + w.ny || xx < w.x0 || xx >= w.x0 + w.nx)
            throw vf::Skip("matrix row addresses a voxel outside the transaxial image range");
          tmp.push_back({ ((z - w.z0) * w.ny + (yy - w.y0)) * w.nx + (xx - w.x0), static_cast<double>(it->get_value()) });
        }
      std::sort(tmp.begin(), tmp.end(), [](const std::pair<int, double>& p, const std::pair<int, double>& q) { return p.first < q.first; });
      int n = 0;
      for (size_t i = 0; i < tmp.size(); ++i)
        {
          if (i > 0 && tmp[i].first == tmp[i - 1].first)
            P.val.back() += tmp[i].second;
          else
            {
              P.col.push_back(tmp[i].first);
              P.val.push_back(tmp[i].second);
              ++n;
            }
        }
      P.max_row_nnz = std::max(P.max_row_nnz, static_cast<int>(tmp.size()));
      P.rowptr.push_back(static_cast<int>(P.col.size()));
    }
  (void)g;
}

static std::vector<double>
fwd(const Sparse& P, const std::vector<float>& x)
{
  std::vector<double> r(P.rowptr.size() - 1, 0.);
  for (size_t b = 0; b + 1 < P.rowptr.size(); ++b)
    {
      double s = 0;
      for (int k = P.rowptr[b]; k < P.rowptr[b + 1]; ++k)
        s += P.val[k] * static_cast<double>(x[P.col[k]]);
      r[b] = s;
    }
  return r;
}

static std::string
vox_name(const World& w, int j)
{
  const int x = j % w.nx, y = (j / w.nx) % w.ny, z = j / (w.nx * w.ny);
  return vf::fmt("voxel(z%d,y%d,x%d)", z + w.z0, y + w.y0, x + w.x0);
}

// compare a float image with reference +- band; returns index of first failure or -1
static int
first_bad(const std::vector<float>& got, const std::vector<double>& ref, const std::vector<double>& band)
{
  for (size_t j = 0; j < got.size(); ++j)
    if (!vf::close_enough(static_cast<double>(got[j]), ref[j], band[j]))
      return static_cast<int>(j);
  return -1;
}

static bool
same_bits(const std::vector<float>& a, const std::vector<float>& b)
{
  return a.size() == b.size() && (a.empty() || std::memcmp(a.data(), b.data(), a.size() * sizeof(float)) == 0);
}

struct SubRef // reference quantities of one subset (or of the full data)
{
  std::vector<double> g, g_band, gp, gp_band, s, s_band, s_alt, H, H_band, H_alt, H_alt_band, H_extra, H_alt_extra, H_tof0, H_tof0_band, s_tof0;
  double L1 = 0, L1_band = 0, L2 = 0, L2_band = 0;
  void init(int n)
  {
    for (auto* v : { &g, &g_band, &gp, &gp_band, &s, &s_band, &s_alt, &H, &H_band, &H_alt, &H_alt_band, &H_extra, &H_alt_extra, &H_tof0, &H_tof0_band, &s_tof0 })
      v->assign(n, 0.);
  }
  void add(const SubRef& o)
  {
    auto acc = [](std::vector<double>& a, const std::vector<double>& b) {
      for (size_t i = 0; i < a.size(); ++i)
        a[i] += b[i];
    };
    acc(g, o.g), acc(g_band, o.g_band), acc(gp, o.gp), acc(gp_band, o.gp_band), acc(s, o.s), acc(s_band, o.s_band);
    acc(s_alt, o.s_alt), acc(H, o.H), acc(H_band, o.H_band), acc(H_alt, o.H_alt), acc(H_alt_band, o.H_alt_band);
    acc(H_extra, o.H_extra), acc(H_alt_extra, o.H_alt_extra), acc(H_tof0, o.H_tof0), acc(H_tof0_band, o.H_tof0_band), acc(s_tof0, o.s_tof0);
    L1 += o.L1, L1_band += o.L1_band, L2 += o.L2, L2_band += o.L2_band;
  }
};

// ------------------------------------------------------------------------------------------------ the case
static void
run_case(Ctx& ctx)
{
  vf::Rng& rng = ctx.rng;
  World w;
  Cfg& c = w.c;
  gen_cfg(ctx, c);

  // ---- geometry
  shared_ptr<Scanner> sc;
  try
    {
      sc = vg::make_scanner(c.ss);
      w.pdiT = vg::make_pdi(sc, c.ps, &rng);
    }
  catch (const std::exception& e)
    {
      ctx.desc.add("cfg", c.desc());
      throw vf::Skip(std::string("geometry rejected: ") + e.what());
    }
  if (c.tof && !w.pdiT->is_tof_data())
    c.tof = false;
  w.pdi0 = c.tof ? w.pdiT->create_non_tof_clone() : w.pdiT;
  w.gT.init(w.pdiT);
  w.g0.init(w.pdi0);
  w.binsT = all_bins(w.gT);
  w.bins0 = all_bins(w.g0);
  const int pmaxseg = w.pdiT->get_max_segment_num();
  if (rng.coin(0.5))
    c.max_seg = static_cast<int>(rng.range(0, pmaxseg));
  w.maxseg_eff = c.max_seg < 0 ? pmaxseg : c.max_seg;
  const int nviews = w.pdiT->get_num_views();
  c.S = c.use_subset_sens ? static_cast<int>(rng.range(1, nviews)) : rng.pick(vg::divisors(nviews));
  if (rng.coin(0.15))
    c.S = 1;
  // VERIF_MODE=orders (memcheck stage): only the order matrix and the quantities of its subset
  const char* mode_env = std::getenv("VERIF_MODE");
  const bool orders_only = mode_env && std::string(mode_env) == "orders";
  const int s_order = static_cast<int>(rng.range(0, c.S - 1)), s_pen = static_cast<int>(rng.range(0, c.S - 1));
  ctx.desc.add("cfg", c.desc());
  ctx.desc.add("order_subset", s_order);
  ctx.heartbeat("generate");

  w.exam.reset(new ExamInfo(ImagingModality::PT));
  try
    {
      w.image.reset(new VoxelsOnCartesianGrid<float>(w.exam, *w.pdiT, c.zoom, CartesianCoordinate3D<float>(0.F, 0.F, 0.F),
                                                      CartesianCoordinate3D<int>(-1, c.nxy, c.nxy)));
    }
  catch (const std::exception& e)
    {
      throw vf::Skip(std::string("image rejected: ") + e.what());
    }
  {
    BasicCoordinate<3, int> mn, mx;
    if (!w.image->get_regular_range(mn, mx))
      throw vf::Skip("image not regular");
    w.z0 = mn[1], w.y0 = mn[2], w.x0 = mn[3];
    w.nz = mx[1] - mn[1] + 1, w.ny = mx[2] - mn[2] + 1, w.nx = mx[3] - mn[3] + 1;
    w.nvox = w.nz * w.ny * w.nx;
  }

  // ---- explicit system matrix (same configuration as the projector pair of the objective function)
  ctx.heartbeat("extract-P");
  shared_ptr<ProjMatrixByBinUsingRayTracing> refM = make_matrix(c), refM0;
  Sparse P, P0;
  try
    {
      refM->set_up(w.pdiT, w.image);
    }
  catch (const std::exception& e)
    {
      throw vf::Skip(std::string("matrix set_up rejected: ") + e.what());
    }
  extract(P, *refM, w.gT, w.binsT, w);

  // ---- normalisation components
  auto gen_norm = [&](NormComp& n, int kind) {
    n.trivial = kind == 0;
    n.tof = kind == 2;
    if (n.trivial)
      return;
    const Geo& g = n.tof ? w.gT : w.g0;
    n.N = rand_vec(rng, g.nbins, 0.5, 2.);
    n.pd = make_pd(w.exam, g, n.N);
  };
  if (c.norm_kind == 1)
    {
      w.norms.resize(1);
      gen_norm(w.norms[0], c.norm_tof ? 2 : 1);
    }
  else if (c.norm_kind == 2)
    {
      w.norms.resize(2);
      gen_norm(w.norms[0], c.chain_first);
      gen_norm(w.norms[1], c.chain_second);
    }
  bool any_tof_norm = false;
  for (auto& n : w.norms)
    any_tof_norm = any_tof_norm || (!n.trivial && n.tof);
  w.tofsens = c.tof && (any_tof_norm || c.parse_tofsens);
  w.sens_nontof = c.tof && !w.tofsens;
  if (w.sens_nontof)
    {
      refM0 = make_matrix(c);
      try
        {
          refM0->set_up(w.pdi0, w.image);
        }
      catch (const std::exception& e)
        {
          throw vf::Skip(std::string("non-TOF matrix set_up rejected: ") + e.what());
        }
      extract(P0, *refM0, w.g0, w.bins0, w);
    }

  // ---- images, additive term, data
  const double base = std::pow(10., rng.uniform(-3., 0.));
  w.lam1 = rand_vec(rng, w.nvox, 0.5 * base, 2. * base);
  w.lam2 = rand_vec(rng, w.nvox, 0.5 * base, 2. * base);
  w.vin = rand_vec(rng, w.nvox, 0., base);
  if (rng.coin(0.3))
    for (auto& x : w.vin)
      if (rng.coin(0.3))
        x = 0.f;
  w.out0 = rand_vec(rng, w.nvox, -1., 1.);
  const std::vector<double> F1 = fwd(P, w.lam1), F2 = fwd(P, w.lam2), Fv = fwd(P, w.vin);
  double meanF = 0;
  for (double f : F1)
    meanF += f;
  meanF /= std::max<size_t>(1, F1.size());
  w.a.assign(w.gT.nbins, 0.f);
  if (c.additive)
    {
      const double alevel = std::max(meanF, 1e-3) * std::pow(10., rng.uniform(-2., 0.5));
      for (auto& x : w.a)
        x = static_cast<float>(rng.uniform(0.2, 1.5) * alevel);
      w.a_pd = make_pd(w.exam, w.gT, w.a);
    }
  std::vector<double> eff(w.gT.nbins);
  for (int b = 0; b < w.gT.nbins; ++b)
    eff[b] = w.eff_T(b);
  w.y.assign(w.gT.nbins, 0.f);
  long moved = 0, nonzero_y = 0;
  {
    // scale such that the mean count is somewhere between 0.3 and 30
    const double target_mean = std::pow(10., rng.uniform(-0.5, 1.5));
    double mean_ybar = 0;
    for (int b = 0; b < w.gT.nbins; ++b)
      mean_ybar += eff[b] * (F1[b] + w.a[b]);
    mean_ybar /= w.gT.nbins;
    const double scale = mean_ybar > 0 ? target_mean / mean_ybar : 1.;
    for (int b = 0; b < w.gT.nbins; ++b)
      {
        const double d1 = F1[b] + w.a[b], d2 = F2[b] + w.a[b];
        const double mean = scale * rng.uniform(0.3, 2.) * eff[b] * d1;
        long cnt = std::min<long>(rng.poisson(mean), 50000);
        // keep away from the documented quotient cap (1e4) of divide_and_truncate / accumulate_loglikelihood by a factor 20
        const double dmin = std::min(std::min(d1, d2), std::min(eff[b] * d1, eff[b] * d2));
        if (cnt > 0 && static_cast<double>(cnt) > 500. * dmin)
          {
            cnt = 0;
            ++moved;
          }
        w.y[b] = static_cast<float>(cnt);
        if (cnt > 0)
          ++nonzero_y;
      }
  }
  w.y_pd = make_pd(w.exam, w.gT, w.y);
  ctx.count("counts_moved_away_from_quotient_cap", moved);

  // ---- which bins take part, and in which subset
  const DataSymmetriesForBins* symT = refM->get_symmetries_ptr();
  const DataSymmetriesForBins* sym0 = w.sens_nontof ? refM0->get_symmetries_ptr() : symT;
  auto subset_of = [&](const DataSymmetriesForBins* sym, const BinRec& b, const Geo& g) {
    ViewSegmentNumbers vs(b.view, b.seg);
    sym->find_basic_view_segment_numbers(vs);
    return (vs.view_num() - g.min_view) % c.S;
  };
  auto end_plane = [&](const BinRec& b, const Geo& g) {
    const int si = b.seg - g.min_seg;
    return b.seg == 0 && (b.ax == g.min_ax[si] || b.ax == g.min_ax[si] + g.nax[si] - 1);
  };
  std::vector<int> subT(w.gT.nbins), sub0(w.g0.nbins);
  std::vector<char> inT(w.gT.nbins), in0(w.g0.nbins), endT(w.gT.nbins);
  for (int b = 0; b < w.gT.nbins; ++b)
    {
      subT[b] = subset_of(symT, w.binsT[b], w.gT);
      endT[b] = c.zero_ends && end_plane(w.binsT[b], w.gT);
      inT[b] = std::abs(w.binsT[b].seg) <= w.maxseg_eff;
    }
  for (int b = 0; b < w.g0.nbins; ++b)
    {
      sub0[b] = subset_of(sym0, w.bins0[b], w.g0);
      in0[b] = std::abs(w.bins0[b].seg) <= w.maxseg_eff && !(c.zero_ends && end_plane(w.bins0[b], w.g0));
    }

  // ---- reference quantities per subset
  const int NR = P.max_row_nnz + 10;
  std::vector<SubRef> ref(c.S);
  for (auto& r : ref)
    r.init(w.nvox);
  std::vector<std::vector<int>> cnt(c.S, std::vector<int>(w.nvox, 0));
  // Hessian numerator truncation (documented in divide_and_truncate): per viewgram threshold max(y Fv)*1e-6
  std::map<std::array<int, 3>, double> vg_max, vg_max_alt; // (seg,tof,view) -> max over the viewgram of y*Fv
  for (int b = 0; b < w.gT.nbins; ++b)
    {
      if (!inT[b])
        continue;
      const BinRec& br = w.binsT[b];
      const double num = static_cast<double>(w.y[b]) * Fv[b];
      auto& m_alt = vg_max_alt[{ br.seg, br.tof, br.view }];
      m_alt = std::max(m_alt, num);
      auto& m = vg_max[{ br.seg, br.tof, br.view }];
      m = std::max(m, endT[b] ? 0. : num);
    }
  long guard_bins = 0;
  for (int b = 0; b < w.gT.nbins; ++b)
    {
      if (!inT[b])
        continue;
      SubRef& r = ref[subT[b]];
      const BinRec& br = w.binsT[b];
      const bool dropped = endT[b]; // y, a and efficiency are zeroed there: the bin leaves the objective function
      const double yb = dropped ? 0. : w.y[b], n = dropped ? 0. : eff[b];
      const double d1 = F1[b] + (dropped ? 0. : w.a[b]), d2 = F2[b] + (dropped ? 0. : w.a[b]);
      const double q = yb > 0 ? yb / d1 : 0.;
      const double relb = 8. * (P.rowptr[b + 1] - P.rowptr[b] + 10) * vf::EPS32;
      // value
      {
        const double yb1 = n * d1, yb2 = n * d2;
        if (yb > 0)
          {
            r.L1 += yb * std::log(yb1) - yb1;
            r.L2 += yb * std::log(yb2) - yb2;
          }
        else
          {
            r.L1 -= yb1;
            r.L2 -= yb2;
          }
        r.L1_band += (yb + yb1) * relb;
        r.L2_band += (yb + yb2) * relb;
      }
      // Hessian term; the statement's version drops zeroed end planes, the alternative keeps them
      const double dd = F1[b] + w.a[b];
      const double num_alt = static_cast<double>(w.y[b]) * Fv[b];
      auto hterm = [&](double num, double den, double vmax, double& h, double& extra) {
        h = 0;
        extra = 0;
        if (num <= 0)
          return;
        const double T = vmax * 1e-6;
        const double full = num / (den * den);
        if (num > T * 1.001)
          h = full;
        else if (num >= T * 0.999)
          {
            h = full;
            extra = full; // either kept or truncated to 0: both accepted
            ++guard_bins;
          }
      };
      double h = 0, hx = 0, h_alt = 0, hx_alt = 0;
      hterm(dropped ? 0. : num_alt, d1, vg_max[{ br.seg, br.tof, br.view }], h, hx);
      hterm(num_alt, dd, vg_max_alt[{ br.seg, br.tof, br.view }], h_alt, hx_alt);
      for (int k = P.rowptr[b]; k < P.rowptr[b + 1]; ++k)
        {
          const int j = P.col[k];
          const double p = P.val[k];
          ++cnt[subT[b]][j];
          r.g[j] += p * (q - n);
          r.g_band[j] += p * (q + n);
          r.gp[j] += p * q;
          r.gp_band[j] += p * q;
          if (!w.sens_nontof)
            {
              r.s[j] += p * n;
              r.s_band[j] += p * n;
            }
          r.H[j] -= p * h;
          r.H_band[j] += p * h;
          r.H_alt[j] -= p * h_alt;
          r.H_alt_band[j] += p * h_alt;
          r.H_extra[j] += p * hx; // guard zone: the term may legitimately have been truncated to 0
          r.H_alt_extra[j] += p * hx_alt;
          if (br.tof == 0)
            {
              // diagnosis only: every TOF position processed with the data/model of timing position 0
              r.s_tof0[j] += w.gT.ntof * p * n;
              r.H_tof0[j] -= w.gT.ntof * p * h_alt;
              r.H_tof0_band[j] += w.gT.ntof * p * (h_alt + hx_alt / (8 * vf::EPS32));
            }
        }
    }
  std::vector<std::vector<int>> cnt0(c.S, std::vector<int>(w.nvox, 0));
  if (w.sens_nontof)
    {
      // documented: TOF data, sensitivity through the non-TOF projector.  s uses the subsets of the data (statement),
      // s_alt the subsets that the non-TOF symmetries induce.
      std::vector<double> eff0(w.g0.nbins);
      for (int b = 0; b < w.g0.nbins; ++b)
        eff0[b] = w.eff_0(b);
      // subset of the *data* for a non-TOF bin: from the TOF symmetries
      for (int b = 0; b < w.g0.nbins; ++b)
        {
          if (!in0[b])
            continue;
          const int s_data = subset_of(symT, w.bins0[b], w.g0);
          for (int k = P0.rowptr[b]; k < P0.rowptr[b + 1]; ++k)
            {
              const int j = P0.col[k];
              ref[s_data].s[j] += P0.val[k] * eff0[b];
              ref[s_data].s_band[j] += P0.val[k] * eff0[b];
              ++cnt0[s_data][j];
              ref[sub0[b]].s_alt[j] += P0.val[k] * eff0[b];
            }
        }
    }
  // turn the absolute sums into bands
  for (int s = 0; s < c.S; ++s)
    for (int j = 0; j < w.nvox; ++j)
      {
        SubRef& r = ref[s];
        const int m = cnt[s][j];
        r.g_band[j] = vf::band32(NR + m, r.g_band[j]);
        r.gp_band[j] = vf::band32(NR + m, r.gp_band[j]);
        r.s_band[j] = vf::band32(8 + (w.sens_nontof ? cnt0[s][j] : m), r.s_band[j]);
        r.H_band[j] = vf::band32(3 * NR + m, r.H_band[j]) + 1.001 * r.H_extra[j];
        r.H_alt_band[j] = vf::band32(3 * NR + m, r.H_alt_band[j]) + 1.001 * r.H_alt_extra[j];
        r.H_tof0_band[j] = vf::band32(3 * NR + m, r.H_tof0_band[j]);
      }
  SubRef full;
  full.init(w.nvox);
  for (auto& r : ref)
    full.add(r);

  const long nnzP = P.nnz();
  ctx.count("bins_in_P", w.gT.nbins + (w.sens_nontof ? w.g0.nbins : 0));
  ctx.count("nonzeros_in_P", nnzP + P0.nnz());
  ctx.count("hessian_guard_zone_bins", guard_bins);
  long active_nonzero = 0;
  for (int b = 0; b < w.gT.nbins; ++b)
    if (inT[b] && !endT[b] && w.y[b] > 0)
      ++active_nonzero;

  // ---- objects under test
  const std::string tmp = ctx.tmpdir.empty() ? std::string(".") : ctx.tmpdir;
  w.sens_pattern = tmp + vf::fmt("/c05_%ld_subsens_%%d.hv", ctx.idx);
  w.sens_file = tmp + vf::fmt("/c05_%ld_sens.hv", ctx.idx);
  struct Cleanup
  {
    std::vector<std::string> files;
    ~Cleanup()
    {
      for (auto& f : files)
        ::unlink(f.c_str());
    }
  } cleanup;
  if (c.supplied)
    {
      for (int s = 0; s < (c.use_subset_sens ? c.S : 1); ++s)
        {
          std::string hv = c.use_subset_sens ? vf::fmt(w.sens_pattern.c_str(), s) : w.sens_file;
          cleanup.files.push_back(hv);
          cleanup.files.push_back(hv.substr(0, hv.size() - 2) + "v");
          cleanup.files.push_back(hv.substr(0, hv.size() - 2) + "ahv");
        }
    }

  ctx.heartbeat("set_up");
  Holder writer, mainh;
  try
    {
      if (c.supplied)
        {
          build_objfn(writer, w, c.S, SENS_COMPUTE_AND_WRITE, false);
          build_objfn(mainh, w, c.S, SENS_READ, c.prior);
        }
      else
        build_objfn(mainh, w, c.S, SENS_COMPUTE, c.prior);
    }
  catch (const std::exception& e)
    {
      throw vf::Skip(std::string("set_up rejected: ") + e.what());
    }
  ObjFn& obj = *mainh.obj;
  // the case exercises the property from here on (rule: >= 50 non-zeros in the explicit matrix and non-zero counts in bins
  // that take part)
  ctx.nontrivial = nnzP >= 50 && active_nonzero > 0;
  std::set<std::string> reported; // defect-specific keys are reported once per case and the case continues
  auto specific = [&](const std::string& key, const std::string& wit) {
    if (reported.insert(key).second)
      ctx.violation(key, wit + " [" + std::string(c.tof ? (w.tofsens ? "tof+tofsens" : "tof") : "nontof") + "]");
  };

  // sensitivity comparison with attribution of the two sensitivity defects found on the unchanged tree (final report):
  // returns 0 = agrees, 1 = disagrees in the way of an attributed defect (reported once, case continues), 2 = disagrees
  const bool tof_mult_case = w.tofsens && c.zero_ends && c.norm_kind == 0;
  bool sens_defect_seen = false;
  bool hess_defect_seen = false; // a Hessian product of the first object was attributed to a specific defect key
  auto check_sens = [&](const std::vector<float>& got, const std::vector<double>& sref, const std::vector<double>& sband,
                        const std::vector<double>& salt, const std::vector<double>& stof0, double scale, bool try_alt,
                        const std::string& what, int& jbad) -> int {
    jbad = first_bad(got, sref, sband);
    if (jbad < 0)
      return 0;
    const int j = jbad;
    std::vector<double> alt(w.nvox), altband(w.nvox);
    if (try_alt)
      {
        for (int v = 0; v < w.nvox; ++v)
          alt[v] = salt[v] * scale, altband[v] = vf::band32(8 + w.g0.nbins, std::fabs(alt[v]));
        if (first_bad(got, alt, altband) < 0)
          {
            sens_defect_seen = true;
            specific("tof-data-nontof-sensitivity:subset-sensitivity-follows-nontof-symmetry-subsets-not-the-data-subsets",
                     what
                         + vf::fmt(" %s: STIR %.9g; F0' eff over the views of this subset of the TOF data = %.9g (band %.3g); STIR "
                                   "equals the sum over the view groups that the non-TOF symmetries assign to the subset (%.9g)",
                                   vox_name(w, j).c_str(), got[j], sref[j], sband[j], alt[j]));
            return 1;
          }
      }
    if (tof_mult_case)
      {
        for (int v = 0; v < w.nvox; ++v)
          alt[v] = stof0[v] * scale, altband[v] = vf::band32(8 + w.gT.nbins, std::fabs(alt[v]));
        if (first_bad(got, alt, altband) < 0)
          {
            sens_defect_seen = true;
            specific("tof-sensitivity:trivial-normalisation+zero_seg0_end_planes:every-timing-position-backprojected-as-position-0",
                     what
                         + vf::fmt(" %s: STIR %.9g; F' eff over all %d TOF positions = %.9g (band %.3g); STIR equals %d x the back "
                                   "projection of timing position 0 alone (%.9g)",
                                   vox_name(w, j).c_str(), got[j], w.gT.ntof, sref[j], sband[j], w.gT.ntof, alt[j]));
            return 1;
          }
      }
    return 2;
  };

  const shared_ptr<Target> L1 = w.img_from(w.lam1), L2 = w.img_from(w.lam2), V = w.img_from(w.vin);
  const std::string tag = std::string(c.tof ? (w.tofsens ? "tof+tofsens" : "tof") : "nontof");
  auto fail = [&](const std::string& key, const std::string& wit) { ctx.violation(key, wit + " [" + tag + "]"); };

  // ---- all subsets: gradient (first: see DESIGN §7 #2), gradient+sensitivity, sensitivity, values, Hessian product
  ctx.heartbeat("subset-quantities");
  std::vector<std::vector<float>> G(c.S), GP(c.S), SS(c.S), HH(c.S);
  std::vector<double> V1(c.S), V2(c.S);
  for (int s = 0; s < c.S; ++s)
    {
      if (orders_only && s != s_order)
        continue;
      const SubRef& r = ref[s];
      shared_ptr<Target> g(w.image->get_empty_copy());
      std::fill(g->begin_all(), g->end_all(), 7.f); // must be overwritten
      obj.compute_sub_gradient_without_penalty(*g, *L1, s);
      G[s] = World::vec_from(*g);
      int j = first_bad(G[s], r.g, r.g_band);
      if (j >= 0)
        return fail("subset-gradient-differs-from-reference",
                    vf::fmt("subset %d/%d %s: STIR %.9g, F'(y/(F lambda+a)-eff) = %.9g, band %.3g", s, c.S, vox_name(w, j).c_str(), G[s][j],
                            r.g[j], r.g_band[j]));
      std::fill(g->begin_all(), g->end_all(), -3.f);
      obj.compute_sub_gradient_without_penalty_plus_sensitivity(*g, *L1, s);
      GP[s] = World::vec_from(*g);
      j = first_bad(GP[s], r.gp, r.gp_band);
      if (j >= 0)
        return fail("subset-gradient-plus-sensitivity-differs-from-reference",
                    vf::fmt("subset %d/%d %s: STIR %.9g, F'(y/(F lambda+a)) = %.9g, band %.3g", s, c.S, vox_name(w, j).c_str(), GP[s][j],
                            r.gp[j], r.gp_band[j]));
      ctx.count("gradient_voxels_checked", 2L * w.nvox);

      // sensitivity
      SS[s] = World::vec_from(obj.get_subset_sensitivity(s));
      {
        std::vector<double> sref(w.nvox), sband(w.nvox);
        for (int v = 0; v < w.nvox; ++v)
          {
            sref[v] = c.use_subset_sens ? r.s[v] : full.s[v] / c.S;
            sband[v] = c.use_subset_sens ? r.s_band[v] : full.s_band[v] / c.S + 4 * vf::EPS32 * full.s[v] / c.S;
          }
        const int rc = check_sens(SS[s], sref, sband, r.s_alt, c.use_subset_sens ? r.s_tof0 : full.s_tof0,
                                  c.use_subset_sens ? 1. : 1. / c.S, w.sens_nontof && c.use_subset_sens,
                                  vf::fmt("subset sensitivity %d/%d", s, c.S), j);
        if (rc == 2)
          return fail(std::string("subset-sensitivity-differs-from-reference") + (c.supplied ? ":supplied" : ""),
                      vf::fmt("subset %d/%d %s: STIR %.9g, F' eff = %.9g, band %.3g", s, c.S, vox_name(w, j).c_str(), SS[s][j], sref[j],
                              sband[j]));
        if (rc == 0)
          ctx.count("sensitivity_voxels_checked", w.nvox);
        // 'gradient plus sensitivity' exceeds the gradient by exactly the sensitivity
        if (c.use_subset_sens && !w.sens_nontof && !sens_defect_seen)
          for (int v = 0; v < w.nvox; ++v)
            {
              const double diff = static_cast<double>(GP[s][v]) - static_cast<double>(G[s][v]);
              const double band = r.g_band[v] + r.gp_band[v] + r.s_band[v];
              if (!vf::close_enough(diff, static_cast<double>(SS[s][v]), band))
                return fail("gradient-plus-sensitivity-minus-gradient-is-not-the-sensitivity",
                            vf::fmt("subset %d/%d %s: (grad+sens) %.9g - grad %.9g = %.9g, subset sensitivity %.9g, band %.3g", s, c.S,
                                    vox_name(w, v).c_str(), GP[s][v], G[s][v], diff, SS[s][v], band));
            }
        if (c.supplied)
          {
            // what was supplied is what the writer computed
            const std::vector<float> ws = World::vec_from(writer.obj->get_subset_sensitivity(s));
            if (!same_bits(ws, SS[s]))
              return fail("supplied-sensitivity-not-used-as-supplied", vf::fmt("subset %d/%d", s, c.S));
          }
      }

      // value
      V1[s] = obj.compute_objective_function_without_penalty(*L1, s);
      V2[s] = obj.compute_objective_function_without_penalty(*L2, s);
      if (!vf::close_enough(V1[s], r.L1, r.L1_band) || !vf::close_enough(V2[s], r.L2, r.L2_band))
        return fail("subset-value-differs-from-reference",
                    vf::fmt("subset %d/%d: STIR L(l1)=%.12g ref %.12g band %.3g; L(l2)=%.12g ref %.12g band %.3g", s, c.S, V1[s], r.L1,
                            r.L1_band, V2[s], r.L2, r.L2_band));
      if (!vf::close_enough(V1[s] - V2[s], r.L1 - r.L2, r.L1_band + r.L2_band))
        return fail("subset-value-difference-differs-from-reference",
                    vf::fmt("subset %d/%d: STIR L(l1)-L(l2)=%.12g ref %.12g band %.3g", s, c.S, V1[s] - V2[s], r.L1 - r.L2,
                            r.L1_band + r.L2_band));
      ctx.count("value_checks", 3);

      // Hessian times vector (accumulates into the output)
      shared_ptr<Target> out = w.img_from(w.out0);
      if (obj.accumulate_sub_Hessian_times_input_without_penalty(*out, *L1, *V, s) != Succeeded::yes)
        return fail("hessian-times-input-returned-no", vf::fmt("subset %d/%d", s, c.S));
      HH[s] = World::vec_from(*out);
      {
        std::vector<double> href(w.nvox), hband(w.nvox), halt(w.nvox), haltband(w.nvox);
        for (int v = 0; v < w.nvox; ++v)
          {
            href[v] = w.out0[v] + r.H[v];
            hband[v] = r.H_band[v] + 4 * vf::EPS32 * std::fabs(w.out0[v]);
            halt[v] = w.out0[v] + r.H_alt[v];
            haltband[v] = r.H_alt_band[v] + 4 * vf::EPS32 * std::fabs(w.out0[v]);
          }
        j = first_bad(HH[s], href, hband);
        if (j >= 0)
          {
            std::vector<double> ht0(w.nvox), ht0band(w.nvox);
            for (int v = 0; v < w.nvox; ++v)
              {
                ht0[v] = w.out0[v] + r.H_tof0[v];
                ht0band[v] = r.H_tof0_band[v] + 4 * vf::EPS32 * std::fabs(w.out0[v]);
              }
            hess_defect_seen = true;
            if (c.zero_ends && first_bad(HH[s], halt, haltband) < 0)
              specific("hessian-times-input:zero_seg0_end_planes-ignored",
                       vf::fmt("subset %d/%d %s: out0 + H v: STIR %.9g; with the end planes of segment 0 removed (as value and "
                               "gradient do) %.9g band %.3g; STIR equals the product that keeps them (%.9g)",
                               s, c.S, vox_name(w, j).c_str(), HH[s][j], href[j], hband[j], halt[j]));
            else if (c.tof && first_bad(HH[s], ht0, ht0band) < 0)
              specific("hessian-times-input:tof-data-every-timing-position-processed-as-position-0",
                       vf::fmt("subset %d/%d %s: out0 + H v: STIR %.9g; -F'[y Fv/(F lambda+a)^2] over all %d TOF positions %.9g band "
                               "%.3g; STIR equals %d x the contribution of timing position 0 alone (%.9g)",
                               s, c.S, vox_name(w, j).c_str(), HH[s][j], href[j], hband[j], w.gT.ntof, w.gT.ntof, ht0[j]));
            else
              return fail("hessian-times-input-differs-from-reference",
                          vf::fmt("subset %d/%d %s: out0 + H v: STIR %.9g, reference %.9g, band %.3g (out0 %.9g)", s, c.S,
                                  vox_name(w, j).c_str(), HH[s][j], href[j], hband[j], w.out0[j]));
          }
        else
          ctx.count("hessian_checks", w.nvox);
      }
    }

  // ---- sum over subsets = full-data counterpart (public full-data API of the same object, and the reference)
  ctx.heartbeat("full-quantities");
  std::vector<float> gf, sf; // full gradient and total sensitivity of the first object (also used by the history clause)
  if (!orders_only)
  {
    shared_ptr<Target> g(w.image->get_empty_copy());
    obj.compute_gradient_without_penalty(*g, *L1);
    gf = World::vec_from(*g);
    std::vector<double> band(w.nvox);
    for (int v = 0; v < w.nvox; ++v)
      band[v] = full.g_band[v] + 8. * (c.S + 2) * vf::EPS32 * full.g_band[v];
    int j = first_bad(gf, full.g, band);
    if (j >= 0)
      return fail("full-gradient-differs-from-reference",
                  vf::fmt("%s: STIR %.9g, reference %.9g, band %.3g, %d subsets", vox_name(w, j).c_str(), gf[j], full.g[j], band[j], c.S));
    for (int v = 0; v < w.nvox; ++v)
      {
        double sum = 0, sb = 0;
        for (int s = 0; s < c.S; ++s)
          {
            sum += G[s][v];
            sb += 4 * vf::EPS32 * std::fabs(G[s][v]);
          }
        if (!vf::close_enough(static_cast<double>(gf[v]), sum, sb * (c.S + 1)))
          return fail("full-gradient-is-not-the-sum-of-subset-gradients",
                      vf::fmt("%s: full %.9g, sum of %d subset gradients %.9g", vox_name(w, v).c_str(), gf[v], c.S, sum));
      }
    ctx.count("gradient_voxels_checked", w.nvox);
    const double vfull = obj.compute_objective_function_without_penalty(*L1);
    double vs = 0;
    for (int s = 0; s < c.S; ++s)
      vs += V1[s];
    if (!vf::close_enough(vfull, vs, 1e-12 * std::fabs(vs)) || !vf::close_enough(vfull, full.L1, full.L1_band))
      return fail("full-value-differs-from-sum-of-subsets-or-reference",
                  vf::fmt("full %.12g, sum over %d subsets %.12g, reference %.12g band %.3g", vfull, c.S, vs, full.L1, full.L1_band));
    ctx.count("value_checks", 2);
    sf = World::vec_from(obj.get_sensitivity());
    {
      // the total does not depend on how the views are grouped into subsets: no alternative for the non-TOF grouping
      const int rc = check_sens(sf, full.s, full.s_band, full.s, full.s_tof0, 1., false, "total sensitivity", j);
      if (rc == 2)
        return fail("total-sensitivity-differs-from-reference",
                    vf::fmt("%s: STIR %.9g, F' eff = %.9g, band %.3g", vox_name(w, j).c_str(), sf[j], full.s[j], full.s_band[j]));
      if (rc == 0)
        ctx.count("sensitivity_voxels_checked", w.nvox);
    }
    shared_ptr<Target> out = w.img_from(w.out0);
    if (obj.accumulate_Hessian_times_input_without_penalty(*out, *L1, *V) != Succeeded::yes)
      return fail("hessian-times-input-returned-no", "full data");
    const std::vector<float> hf = World::vec_from(*out);
    for (int v = 0; v < w.nvox; ++v)
      {
        double sum = w.out0[v], sb = 4 * vf::EPS32 * std::fabs(w.out0[v]);
        for (int s = 0; s < c.S; ++s)
          {
            const double term = static_cast<double>(HH[s][v]) - static_cast<double>(w.out0[v]);
            sum += term;
            sb += 8 * vf::EPS32 * (std::fabs(HH[s][v]) + std::fabs(w.out0[v]));
          }
        if (!vf::close_enough(static_cast<double>(hf[v]), sum, sb * (c.S + 1)))
          return fail("full-hessian-product-is-not-the-sum-of-subset-products",
                      vf::fmt("%s: full %.9g, out0 + sum over %d subsets %.9g", vox_name(w, v).c_str(), hf[v], c.S, sum));
      }
    ctx.count("hessian_checks", w.nvox);
  }

  // ---- single-subset object: the full-data counterpart proper
  if (c.S > 1 && !orders_only)
    {
      ctx.heartbeat("one-subset-object");
      Holder one;
      bool ok = true;
      try
        {
          World w1 = w; // same data, no files involved
          w1.c.supplied = false;
          build_objfn(one, w1, 1, SENS_COMPUTE, false);
        }
      catch (const std::exception&)
        {
          ok = false;
        }
      if (ok)
        {
          shared_ptr<Target> g(w.image->get_empty_copy());
          one.obj->compute_sub_gradient_without_penalty(*g, *L1, 0);
          const std::vector<float> g1 = World::vec_from(*g);
          // with one subset the back projection is a single accumulation: same band as the sum of the subset bands
          int j = first_bad(g1, full.g, full.g_band);
          if (j >= 0)
            return fail("one-subset-gradient-differs-from-sum-over-subsets",
                        vf::fmt("%s: 1 subset %.9g, reference %.9g band %.3g", vox_name(w, j).c_str(), g1[j], full.g[j], full.g_band[j]));
          const double v1 = one.obj->compute_objective_function_without_penalty(*L1, 0);
          if (!vf::close_enough(v1, full.L1, full.L1_band))
            return fail("one-subset-value-differs-from-sum-over-subsets", vf::fmt("1 subset %.12g, reference %.12g", v1, full.L1));
          const std::vector<float> s1 = World::vec_from(one.obj->get_subset_sensitivity(0));
          if (check_sens(s1, full.s, full.s_band, full.s, full.s_tof0, 1., false, "sensitivity of the one-subset object", j) == 2)
            return fail("one-subset-sensitivity-differs-from-sum-over-subsets",
                        vf::fmt("%s: 1 subset %.9g, reference %.9g band %.3g", vox_name(w, j).c_str(), s1[j], full.s[j], full.s_band[j]));
          ctx.count("one_subset_objects_checked");
        }
    }

  // ---- penalised = unpenalised - prior share (the prior itself is C09's business: a second, identical prior is the oracle)
  double pen_value = 0;          // penalised value / gradient of subset s_pen of the first object (history clause)
  std::vector<float> pen_grad;
  if (c.prior && !orders_only)
    {
      ctx.heartbeat("penalised");
      QuadraticPrior<float> pr(false, c.beta);
      shared_ptr<const Target> tgt(w.image->clone());
      if (pr.set_up(tgt) != Succeeded::yes)
        throw vf::Skip("prior set_up failed");
      shared_ptr<Target> pg(w.image->get_empty_copy());
      pr.compute_gradient(*pg, *L1);
      const std::vector<float> pgv = World::vec_from(*pg);
      const double pval = pr.compute_value(*L1);
      shared_ptr<Target> ph(w.image->get_empty_copy());
      pr.accumulate_Hessian_times_input(*ph, *L1, *V);
      const std::vector<float> phv = World::vec_from(*ph);
      const int s = s_pen;
      // value
      const double pv = obj.compute_objective_function(*L1, s);
      pen_value = pv;
      const double pv_ref = V1[s] - pval / c.S;
      if (!vf::close_enough(pv, pv_ref, 1e-12 * (std::fabs(V1[s]) + std::fabs(pval))))
        return fail("penalised-subset-value-is-not-unpenalised-minus-prior-share",
                    vf::fmt("subset %d/%d: %.12g vs %.12g - %.12g/%d", s, c.S, pv, V1[s], pval, c.S));
      double vs = 0;
      for (int t = 0; t < c.S; ++t)
        vs += V1[t];
      const double pvf = obj.compute_objective_function(*L1);
      if (!vf::close_enough(pvf, vs - pval, 1e-12 * (std::fabs(vs) + std::fabs(pval))))
        return fail("penalised-value-is-not-unpenalised-minus-prior", vf::fmt("%.12g vs %.12g - %.12g", pvf, vs, pval));
      ctx.count("value_checks", 2);
      // gradient
      shared_ptr<Target> g(w.image->get_empty_copy());
      obj.compute_sub_gradient(*g, *L1, s);
      const std::vector<float> gv = World::vec_from(*g);
      pen_grad = gv;
      for (int v = 0; v < w.nvox; ++v)
        {
          const double e = static_cast<double>(G[s][v]) - static_cast<double>(pgv[v]) / c.S;
          if (!vf::close_enough(static_cast<double>(gv[v]), e, 4 * vf::EPS32 * (std::fabs(G[s][v]) + std::fabs(pgv[v]) / c.S)))
            return fail("penalised-subset-gradient-is-not-unpenalised-minus-prior-share",
                        vf::fmt("subset %d/%d %s: %.9g vs %.9g - %.9g/%d", s, c.S, vox_name(w, v).c_str(), gv[v], G[s][v], pgv[v], c.S));
        }
      ctx.count("gradient_voxels_checked", w.nvox);
      // Hessian product: out0 + H v - (1/S) H_prior v
      shared_ptr<Target> out = w.img_from(w.out0);
      if (obj.accumulate_sub_Hessian_times_input(*out, *L1, *V, s) != Succeeded::yes)
        return fail("hessian-times-input-returned-no", "penalised");
      const std::vector<float> hv = World::vec_from(*out);
      int bad = -1;
      for (int v = 0; v < w.nvox && bad < 0; ++v)
        {
          const double e = static_cast<double>(HH[s][v]) - static_cast<double>(phv[v]) / c.S;
          if (!vf::close_enough(static_cast<double>(hv[v]), e, 8 * vf::EPS32 * (std::fabs(HH[s][v]) + std::fabs(phv[v]) / c.S)))
            bad = v;
        }
      if (bad >= 0)
        {
          // does STIR apply the prior's Hessian to the accumulated *output* instead of the input?
          shared_ptr<Target> acc = w.img_from(HH[s]);
          shared_ptr<Target> ph2(w.image->get_empty_copy());
          pr.accumulate_Hessian_times_input(*ph2, *L1, *acc);
          const std::vector<float> ph2v = World::vec_from(*ph2);
          bool matches_output = true;
          for (int v = 0; v < w.nvox; ++v)
            {
              const double e = static_cast<double>(HH[s][v]) - static_cast<double>(ph2v[v]) / c.S;
              if (!vf::close_enough(static_cast<double>(hv[v]), e, 8 * vf::EPS32 * (std::fabs(HH[s][v]) + std::fabs(ph2v[v]) / c.S)))
                matches_output = false;
            }
          const int v = bad;
          if (matches_output)
            specific("penalised-hessian-times-input:prior-hessian-applied-to-output-instead-of-input",
                        vf::fmt("subset %d/%d %s: STIR %.9g; (out0 + H v) %.9g - (H_prior v) %.9g / %d = %.9g; STIR equals (out0 + H v) - "
                                "H_prior(out0 + H v)/%d",
                                s, c.S, vox_name(w, v).c_str(), hv[v], HH[s][v], phv[v], c.S,
                                static_cast<double>(HH[s][v]) - static_cast<double>(phv[v]) / c.S, c.S));
          else
            return fail("penalised-hessian-times-input-is-not-unpenalised-minus-prior-share",
                      vf::fmt("subset %d/%d %s: %.9g vs %.9g - %.9g/%d", s, c.S, vox_name(w, v).c_str(), hv[v], HH[s][v], phv[v], c.S));
        }
      else
        ctx.count("hessian_checks", w.nvox);
      // full-data penalised Hessian product: out0 + sum over all subsets of H_s v, minus the WHOLE prior's H_prior v
      // ("each quantity summed over all subsets equals its full-data counterpart", "penalised = unpenalised minus the prior's share")
      {
        shared_ptr<Target> outf = w.img_from(w.out0);
        if (obj.accumulate_Hessian_times_input(*outf, *L1, *V) != Succeeded::yes)
          return fail("hessian-times-input-returned-no", "penalised, full data");
        const std::vector<float> hfp = World::vec_from(*outf);
        for (int v = 0; v < w.nvox; ++v)
          {
            double sum = w.out0[v], sb = 4 * vf::EPS32 * std::fabs(w.out0[v]);
            for (int t = 0; t < c.S; ++t)
              {
                sum += static_cast<double>(HH[t][v]) - static_cast<double>(w.out0[v]);
                sb += 8 * vf::EPS32 * (std::fabs(HH[t][v]) + std::fabs(w.out0[v]));
              }
            const double e = sum - static_cast<double>(phv[v]);
            const double band = sb * (c.S + 1) + 8 * vf::EPS32 * (c.S + 1) * std::fabs(phv[v]);
            if (!vf::close_enough(static_cast<double>(hfp[v]), e, band))
              return fail("penalised-full-hessian-times-input-is-not-unpenalised-minus-prior",
                          vf::fmt("%d subsets, %s: STIR %.9g; out0 + sum of the subset products %.9g - (H_prior v) %.9g = %.9g, band %.3g", c.S,
                                  vox_name(w, v).c_str(), hfp[v], sum, phv[v], e, band));
          }
        ctx.count("hessian_checks", w.nvox);
        ctx.count("penalised_full_hessian_checks");
      }
      // full-data penalised gradient: sum over all subsets of the unpenalised sub-gradients minus the WHOLE prior gradient
      {
        shared_ptr<Target> gf(w.image->get_empty_copy());
        obj.compute_gradient(*gf, *L1);
        const std::vector<float> gfv = World::vec_from(*gf);
        for (int v = 0; v < w.nvox; ++v)
          {
            double sum = 0, sa = 0;
            for (int t = 0; t < c.S; ++t)
              {
                sum += static_cast<double>(G[t][v]);
                sa += std::fabs(G[t][v]);
              }
            const double e = sum - static_cast<double>(pgv[v]);
            const double band = 8 * vf::EPS32 * (c.S + 2) * (sa + std::fabs(pgv[v]));
            if (!vf::close_enough(static_cast<double>(gfv[v]), e, band))
              return fail("penalised-full-gradient-is-not-unpenalised-minus-prior",
                          vf::fmt("%d subsets, %s: STIR %.9g; sum of the unpenalised subset gradients %.9g - prior gradient %.9g = %.9g, band %.3g",
                                  c.S, vox_name(w, v).c_str(), gfv[v], sum, pgv[v], e, band));
          }
        ctx.count("gradient_voxels_checked", w.nvox);
        ctx.count("penalised_full_gradient_checks");
      }
      ctx.count("penalised_checks", 6);
    }

  // ---- re-configuration history (quantifier "histories"): ONE object is taken through 2..5 configurations; between two
  // set_up()s one or more settings are changed through the public setters ("After using any of these, you have to call
  // set_up()") and a random selection of quantities is requested, so that everything the object caches is filled before the
  // next change.  The LAST configuration is the configuration of this case: every quantity must then equal (a) the float64
  // reference (same bands as above) and (b) bit for bit what the first, freshly configured object of this case returned.
  // The earlier configurations are perturbations of the last one; nothing is demanded of their results.
  {
    const char* henv = std::getenv("VERIF_C05_HISTORY"); // development aid: "all" / "none"
    // every second case, chosen by a hash of the case number (shards take cases round-robin: idx % 2 would load half of them)
    const bool hash_bit = ((static_cast<uint64_t>(ctx.idx) * 0x9E3779B97F4A7C15ULL) >> 40) & 1u;
    const bool history_case = !orders_only && (henv ? std::string(henv) == "all" : hash_bit);
    if (history_case)
      {
        ctx.heartbeat("history-generate");
        vf::Rng hr(rng.next() ^ 0xC05C05ULL); // drawn after all other generation: the case itself is unchanged by this clause
        enum
        {
          USS = 0, // use_subset_sensitivities
          NS,      // num_subsets
          ZE,      // zero_seg0_end_planes
          MS,      // max_segment_num_to_process (-1 = "all", the default)
          AD,      // additive term: 0 none, 1 the one of this case, 2 other data
          NO,      // normalisation: 0 the one of this case, 1 trivial, 2 other non-TOF norm data, 3 other TOF norm data
          DA,      // measured data: 0 this case's, 1 other data
          SE,      // sensitivities: 0 recomputed, 1 read from files
          PR,      // prior: 0 none, 1 QuadraticPrior
          PP,      // projector pair: 0 matrix configured as in this case, 1 other symmetry/cache/ray settings
          NSET
        };
        static const char* const set_name[NSET]
            = { "use_subset_sensitivities", "num_subsets", "zero_seg0_end_planes", "max_segment_num_to_process", "additive_proj_data",
                "normalisation",            "proj_data",   "sensitivity_source",   "prior",                      "projector_pair" };
        struct Step
        {
          int v[NSET];
          unsigned redundant = 0; // settings that are set again although unchanged
          unsigned requests = 0;  // what is requested after this step's set_up (intermediate steps)
          int req_subset = 0;
          int order[NSET]; // order in which the setters are called
        };
        // the use_tofsens flag of the class is switched on by set_up() when it meets TOF-only norm data and stays on (there
        // is no setter); histories of a case whose sensitivity uses the non-TOF projector therefore never contain TOF norm data
        const bool allow_tof_norm = c.tof && w.tofsens;
        // other data objects
        std::vector<float> y_alt(w.gT.nbins), a_alt(w.gT.nbins);
        for (auto& x : y_alt)
          x = hr.coin(0.3) ? 0.f : static_cast<float>(hr.poisson(3.));
        {
          const double alevel = std::max(meanF, 1e-3) * std::pow(10., hr.uniform(-2., 0.5));
          for (auto& x : a_alt)
            x = static_cast<float>(hr.uniform(0.2, 1.5) * alevel);
        }
        const shared_ptr<ProjData> y_alt_pd = make_pd(w.exam, w.gT, y_alt), a_alt_pd = make_pd(w.exam, w.gT, a_alt);
        const shared_ptr<ProjData> n_alt0_pd = make_pd(w.exam, w.g0, rand_vec(hr, w.g0.nbins, 0.5, 2.));
        shared_ptr<ProjData> n_altT_pd;
        if (allow_tof_norm)
          n_altT_pd = make_pd(w.exam, w.gT, rand_vec(hr, w.gT.nbins, 0.5, 2.));
        Cfg c_alt = c;
        c_alt.cache_disabled = !c.cache_disabled;
        if (hr.coin())
          c_alt.basic_only = !c.basic_only;
        switch (hr.range(0, 5))
          {
          case 0: c_alt.sym90 = !c.sym90; break;
          case 1: c_alt.sym180 = !c.sym180; break;
          case 2: c_alt.swap_seg = !c.swap_seg; break;
          case 3: c_alt.swap_s = !c.swap_s; break;
          case 4: c_alt.shift_z = !c.shift_z; break;
          default: break;
          }
        if (hr.coin(0.3))
          c_alt.tang_lors = c.tang_lors == 1 ? 2 : 1;
        const shared_ptr<Target> junk = w.img_from(rand_vec(hr, w.nvox, 0.5, 2.)); // "supplied" sensitivities of intermediate steps
        auto norm_variant = [&](int k) -> shared_ptr<BinNormalisation> {
          switch (k)
            {
            case 0: return w.make_norm();
            case 1: return shared_ptr<BinNormalisation>(new TrivialBinNormalisation());
            case 2: return shared_ptr<BinNormalisation>(new BinNormalisationFromProjData(n_alt0_pd));
            default: return shared_ptr<BinNormalisation>(new BinNormalisationFromProjData(n_altT_pd));
            }
        };

        // ---- the steps, generated backwards from the configuration of this case
        const int nsteps = static_cast<int>(hr.range(2, 5));
        std::vector<Step> steps(nsteps);
        {
          Step& fin = steps.back();
          const int fv[NSET] = { c.use_subset_sens ? 1 : 0, c.S, c.zero_ends ? 1 : 0, c.max_seg, c.additive ? 1 : 0, 0, 0, c.supplied ? 1 : 0,
                                 c.prior ? 1 : 0,           0 };
          std::copy(fv, fv + NSET, fin.v);
        }
        const std::vector<int> divs = vg::divisors(nviews);
        auto mutate = [&](Step& sp, int d) {
          const int old = sp.v[d];
          for (int attempt = 0; attempt < 8 && sp.v[d] == old; ++attempt)
            switch (d)
              {
              case USS:
              case ZE:
              case DA:
              case SE:
              case PR:
              case PP:
                sp.v[d] = 1 - old;
                break;
              case NS:
                sp.v[d] = sp.v[USS] ? static_cast<int>(hr.range(1, nviews)) : hr.pick(divs);
                break;
              case MS:
                sp.v[d] = static_cast<int>(hr.range(-1, pmaxseg));
                break;
              case AD:
                sp.v[d] = c.additive ? static_cast<int>(hr.range(0, 2)) : (hr.coin() ? 0 : 2);
                break;
              case NO:
                sp.v[d] = static_cast<int>(hr.range(0, allow_tof_norm ? 3 : 2));
                break;
              }
        };
        static const double weight[NSET] = { 3, 3, 2, 2, 2, 2, 2, 2, 1, 1.5 };
        double wsum = 0;
        for (double x : weight)
          wsum += x;
        for (int i = nsteps - 2; i >= 0; --i)
          {
            std::copy(steps[i + 1].v, steps[i + 1].v + NSET, steps[i].v);
            const int nmut = 1 + (hr.coin(0.5) ? 1 : 0) + (hr.coin(0.3) ? 1 : 0);
            for (int m = 0; m < nmut; ++m)
              {
                double u = hr.uniform(0., wsum);
                int d = 0;
                while (d < NSET - 1 && u >= weight[d])
                  u -= weight[d++];
                mutate(steps[i], d);
              }
            // without subset sensitivities the class documents that the subsets have to be balanced
            if (!steps[i].v[USS] && nviews % steps[i].v[NS] != 0)
              steps[i].v[NS] = hr.pick(divs);
          }
        for (auto& sp : steps)
          {
            for (int d = 0; d < NSET; ++d)
              {
                sp.order[d] = d;
                if (hr.coin(0.12))
                  sp.redundant |= 1u << d;
              }
            for (int d = NSET - 1; d > 0; --d)
              std::swap(sp.order[d], sp.order[hr.range(0, d)]);
            for (int q = 0; q < 9; ++q)
              if (hr.coin(0.45))
                sp.requests |= 1u << q;
            if (!sp.requests)
              sp.requests = 1u << hr.range(0, 8);
            sp.req_subset = static_cast<int>(hr.range(0, sp.v[NS] - 1));
          }
        {
          vf::Desc hd;
          for (int i = 0; i < nsteps; ++i)
            {
              std::string t;
              for (int d = 0; d < NSET; ++d)
                t += vf::fmt("%s%d", d ? "," : "", steps[i].v[d]);
              hd.add(vf::fmt("step%d", i), t + vf::fmt(" redundant=%u requests=%u subset=%d", steps[i].redundant, steps[i].requests, steps[i].req_subset));
            }
          hd.add("settings", "use_subset_sens,num_subsets,zero_ends,max_seg,additive(0 none/1 case/2 other),norm(0 case/1 trivial/2 other/3 other TOF),"
                             "data(0 case/1 other),sens(0 recompute/1 read),prior,projector_pair(0 case/1 other)");
          ctx.desc.add("history", hd);
        }
        for (int i = 0; i + 1 < nsteps; ++i)
          for (int s = 0; s < nviews; ++s)
            {
              for (const std::string& hv : { vf::fmt((tmp + vf::fmt("/c05_%ld_h%d_subsens_%%d.hv", ctx.idx, i)).c_str(), s),
                                             tmp + vf::fmt("/c05_%ld_h%d_sens.hv", ctx.idx, i) })
                {
                  cleanup.files.push_back(hv);
                  cleanup.files.push_back(hv.substr(0, hv.size() - 2) + "v");
                  cleanup.files.push_back(hv.substr(0, hv.size() - 2) + "ahv");
                }
            }

        struct HOut
        {
          bool abandoned = false;
          int fail_step = -1;
          std::string fail, wit; // fail: "<quantity>-differs-from-<reference|fresh-object>" or another clause name
        };
        // verify_last: the last step is the configuration of this case and is verified; otherwise it is treated like an
        // intermediate step (used when naming a failure that happened before the last step)
        auto run_history = [&](const std::vector<Step>& st, const bool counting, const bool verify_last) -> HOut {
          HOut out;
          Holder hh;
          hh.create(c.alloc);
          ObjFn& o = *hh.obj;
          if (c.parse_tofsens)
            {
              std::istringstream par("PoissonLogLikelihoodWithLinearModelForMeanAndProjData Parameters:=\n"
                                     "use time-of-flight sensitivities := 1\n"
                                     "End PoissonLogLikelihoodWithLinearModelForMeanAndProjData Parameters:=\n");
              if (!o.parse(par))
                throw std::runtime_error("harness: parsing 'use time-of-flight sensitivities' failed");
            }
          // what the object was told last; the defaults of the class for the settings that a user need not set
          int cur[NSET];
          std::fill(cur, cur + NSET, -2);
          cur[ZE] = 0, cur[MS] = -1, cur[AD] = 0, cur[PR] = 0;
          shared_ptr<ProjectorByBinPair> cur_pair;
          for (size_t i = 0; i < st.size(); ++i)
            {
              const Step& sp = st[i];
              const bool last = verify_last && i + 1 == st.size();
              out.fail_step = static_cast<int>(i);
              ctx.heartbeat(vf::fmt("history-step-%d-of-%d-setters", static_cast<int>(i), static_cast<int>(st.size())));
              for (int kk = 0; kk < NSET; ++kk)
                {
                  const int d = sp.order[kk];
                  if (d == SE)
                    continue; // below: depends on use_subset_sensitivities / num_subsets of this step
                  const bool changed = cur[d] != sp.v[d];
                  if (!changed && !((sp.redundant >> d) & 1u))
                    continue;
                  if (counting && i > 0)
                    ctx.count(changed ? std::string("history_change_") + set_name[d] : std::string("history_redundant_setter_calls"));
                  if (counting && changed && last)
                    ctx.count(std::string("history_last_change_") + set_name[d]);
                  switch (d)
                    {
                    case USS: o.set_use_subset_sensitivities(sp.v[d] != 0); break;
                    case NS: o.set_num_subsets(sp.v[d]); break;
                    case ZE: o.set_zero_seg0_end_planes(sp.v[d] != 0); break;
                    case MS: o.set_max_segment_num_to_process(sp.v[d]); break;
                    case AD:
                      o.set_additive_proj_data_sptr(sp.v[d] == 0 ? shared_ptr<ProjData>() : (sp.v[d] == 1 ? w.a_pd : a_alt_pd));
                      break;
                    case NO: o.set_normalisation_sptr(norm_variant(sp.v[d])); break;
                    case DA: o.set_proj_data_sptr(sp.v[d] == 0 ? w.y_pd : y_alt_pd); break;
                    case PR:
                      o.set_prior_sptr(sp.v[d] ? shared_ptr<GeneralisedPrior<Target>>(new QuadraticPrior<float>(false, c.beta))
                                               : shared_ptr<GeneralisedPrior<Target>>());
                      break;
                    case PP:
                      if (changed || is_null_ptr(cur_pair) || (sp.req_subset & 1)) // redundant call: a new identical pair, or the same object again
                        cur_pair.reset(new ProjectorByBinPairUsingProjMatrixByBin(make_matrix(sp.v[d] == 0 ? c : c_alt)));
                      o.set_projector_pair_sptr(cur_pair);
                      break;
                    }
                  cur[d] = sp.v[d];
                }
              {
                const bool changed = cur[SE] != sp.v[SE];
                if (counting && i > 0 && changed)
                  ctx.count(std::string("history_change_") + set_name[SE]);
                if (counting && changed && last)
                  ctx.count(std::string("history_last_change_") + set_name[SE]);
                if (sp.v[SE] == 1)
                  {
                    std::string pat = w.sens_pattern, file = w.sens_file; // last step: written by this case's 'writer' object
                    if (!last)
                      {
                        pat = tmp + vf::fmt("/c05_%ld_h%d_subsens_%%d.hv", ctx.idx, static_cast<int>(i));
                        file = tmp + vf::fmt("/c05_%ld_h%d_sens.hv", ctx.idx, static_cast<int>(i));
                        for (int s = 0; s < (sp.v[USS] ? sp.v[NS] : 1); ++s)
                          write_to_file(sp.v[USS] ? vf::fmt(pat.c_str(), s) : file, *junk);
                        if (counting)
                          ctx.count("history_steps_reading_other_sensitivities");
                      }
                    if (sp.v[USS])
                      o.set_subsensitivity_filenames(pat);
                    else
                      o.set_sensitivity_filename(file);
                    o.set_recompute_sensitivity(false);
                  }
                else if (changed || ((sp.redundant >> SE) & 1u))
                  o.set_recompute_sensitivity(true);
                cur[SE] = sp.v[SE];
              }
              ctx.heartbeat(vf::fmt("history-step-%d-of-%d-set_up", static_cast<int>(i), static_cast<int>(st.size())));
              try
                {
                  shared_ptr<Target> target(w.image->clone());
                  if (o.set_up(target) != Succeeded::yes)
                    throw std::runtime_error("set_up returned Succeeded::no");
                }
              catch (const std::exception& e)
                {
                  if (last)
                    {
                      // an identically configured fresh object (the first object of this case) was accepted
                      out.fail = "set_up-of-the-last-configuration-rejected-although-a-fresh-object-accepts-it";
                      out.wit = e.what();
                    }
                  else
                    {
                      out.abandoned = true; // rejected by the library: not a verdict
                      if (counting)
                        ctx.count("history_abandoned_intermediate_set_up_rejected");
                    }
                  return out;
                }
              if (counting)
                ctx.count(i == 0 ? "history_first_set_ups" : "history_re_set_ups");
              const int S = sp.v[NS];
              if (!last)
                {
                  // fill the caches: results are not examined
                  ctx.heartbeat(vf::fmt("history-step-%d-of-%d-requests", static_cast<int>(i), static_cast<int>(st.size())));
                  const int s = std::min(sp.req_subset, S - 1);
                  try
                    {
                      shared_ptr<Target> g(w.image->get_empty_copy());
                      long nreq = 0;
                      for (int q = 0; q < 9; ++q)
                        {
                          if (!((sp.requests >> q) & 1u))
                            continue;
                          ++nreq;
                          switch (q)
                            {
                            case 0: o.compute_objective_function_without_penalty(*L1, s); break;
                            case 1: o.compute_sub_gradient_without_penalty(*g, *L1, s); break;
                            case 2: o.compute_sub_gradient_without_penalty_plus_sensitivity(*g, *L2, s); break;
                            case 3: (void)o.get_subset_sensitivity(s).find_max(); break;
                            case 4: (void)o.get_sensitivity().find_max(); break;
                            case 5: o.compute_gradient_without_penalty(*g, *L1); break;
                            case 6: {
                              shared_ptr<Target> out2 = w.img_from(w.out0);
                              o.accumulate_sub_Hessian_times_input_without_penalty(*out2, *L1, *V, s);
                              break;
                            }
                            case 7:
                              if (sp.v[SE] == 0) // the projector for the sensitivity is only set up when the sensitivity is computed
                                o.add_subset_sensitivity(*g, s);
                              else
                                --nreq;
                              break;
                            case 8: o.compute_sub_gradient(*g, *L1, s); break;
                            }
                        }
                      if (counting)
                        ctx.count("history_intermediate_requests", nreq);
                    }
                  catch (const std::exception& e)
                    {
                      out.fail = "request-throws:" + vf::short_what(e.what());
                      out.wit = vf::fmt("step %d of %d, subset %d/%d: ", static_cast<int>(i), static_cast<int>(st.size()), s, S) + e.what();
                      return out;
                    }
                  continue;
                }

              // ---- the last configuration: everything, every subset
              ctx.heartbeat("history-final-quantities");
              long nref = 0, nbits = 0;
              int kinds[4] = { 0, 1, 2, 3 }; // 0 gradient (+sensitivity), 1 sensitivity, 2 value, 3 Hessian product: a random order
              for (unsigned n = sp.requests % 24u; n > 0; --n)
                std::next_permutation(kinds, kinds + 4);
              auto differs = [&](const std::string& q, bool from_reference, const std::string& wit) {
                out.fail = q + (from_reference ? "-differs-from-reference" : "-differs-from-fresh-object");
                out.wit = wit;
              };
              try
                {
                  for (int s = 0; s < S && out.fail.empty(); ++s)
                    {
                      const SubRef& r = ref[s];
                      for (int kq = 0; kq < 4 && out.fail.empty(); ++kq)
                        switch (kinds[kq])
                          {
                          case 0: {
                            shared_ptr<Target> g(w.image->get_empty_copy());
                            std::fill(g->begin_all(), g->end_all(), 7.f);
                            o.compute_sub_gradient_without_penalty(*g, *L1, s);
                            const std::vector<float> hg = World::vec_from(*g);
                            int j = first_bad(hg, r.g, r.g_band);
                            if (j >= 0)
                              {
                                differs("subset-gradient", true,
                                        vf::fmt("subset %d/%d %s: history object %.9g, reference %.9g, band %.3g, fresh object %.9g", s, S,
                                                vox_name(w, j).c_str(), hg[j], r.g[j], r.g_band[j], G[s][j]));
                                break;
                              }
                            if (!same_bits(hg, G[s]))
                              {
                                differs("subset-gradient", false, vf::fmt("subset %d/%d", s, S));
                                break;
                              }
                            std::fill(g->begin_all(), g->end_all(), -3.f);
                            o.compute_sub_gradient_without_penalty_plus_sensitivity(*g, *L1, s);
                            const std::vector<float> hgp = World::vec_from(*g);
                            j = first_bad(hgp, r.gp, r.gp_band);
                            if (j >= 0)
                              differs("subset-gradient-plus-sensitivity", true,
                                      vf::fmt("subset %d/%d %s: history object %.9g, reference %.9g, band %.3g, fresh object %.9g", s, S,
                                              vox_name(w, j).c_str(), hgp[j], r.gp[j], r.gp_band[j], GP[s][j]));
                            else if (!same_bits(hgp, GP[s]))
                              differs("subset-gradient-plus-sensitivity", false, vf::fmt("subset %d/%d", s, S));
                            nref += 2L * w.nvox, nbits += 2L * w.nvox;
                            break;
                          }
                          case 1: {
                            const std::vector<float> hs = World::vec_from(o.get_subset_sensitivity(s));
                            std::vector<double> sref(w.nvox), sband(w.nvox);
                            for (int v = 0; v < w.nvox; ++v)
                              {
                                sref[v] = c.use_subset_sens ? r.s[v] : full.s[v] / c.S;
                                sband[v] = c.use_subset_sens ? r.s_band[v] : full.s_band[v] / c.S + 4 * vf::EPS32 * full.s[v] / c.S;
                              }
                            int j = -1;
                            // same attribution as for the first object: the known TOF-data/non-TOF-sensitivity defect keeps its own key
                            const int rc = check_sens(hs, sref, sband, r.s_alt, c.use_subset_sens ? r.s_tof0 : full.s_tof0,
                                                      c.use_subset_sens ? 1. : 1. / c.S, w.sens_nontof && c.use_subset_sens,
                                                      vf::fmt("subset sensitivity %d/%d after a re-configuration history", s, S), j);
                            if (rc == 2)
                              differs("subset-sensitivity", true,
                                      vf::fmt("subset %d/%d %s: history object %.9g, F' eff = %.9g, band %.3g, fresh object %.9g", s, S,
                                              vox_name(w, j).c_str(), hs[j], sref[j], sband[j], SS[s][j]));
                            else if (!same_bits(hs, SS[s]))
                              differs("subset-sensitivity", false, vf::fmt("subset %d/%d", s, S));
                            if (rc == 0)
                              nref += w.nvox;
                            nbits += w.nvox;
                            break;
                          }
                          case 2: {
                            const double hv = o.compute_objective_function_without_penalty(*L1, s);
                            if (!vf::close_enough(hv, r.L1, r.L1_band))
                              differs("subset-value", true,
                                      vf::fmt("subset %d/%d: history object %.12g, reference %.12g band %.3g, fresh object %.12g", s, S, hv, r.L1,
                                              r.L1_band, V1[s]));
                            else if (hv != V1[s])
                              differs("subset-value", false, vf::fmt("subset %d/%d: %.17g vs %.17g", s, S, hv, V1[s]));
                            ++nref, ++nbits;
                            break;
                          }
                          case 3: {
                            shared_ptr<Target> out2 = w.img_from(w.out0);
                            if (o.accumulate_sub_Hessian_times_input_without_penalty(*out2, *L1, *V, s) != Succeeded::yes)
                              {
                                out.fail = "hessian-times-input-returned-no";
                                out.wit = vf::fmt("subset %d/%d", s, S);
                                break;
                              }
                            const std::vector<float> hh2 = World::vec_from(*out2);
                            int j = -1;
                            if (!hess_defect_seen)
                              {
                                std::vector<double> href(w.nvox), hband(w.nvox);
                                for (int v = 0; v < w.nvox; ++v)
                                  {
                                    href[v] = w.out0[v] + r.H[v];
                                    hband[v] = r.H_band[v] + 4 * vf::EPS32 * std::fabs(w.out0[v]);
                                  }
                                j = first_bad(hh2, href, hband);
                                if (j >= 0)
                                  differs("hessian-times-input", true,
                                          vf::fmt("subset %d/%d %s: out0 + H v: history object %.9g, reference %.9g, band %.3g, fresh object %.9g",
                                                  s, S, vox_name(w, j).c_str(), hh2[j], href[j], hband[j], HH[s][j]));
                                nref += w.nvox;
                              }
                            if (j < 0 && !same_bits(hh2, HH[s]))
                              differs("hessian-times-input", false, vf::fmt("subset %d/%d", s, S));
                            nbits += w.nvox;
                            break;
                          }
                          }
                    }
                  if (out.fail.empty())
                    {
                      shared_ptr<Target> g(w.image->get_empty_copy());
                      o.compute_gradient_without_penalty(*g, *L1);
                      const std::vector<float> hgf = World::vec_from(*g);
                      std::vector<double> band(w.nvox);
                      for (int v = 0; v < w.nvox; ++v)
                        band[v] = full.g_band[v] + 8. * (c.S + 2) * vf::EPS32 * full.g_band[v];
                      int j = first_bad(hgf, full.g, band);
                      if (j >= 0)
                        differs("full-gradient", true,
                                vf::fmt("%s: history object %.9g, reference %.9g, band %.3g, fresh object %.9g", vox_name(w, j).c_str(), hgf[j],
                                        full.g[j], band[j], gf[j]));
                      else if (!same_bits(hgf, gf))
                        differs("full-gradient", false, "");
                      nref += w.nvox, nbits += w.nvox;
                    }
                  if (out.fail.empty())
                    {
                      const std::vector<float> hsf = World::vec_from(o.get_sensitivity());
                      int j = -1;
                      const int rc = check_sens(hsf, full.s, full.s_band, full.s, full.s_tof0, 1., false,
                                                "total sensitivity after a re-configuration history", j);
                      if (rc == 2)
                        differs("total-sensitivity", true,
                                vf::fmt("%s: history object %.9g, F' eff = %.9g, band %.3g, fresh object %.9g", vox_name(w, j).c_str(), hsf[j],
                                        full.s[j], full.s_band[j], sf[j]));
                      else if (!same_bits(hsf, sf))
                        differs("total-sensitivity", false, "");
                      if (rc == 0)
                        nref += w.nvox;
                      nbits += w.nvox;
                    }
                  if (out.fail.empty() && c.prior)
                    {
                      const double hpv = o.compute_objective_function(*L1, s_pen);
                      shared_ptr<Target> g(w.image->get_empty_copy());
                      o.compute_sub_gradient(*g, *L1, s_pen);
                      if (hpv != pen_value)
                        differs("penalised-subset-value", false, vf::fmt("subset %d/%d: %.17g vs %.17g", s_pen, S, hpv, pen_value));
                      else if (!same_bits(World::vec_from(*g), pen_grad))
                        differs("penalised-subset-gradient", false, vf::fmt("subset %d/%d", s_pen, S));
                      nbits += w.nvox + 1;
                    }
                }
              catch (const std::exception& e)
                {
                  out.fail = "request-throws:" + vf::short_what(e.what());
                  out.wit = std::string("last configuration: ") + e.what();
                  return out;
                }
              if (counting && out.fail.empty())
                {
                  ctx.count("history_completed");
                  ctx.count("history_values_compared_with_reference", nref);
                  ctx.count("history_values_compared_bitwise_with_fresh_object", nbits);
                }
            }
          return out;
        };

        ctx.count("history_runs");
        HOut res = run_history(steps, true, true);
        if (!res.fail.empty())
          {
            // name what has to change between two set_up()s for this to happen (the key is then specific to the defect and not to
            // this particular random history): find an earlier configuration that suffices as the only predecessor of the last
            // one, then drop every difference that is not needed
            auto direction = [&](int d, int from, int to) -> std::string {
              switch (d)
                {
                case USS:
                case ZE:
                case PR: return to ? "off->on" : "on->off";
                case NS: return to > from ? "increased" : "decreased";
                case MS: return "changed";
                case AD: return to == 0 ? "removed" : (from == 0 ? "added" : "other-data");
                case SE: return to ? "recomputed->read-from-file" : "read-from-file->recomputed";
                default: return "replaced";
                }
            };
            const int m = res.fail_step; // the step at which it happened (the last one unless a request or set_up threw earlier)
            const bool at_last = m == nsteps - 1;
            Step fin = steps[m]; // keeps its setter calls with unchanged values: they can be part of the trigger
            if (!at_last)
              fin.requests = 0x1ffu;
            // the predecessor is tried with the requests it had in this history and with all requests
            auto fails_after = [&](Step A) {
              if (!run_history({ A, fin }, false, at_last).fail.empty())
                return true;
              A.requests = 0x1ffu;
              return !run_history({ A, fin }, false, at_last).fail.empty();
            };
            std::string what;
            if (m == 0)
              what = "no-history:first-configuration";
            for (int i = m - 1; i >= 0 && what.empty(); --i)
              {
                // is this earlier configuration, as the only predecessor, enough?
                Step A = steps[i];
                A.redundant = 0;
                if (!fails_after(A))
                  continue;
                // 1-minimal set of settings that have to differ from the last configuration (a rejected set_up counts as "needed")
                for (int d = 0; d < NSET; ++d)
                  {
                    if (A.v[d] == fin.v[d])
                      continue;
                    Step B = A;
                    B.v[d] = fin.v[d];
                    if (fails_after(B))
                      A = B;
                  }
                for (int d = 0; d < NSET; ++d)
                  if (A.v[d] != fin.v[d])
                    what += (what.empty() ? "" : "+") + std::string(set_name[d]) + ":" + direction(d, A.v[d], fin.v[d]);
                // setters called again with the value they already have (same for objects: an identical new object)
                for (int d = 0; d < NSET; ++d)
                  {
                    if (A.v[d] != fin.v[d] || !((fin.redundant >> d) & 1u))
                      continue;
                    const unsigned keep = fin.redundant;
                    fin.redundant &= ~(1u << d);
                    if (fails_after(A))
                      continue;
                    fin.redundant = keep;
                    what += (what.empty() ? "" : "+") + std::string(set_name[d]) + ":set-again-to-the-same";
                  }
                if (what.empty())
                  what = "repeated-set_up-without-change";
              }
            if (what.empty())
              {
                std::set<int> ch;
                for (int i = 1; i <= m; ++i)
                  for (int d = 0; d < NSET; ++d)
                    if (steps[i].v[d] != steps[i - 1].v[d])
                      ch.insert(d);
                what = "needs-more-than-two-configurations";
                for (int d : ch)
                  what += std::string(":") + set_name[d];
              }
            return fail("history:" + res.fail + "-after-re-set_up:" + what, vf::fmt("history of %d configurations, failed at step %d (see desc.history): ", nsteps, m) + res.wit);
          }
      }
  }

  // ---- order independence: 24 orders of first use on fresh, identically configured objects
  {
    const int s = s_order;
    const SubRef& r = ref[s];
    struct Res
    {
      double v = 0;
      std::vector<float> g, sens, h;
    };
    Res first;
    std::string first_order;
    int perm[4] = { 0, 1, 2, 3 }; // 0 value, 1 gradient, 2 sensitivity, 3 Hessian product
    static const char* names = "VGSH";
    int np = 0;
    do
      {
        std::string order;
        for (int k = 0; k < 4; ++k)
          order += names[perm[k]];
        ctx.heartbeat("order-" + order);
        Holder h;
        try
          {
            build_objfn(h, w, c.S, c.supplied ? SENS_READ : SENS_COMPUTE, false);
          }
        catch (const std::exception& e)
          {
            return fail("order-matrix:set_up-fails-on-identically-configured-object", order + ": " + e.what());
          }
        Res res;
        bool threw = false;
        for (int k = 0; k < 4; ++k)
          {
            try
              {
                switch (perm[k])
                  {
                  case 0:
                    res.v = h.obj->compute_objective_function_without_penalty(*L1, s);
                    break;
                  case 1: {
                    shared_ptr<Target> g(w.image->get_empty_copy());
                    h.obj->compute_sub_gradient_without_penalty(*g, *L1, s);
                    res.g = World::vec_from(*g);
                    break;
                  }
                  case 2: {
                    if (c.supplied)
                      res.sens = World::vec_from(h.obj->get_subset_sensitivity(s));
                    else
                      {
                        // a real (re)computation through the public interface; with use_subset_sensitivities off the cached
                        // value is total/num_subsets, so compare only between orders and with the reference
                        shared_ptr<Target> sv(w.image->get_empty_copy());
                        h.obj->add_subset_sensitivity(*sv, s);
                        res.sens = World::vec_from(*sv);
                      }
                    break;
                  }
                  case 3: {
                    shared_ptr<Target> out = w.img_from(w.out0);
                    if (h.obj->accumulate_sub_Hessian_times_input_without_penalty(*out, *L1, *V, s) != Succeeded::yes)
                      return fail("hessian-times-input-returned-no", order);
                    res.h = World::vec_from(*out);
                    break;
                  }
                  }
              }
            catch (const std::exception& e)
              {
                const std::string what = e.what();
                const std::string req(1, names[perm[k]]);
                if (what.find("setup_distributable_computation not called") != std::string::npos)
                  {
                    specific(std::string("order-matrix:internal-error-setup_distributable_computation-not-called:")
                                 + (perm[k] == 0 ? "value-requested-before-any-gradient" : "request-" + req)
                                 + (c.supplied ? ":supplied-sensitivity" : ":computed-sensitivity"),
                             vf::fmt("order %s, request %d (%c), subset %d/%d, object storage %s: %s", order.c_str(), k, names[perm[k]],
                                     s, c.S, c.alloc == 0 ? "from plain new" : (c.alloc == 1 ? "pre-filled with 0x00" : "pre-filled with 0x01"),
                                     what.c_str()));
                    threw = true;
                    break;
                  }
                return fail("order-matrix:request-throws:" + vf::short_what(what), order + " request " + req + ": " + what);
              }
          }
        if (threw)
          continue; // attributed above; the remaining orders are still compared with each other
        if (np == 0)
          {
            first = res;
            first_order = order;
            // against the reference
            if (!vf::close_enough(res.v, r.L1, r.L1_band))
              return fail("order-matrix:value-differs-from-reference", order);
            if (first_bad(res.g, r.g, r.g_band) >= 0)
              return fail("order-matrix:gradient-differs-from-reference", order);
            if (!c.supplied)
              {
                int j = -1;
                if (check_sens(res.sens, r.s, r.s_band, r.s_alt, r.s_tof0, 1., w.sens_nontof, "add_subset_sensitivity " + order, j) == 2)
                  return fail("order-matrix:add_subset_sensitivity-differs-from-reference",
                              order + vf::fmt(" %s: %.9g vs %.9g", vox_name(w, j).c_str(), res.sens[j], r.s[j]));
                if (c.use_subset_sens && !same_bits(res.sens, SS[s]))
                  return fail("add_subset_sensitivity-differs-from-cached-subset-sensitivity", order);
              }
            else if (!same_bits(res.sens, SS[s]))
              return fail("order-matrix:supplied-sensitivity-differs-between-identical-objects", order);
            if (!same_bits(res.h, HH[s]) || !same_bits(res.g, G[s]) || res.v != V1[s])
              return fail("order-matrix:fresh-object-differs-from-first-object",
                          order + vf::fmt(": value %d gradient %d hessian %d", res.v == V1[s], same_bits(res.g, G[s]), same_bits(res.h, HH[s])));
          }
        else
          {
            const bool okv = res.v == first.v, okg = same_bits(res.g, first.g), oks = same_bits(res.sens, first.sens),
                       okh = same_bits(res.h, first.h);
            if (!(okv && okg && oks && okh))
              return fail(std::string("order-matrix:results-depend-on-order-of-first-use:") + (okv ? "" : "V") + (okg ? "" : "G")
                              + (oks ? "" : "S") + (okh ? "" : "H"),
                          vf::fmt("orders %s and %s, subset %d/%d: value %.17g vs %.17g", first_order.c_str(), order.c_str(), s, c.S,
                                  first.v, res.v));
          }
        ++np;
        ctx.count("orders_checked");
    } while (std::next_permutation(perm, perm + 4));
  }

  // ---- evidence
  ctx.count(c.tof ? (w.tofsens ? "cfg_tof_tofsens" : "cfg_tof_nontof_sens") : "cfg_nontof");
  if (c.tof)
    ctx.count("cfg_tof");
  ctx.count(c.additive ? "cfg_additive" : "cfg_no_additive");
  ctx.count(c.norm_kind == 0 ? "cfg_norm_trivial" : (c.norm_kind == 1 ? "cfg_norm_projdata" : "cfg_norm_chained"));
  ctx.count(c.S > 1 ? "cfg_subsets_gt1" : "cfg_subsets_1");
  ctx.count("subsets_evaluated", c.S);
  if (c.zero_ends)
    ctx.count("cfg_zero_seg0_end_planes");
  if (c.max_seg >= 0 && c.max_seg < pmaxseg)
    ctx.count("cfg_max_segment_reduced");
  ctx.count(c.use_subset_sens ? "cfg_subset_sensitivities" : "cfg_no_subset_sensitivities");
  ctx.count(c.supplied ? "cfg_sensitivity_supplied" : "cfg_sensitivity_recomputed");
  if (c.prior)
    ctx.count("cfg_prior");
  if (c.cache_disabled)
    ctx.count("cfg_matrix_cache_disabled");
  ctx.count(c.alloc == 0 ? "cfg_alloc_plain" : (c.alloc == 1 ? "cfg_alloc_prefilled_00" : "cfg_alloc_prefilled_01"));
  ctx.count("data_bins_nonzero", active_nonzero);
}

int
main(int argc, char** argv)
{
  vg::quiet();
  return vf::verif_main(argc, argv, "C05", run_case);
}
