// C06: ordered subsets partition the data; every subset is used once per iteration (DESIGN.md §6 C06).
//  part A (exhaustive): all num_views 1..96 x num_subsets 1..num_views x segment ranges x symmetry classes:
//          exactly-once over detail::find_basic_vs_nums_in_subset + related view/segment numbers, and
//          subsets_are_approximately_balanced() == (all subsets process the same number of viewgrams)
//  part B: DIST_VIEWGRAM hook log of real compute_sub_gradient / sensitivity calls: every (segment, view, TOF) exactly once
//  part C: subset numbers received by a recording objective function during OSMAPOSL::reconstruct()
#include "common/verif.h"
#include "common/gen.h"
#include "stir/verif_hooks.h"
#include "stir/ProjDataInMemory.h"
#include "stir/ExamInfo.h"
#include "stir/ViewSegmentNumbers.h"
#include "stir/TrivialDataSymmetriesForViewSegmentNumbers.h"
#include "stir/recon_buildblock/DataSymmetriesForBins_PET_CartesianGrid.h"
#include "stir/recon_buildblock/find_basic_vs_nums_in_subsets.h"
#include "stir/recon_buildblock/ProjMatrixByBinUsingRayTracing.h"
#include "stir/recon_buildblock/ProjectorByBinPairUsingProjMatrixByBin.h"
#include "stir/recon_buildblock/PoissonLogLikelihoodWithLinearModelForMeanAndProjData.h"
#include "stir/OSMAPOSL/OSMAPOSLReconstruction.h"
#include <mutex>

using namespace stir;
using vf::Ctx;
typedef DiscretisedDensity<3, float> target_type;

// ------------------------------------------------------------------ hook: record DIST_VIEWGRAM events
static std::mutex g_mx;
struct DistEv
{
  int seg, view, tof, subset;
};
static std::vector<DistEv> g_dist;
extern "C" void
stir_verif_point(int site, const void*, long a, long b)
{
  if (site != STIR_VERIF_DIST_VIEWGRAM)
    return;
  std::lock_guard<std::mutex> g(g_mx);
  // a = segment*100000 + view ; b = timing*1000 + subset   (negative numbers: decode carefully)
  long seg = a / 100000, view = a % 100000;
  if (view < 0)
    {
      view += 100000;
      seg -= 1;
    }
  if (view > 50000)
    {
      view -= 100000;
      seg += 1;
    }
  long tof = b / 1000, sub = b % 1000;
  if (sub < 0)
    {
      sub += 1000;
      tof -= 1;
    }
  g_dist.push_back(DistEv{ static_cast<int>(seg), static_cast<int>(view), static_cast<int>(tof), static_cast<int>(sub) });
}

struct Geo
{
  vg::ScannerSpec ss;
  shared_ptr<Scanner> sc;
  shared_ptr<ProjDataInfo> pdi;
  shared_ptr<VoxelsOnCartesianGrid<float>> image;
};
static Geo
make_geo(int num_views, int rings, int max_delta, int tof_bins, bool square_voxels = true)
{
  Geo g;
  g.ss.ndet = 2 * num_views;
  g.ss.nrings = rings;
  g.ss.radius = 200.f;
  g.ss.ring_spacing = 4.f;
  g.ss.bin_size = static_cast<float>(3.14159265 * 200. / g.ss.ndet);
  g.ss.trans_per_block = 1;
  g.ss.axial_per_block = 1;
  g.ss.max_nonarc_bins = std::max(1, std::min(g.ss.ndet - 1, 9));
  if (tof_bins > 0)
    {
      g.ss.tof_bins = tof_bins;
      g.ss.tof_size = static_cast<float>(4. * 200. / 0.299792458 / tof_bins);
      g.ss.tof_res = g.ss.tof_size * 1.5f;
    }
  g.sc = vg::make_scanner(g.ss);
  vg::PdiSpec ps;
  ps.span = 1;
  ps.max_delta = max_delta;
  ps.num_views = num_views;
  ps.num_tang = g.ss.max_nonarc_bins;
  ps.tof_mash = tof_bins > 0 ? 1 : 0;
  g.pdi = vg::make_pdi(g.sc, ps);
  vg::ImageSpec is;
  is.nx = is.ny = 7;
  is.nz = 2 * rings - 1;
  is.vx = g.ss.bin_size * 1.2f;
  is.vy = square_voxels ? is.vx : is.vx * 1.3f;
  is.vz = g.ss.ring_spacing / 2;
  g.image = vg::make_image(is);
  return g;
}

// ------------------------------------------------------------------ part A
static void
part_a(Ctx& ctx, int num_views)
{
  const int rings = 3, max_delta = 2;
  ctx.desc.add("part", "A-exhaustive").add("num_views", num_views);
  ctx.heartbeat("partA");
  if (num_views < 1)
    throw vf::Skip("no views");
  Geo g;
  try
    {
      g = make_geo(num_views, rings, max_delta, 0);
    }
  catch (const std::exception& e)
    {
      throw vf::Skip(std::string("geometry rejected: ") + e.what());
    }
  // symmetry objects: 0 = trivial, 1..8 = PET grid with (90, 180, swap_segment) switches; unequal voxels variant as 9
  std::vector<shared_ptr<DataSymmetriesForViewSegmentNumbers>> symms;
  std::vector<std::string> names;
  symms.push_back(shared_ptr<DataSymmetriesForViewSegmentNumbers>(new TrivialDataSymmetriesForViewSegmentNumbers));
  names.push_back("trivial");
  for (int m = 0; m < 8; ++m)
    {
      try
        {
          symms.push_back(shared_ptr<DataSymmetriesForViewSegmentNumbers>(
              new DataSymmetriesForBins_PET_CartesianGrid(g.pdi, g.image, (m & 1) != 0, (m & 2) != 0, (m & 4) != 0, true, true)));
          names.push_back(vf::fmt("pet90=%d,180=%d,swapseg=%d", m & 1, (m >> 1) & 1, (m >> 2) & 1));
        }
      catch (const std::exception&)
        {
          ctx.count("symmetry_objects_rejected");
        }
    }
  for (size_t si = 0; si < symms.size(); ++si)
    {
      const DataSymmetriesForViewSegmentNumbers& sy = *symms[si];
      for (int max_seg = 0; max_seg <= max_delta; ++max_seg)
        for (int num_subsets = 1; num_subsets <= num_views; ++num_subsets)
          {
            std::map<std::pair<int, int>, int> times; // (segment, view) -> how often processed
            std::vector<long> per_subset(static_cast<size_t>(num_subsets), 0);
            for (int subset = 0; subset < num_subsets; ++subset)
              {
                const std::vector<ViewSegmentNumbers> basics
                    = detail::find_basic_vs_nums_in_subset(*g.pdi, sy, -max_seg, max_seg, subset, num_subsets);
                for (const ViewSegmentNumbers& vs : basics)
                  {
                    if ((vs.view_num() - g.pdi->get_min_view_num()) % num_subsets != subset)
                      {
                        ctx.violation("basic-view-not-in-requested-subset", names[si] + vf::fmt(" views %d subsets %d subset %d view %d",
                                                                                               num_views, num_subsets, subset, vs.view_num()));
                        return;
                      }
                    std::vector<ViewSegmentNumbers> rel;
                    sy.get_related_view_segment_numbers(rel, vs);
                    if (static_cast<int>(rel.size()) != sy.num_related_view_segment_numbers(vs))
                      {
                        ctx.violation("num_related-differs-from-list", names[si]);
                        return;
                      }
                    for (const ViewSegmentNumbers& r : rel)
                      {
                        ++times[{ r.segment_num(), r.view_num() }];
                        ++per_subset[static_cast<size_t>(subset)];
                      }
                  }
              }
            // exactly once
            for (int seg = -max_seg; seg <= max_seg; ++seg)
              for (int v = g.pdi->get_min_view_num(); v <= g.pdi->get_max_view_num(); ++v)
                {
                  auto it = times.find({ seg, v });
                  const int n = it == times.end() ? 0 : it->second;
                  if (n != 1)
                    {
                      ctx.violation(n == 0 ? "view-segment-never-processed" : "view-segment-processed-more-than-once",
                                    names[si] + vf::fmt(": %d views, %d subsets, segments +-%d: (segment %d, view %d) processed %d times",
                                                        num_views, num_subsets, max_seg, seg, v, n));
                      return;
                    }
                }
            if (static_cast<long>(times.size()) != static_cast<long>(2 * max_seg + 1) * num_views)
              {
                ctx.violation("processed-view-segment-outside-range", names[si] + vf::fmt(": %d views, %d subsets", num_views, num_subsets));
                return;
              }
            ctx.sub_eval(vf::mix3(static_cast<uint64_t>(si * 1000 + max_seg), static_cast<uint64_t>(num_views), static_cast<uint64_t>(num_subsets)),
                         num_views >= 2);
            ctx.count("partitions_checked");
            (void)per_subset;
          }
    }
  ctx.count("symmetry_objects", static_cast<long>(symms.size()));
  ctx.nontrivial = num_views >= 2;
}

// recording objective function
template <class Base>
class Recorder : public Base
{
public:
  std::vector<int> subsets_seen;
  bool fake = false;

protected:
  void actual_compute_subset_gradient_without_penalty(target_type& gradient, const target_type& current, const int subset_num,
                                                      const bool add_sensitivity) override
  {
    subsets_seen.push_back(subset_num);
    if (fake)
      {
        // cheap stand-in: gradient+sensitivity := sensitivity (so the EM update is the identity)
        gradient.fill(add_sensitivity ? 1.F : 0.F);
        return;
      }
    Base::actual_compute_subset_gradient_without_penalty(gradient, current, subset_num, add_sensitivity);
  }
};
typedef Recorder<PoissonLogLikelihoodWithLinearModelForMeanAndProjData<target_type>> RecObj;

static shared_ptr<RecObj>
make_objective(const Geo& g, vf::Rng& rng, int num_subsets, int max_seg_to_process, bool use_pet_symmetries)
{
  shared_ptr<RecObj> obj(new RecObj);
  shared_ptr<ExamInfo> ei(new ExamInfo(ImagingModality::PT));
  shared_ptr<ProjDataInMemory> y(new ProjDataInMemory(ei, g.pdi));
  for (auto it = y->begin_all(); it != y->end_all(); ++it)
    *it = static_cast<float>(rng.range(1, 5));
  obj->set_proj_data_sptr(y);
  shared_ptr<ProjMatrixByBinUsingRayTracing> m(new ProjMatrixByBinUsingRayTracing());
  if (!use_pet_symmetries)
    {
      m->set_do_symmetry_90degrees_min_phi(false);
      m->set_do_symmetry_180degrees_min_phi(false);
      m->set_do_symmetry_swap_segment(false);
      m->set_do_symmetry_swap_s(false);
      m->set_do_symmetry_shift_z(false);
    }
  shared_ptr<ProjectorByBinPair> pp(new ProjectorByBinPairUsingProjMatrixByBin(m));
  obj->set_projector_pair_sptr(pp);
  obj->set_use_subset_sensitivities(true);
  obj->set_recompute_sensitivity(true);
  obj->set_num_subsets(num_subsets);
  if (max_seg_to_process >= 0)
    obj->set_max_segment_num_to_process(max_seg_to_process);
  return obj;
}

// ------------------------------------------------------------------ part B
static void
part_b(Ctx& ctx)
{
  vf::Rng& rng = ctx.rng;
  const int num_views = static_cast<int>(rng.range(2, ctx.thorough() ? 24 : 16));
  const int rings = static_cast<int>(rng.range(1, 3));
  const int max_delta = static_cast<int>(rng.range(0, rings - 1));
  const int tof = rng.coin(0.3) ? 3 : 0;
  const bool pet_symm = rng.coin(0.7);
  std::vector<int> divs;
  for (int s = 1; s <= num_views; ++s)
    divs.push_back(s);
  const int num_subsets = rng.coin(0.5) ? rng.pick(vg::divisors(num_views)) : rng.pick(divs);
  const int max_seg_proc = rng.coin(0.3) ? static_cast<int>(rng.range(0, max_delta)) : -1;
  ctx.desc.add("part", "B-distributable-log").add("num_views", num_views).add("rings", rings).add("max_delta", max_delta).add("tof_bins", tof);
  ctx.desc.add("num_subsets", num_subsets).add("pet_symmetries", pet_symm).add("max_segment_num_to_process", max_seg_proc);
  ctx.heartbeat("partB");
  Geo g;
  shared_ptr<RecObj> obj;
  shared_ptr<target_type> tgt;
  bool balanced_claim = false;
  try
    {
      g = make_geo(num_views, rings, max_delta, tof);
      obj = make_objective(g, rng, num_subsets, max_seg_proc, pet_symm);
      tgt.reset(g.image->clone());
      tgt->fill(1.F);
      {
        std::lock_guard<std::mutex> lk(g_mx);
        g_dist.clear();
      }
      if (obj->set_up(tgt) != Succeeded::yes)
        throw vf::Skip("objective function set_up returned no");
    }
  catch (const vf::Skip&)
    {
      throw;
    }
  catch (const std::exception& e)
    {
      // e.g. unbalanced subsets are rejected by set_up
      const std::string w = e.what();
      ctx.count(w.find("balanced") != std::string::npos ? "rejected_unbalanced" : "rejected_other");
      // the rejection itself is checked against the balance oracle below when it is about balance
      if (w.find("balanced") == std::string::npos)
        throw vf::Skip(std::string("set_up rejected: ") + w);
      balanced_claim = false;
      obj.reset();
    }
  const int eff_max_seg = max_seg_proc >= 0 ? std::min(max_seg_proc, g.pdi->get_max_segment_num()) : g.pdi->get_max_segment_num();
  // independent balance oracle: count viewgrams per subset through the symmetries actually used
  {
    shared_ptr<ProjMatrixByBinUsingRayTracing> m(new ProjMatrixByBinUsingRayTracing());
    if (!pet_symm)
      {
        m->set_do_symmetry_90degrees_min_phi(false);
        m->set_do_symmetry_180degrees_min_phi(false);
        m->set_do_symmetry_swap_segment(false);
        m->set_do_symmetry_swap_s(false);
        m->set_do_symmetry_shift_z(false);
      }
    m->set_up(g.pdi, g.image);
    const DataSymmetriesForViewSegmentNumbers& sy = *m->get_symmetries_ptr();
    std::vector<long> n(static_cast<size_t>(num_subsets), 0);
    for (int subset = 0; subset < num_subsets; ++subset)
      for (const ViewSegmentNumbers& vs : detail::find_basic_vs_nums_in_subset(*g.pdi, sy, -eff_max_seg, eff_max_seg, subset, num_subsets))
        n[static_cast<size_t>(subset)] += sy.num_related_view_segment_numbers(vs);
    bool equal = true;
    for (long x : n)
      equal = equal && x == n[0];
    if (obj)
      balanced_claim = obj->subsets_are_approximately_balanced();
    if (balanced_claim != equal)
      {
        ctx.violation("balanced-report-differs-from-equal-viewgram-counts",
                      vf::fmt("reported balanced=%d, viewgram counts equal=%d (views %d, subsets %d)", balanced_claim, equal, num_views, num_subsets));
        return;
      }
    ctx.count(equal ? "balance_checks_balanced" : "balance_checks_unbalanced");
    if (!obj)
      {
        ctx.nontrivial = true;
        return;
      }
    // now the real calls: one sub-gradient per subset -> the hook log must cover every (segment, view, TOF) exactly once
    {
      std::lock_guard<std::mutex> lk(g_mx);
      g_dist.clear();
    }
    shared_ptr<target_type> grad(tgt->get_empty_copy());
    for (int subset = 0; subset < num_subsets; ++subset)
      obj->compute_sub_gradient_without_penalty(*grad, *tgt, subset);
    std::vector<DistEv> log;
    {
      std::lock_guard<std::mutex> lk(g_mx);
      log = g_dist;
    }
    if (log.empty())
      {
        ctx.count("hook_log_empty");
        throw vf::Skip("no DIST_VIEWGRAM events (library built without hooks?)");
      }
    std::map<std::tuple<int, int, int>, int> times;
    for (const DistEv& e : log)
      {
        std::vector<ViewSegmentNumbers> rel;
        sy.get_related_view_segment_numbers(rel, ViewSegmentNumbers(e.view, e.seg));
        for (const ViewSegmentNumbers& r : rel)
          ++times[std::make_tuple(r.segment_num(), r.view_num(), e.tof)];
        if ((e.view - g.pdi->get_min_view_num()) % num_subsets != e.subset)
          {
            ctx.violation("distributable-processed-view-of-other-subset", vf::fmt("view %d in subset %d of %d", e.view, e.subset, num_subsets));
            return;
          }
      }
    for (int seg = -eff_max_seg; seg <= eff_max_seg; ++seg)
      for (int v = g.pdi->get_min_view_num(); v <= g.pdi->get_max_view_num(); ++v)
        for (int k = g.pdi->get_min_tof_pos_num(); k <= g.pdi->get_max_tof_pos_num(); ++k)
          {
            auto it = times.find(std::make_tuple(seg, v, k));
            const int cnt = it == times.end() ? 0 : it->second;
            if (cnt != 1)
              {
                ctx.violation(cnt == 0 ? "distributable:viewgram-never-processed" : "distributable:viewgram-processed-more-than-once",
                              vf::fmt("(segment %d, view %d, TOF %d) processed %d times over all %d subsets (views %d)", seg, v, k, cnt,
                                      num_subsets, num_views));
                return;
              }
          }
    if (static_cast<long>(times.size())
        != static_cast<long>(2 * eff_max_seg + 1) * num_views * g.pdi->get_num_tof_poss())
      {
        ctx.violation("distributable:processed-data-outside-requested-range", vf::fmt("%zu distinct viewgrams", times.size()));
        return;
      }
    ctx.count("dist_events", static_cast<long>(log.size()));
    ctx.count("dist_viewgrams_covered", static_cast<long>(times.size()));
  }
  ctx.nontrivial = true;
}

// ------------------------------------------------------------------ part C
static void
part_c(Ctx& ctx)
{
  vf::Rng& rng = ctx.rng;
  const int num_subsets = static_cast<int>(rng.range(1, 12));
  const int num_views = num_subsets * static_cast<int>(rng.range(1, 3));
  const int iterations = 3;
  const int start_subset = static_cast<int>(rng.range(0, num_subsets - 1));
  // start at an iteration boundary or in the middle of an iteration
  const int start_subiter = rng.coin(0.5) ? 1 : static_cast<int>(rng.range(1, 2 * num_subsets));
  const bool randomise = rng.coin(0.5);
  const int num_subiters = iterations * num_subsets + static_cast<int>(rng.range(0, num_subsets - 1));
  ctx.desc.add("part", "C-schedule").add("num_subsets", num_subsets).add("num_views", num_views).add("start_subset", start_subset);
  ctx.desc.add("start_subiteration", start_subiter).add("randomise", randomise).add("num_subiterations", num_subiters);
  ctx.heartbeat("partC");
  if (start_subiter > num_subiters)
    throw vf::Skip("nothing to do");
  Geo g;
  shared_ptr<RecObj> obj;
  OSMAPOSLReconstruction<target_type> recon;
  shared_ptr<target_type> tgt;
  try
    {
      g = make_geo(num_views, 1, 0, 0);
      obj = make_objective(g, rng, num_subsets, -1, false);
      obj->fake = true;
      recon.set_objective_function_sptr(obj);
      recon.set_num_subsets(num_subsets);
      recon.set_num_subiterations(num_subiters);
      recon.set_start_subset_num(start_subset);
      recon.set_start_subiteration_num(start_subiter);
      recon.set_randomise_subset_order(randomise);
      recon.set_disable_output(true);
      recon.set_save_interval(num_subiters);
      tgt.reset(g.image->clone());
      tgt->fill(1.F);
      if (recon.set_up(tgt) != Succeeded::yes)
        throw vf::Skip("reconstruction set_up returned no");
    }
  catch (const vf::Skip&)
    {
      throw;
    }
  catch (const std::exception& e)
    {
      throw vf::Skip(std::string("reconstruction rejected: ") + e.what());
    }
  obj->subsets_seen.clear();
  ctx.heartbeat(randomise ? "partC-reconstruct-randomised" : "partC-reconstruct");
  if (recon.reconstruct(tgt) != Succeeded::yes)
    {
      ctx.violation("reconstruct-failed", "");
      return;
    }
  const std::vector<int>& seen = obj->subsets_seen;
  if (static_cast<int>(seen.size()) != num_subiters - start_subiter + 1)
    {
      ctx.violation("number-of-updates-differs-from-subiterations",
                    vf::fmt("%zu sub-gradients for subiterations %d..%d", seen.size(), start_subiter, num_subiters));
      return;
    }
  // group by full iteration n: subiterations (n-1)*N+1 .. n*N
  std::map<int, std::vector<int>> per_iter;
  for (size_t i = 0; i < seen.size(); ++i)
    {
      const int subiter = start_subiter + static_cast<int>(i);
      if (seen[i] < 0 || seen[i] >= num_subsets)
        {
          ctx.violation(randomise ? "schedule:subset-number-out-of-range:randomised" : "schedule:subset-number-out-of-range",
                        vf::fmt("subset %d at subiteration %d", seen[i], subiter));
          return;
        }
      per_iter[(subiter - 1) / num_subsets].push_back(seen[i]);
    }
  for (auto& kv : per_iter)
    {
      std::vector<int> v = kv.second;
      std::sort(v.begin(), v.end());
      const bool dup = std::adjacent_find(v.begin(), v.end()) != v.end();
      const bool full = static_cast<int>(kv.second.size()) == num_subsets;
      if (dup || (full && static_cast<int>(std::set<int>(v.begin(), v.end()).size()) != num_subsets))
        {
          std::string s;
          for (int x : kv.second)
            s += std::to_string(x) + " ";
          const bool first_partial_random = randomise && !full && kv.first == (start_subiter - 1) / num_subsets;
          ctx.violation(first_partial_random ? "schedule:subset-repeated-within-iteration:randomised-start-inside-iteration"
                        : randomise          ? "schedule:subset-repeated-within-iteration:randomised"
                                             : "schedule:subset-repeated-within-iteration",
                        vf::fmt("iteration %d uses subsets: %s(num_subsets %d, start_subset %d, start_subiteration %d)", kv.first + 1,
                                s.c_str(), num_subsets, start_subset, start_subiter));
          return;
        }
      ctx.count(full ? "full_iterations_checked" : "partial_iterations_checked");
    }
  ctx.count(randomise ? "schedules_randomised" : "schedules_fixed");
  ctx.nontrivial = num_subsets >= 2;
}

static void
run_case(Ctx& ctx)
{
  const long NA = 96;
  if (ctx.idx < NA)
    part_a(ctx, static_cast<int>(ctx.idx) + 1);
  else if ((ctx.idx - NA) % 2 == 0)
    part_b(ctx);
  else
    part_c(ctx);
}

int
main(int argc, char** argv)
{
  vg::quiet();
  return vf::verif_main(argc, argv, "C06", run_case);
}
