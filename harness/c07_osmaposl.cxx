// C07: OSMAPOSL sub-iterations follow the EM update and are restartable (DESIGN.md §6 C07).
//
// A case = one generated small geometry with the explicit system matrix G (rows from a ProjMatrixByBinUsingRayTracing
// configured like the one in the objective function), Poisson data following the documented model, a random positive
// start image, and one real OSMAPOSLReconstruction run (set_up + reconstruct(target), output disabled or directed into
// ctx.tmpdir).  Every iterate is observed through a recording objective function (the image each sub-gradient call
// receives is the iterate after the previous sub-iteration) plus the returned target.
//
// Monitors:
//  (1) per sub-iteration and voxel:  lambda_new = lambda * G_S'[y/(G_S lambda + a)] / s_S   (0 where s_S = 0), float64
//      reference from the dense G with a computed float32 band; with a prior (quadratic, relative difference) the
//      one-step-late denominators of the additive / multiplicative MAP models with the documented [0.1,10] clamp;
//      the documented truncations of divide_and_truncate / divide are modelled (see common/recon_ref.h);
//  (2) iterates stay non-negative (also with inter-iteration / inter-update filters, where (1) has no closed form);
//  (3) one subset, no prior: the Poisson log-likelihood (own float64 value, and the value reported by a real objective
//      function) never decreases beyond the rounding band;
//  (4) one subset, no prior, no additive term: sum_v s_v lambda_v == sum_b y_b after every update;
//  (5) restart: a FRESH reconstruction + objective function started at sub-iteration k+1 from the iterate after k
//      (in-memory copy, or the Interfile file the uninterrupted run saved) reproduces all later iterates bit-for-bit;
//      enforce_initial_positivity is documented to change non-positive start voxels at set_up: with it on, equality is
//      required when set_up left the saved iterate unchanged, otherwise only the documented effect on the start image
//      is checked (voxels above 1e-6 unchanged) and the run is reported separately.
#include "common/verif.h"
#include "common/gen.h"
#include "common/recon_ref.h"
#include "stir/OSMAPOSL/OSMAPOSLReconstruction.h"
#include "stir/SeparableGaussianImageFilter.h"
#include "stir/IO/OutputFileFormat.h"

using namespace stir;
using namespace rr;
using vf::Ctx;

struct RunCfg
{
  int N = 1, Ntot = 1, start_subset = 0;
  bool use_subset_sens = true;
  PriorSpec prior;
  int map_model = 0; // 0 none, 1 additive, 2 multiplicative
  bool randomise = false;
  bool positivity = false;
  int filter_kind = 0; // 0 none, 1 inter-iteration, 2 inter-update
  int filter_interval = 1;
  float fwhm = 0.f;
};

struct RunOut
{
  int start = 1;
  std::vector<std::vector<float>> it; // it[j - (start-1)] = iterate after sub-iteration j, j = start-1 .. Ntot
  std::vector<int> subsets;           // subsets[j - start] = subset used by sub-iteration j
  std::vector<float> given_start, start_after_setup;
  std::string prefix;
  const std::vector<float>& after(int j) const { return it[static_cast<size_t>(j - (start - 1))]; }
};

static shared_ptr<DataProcessor<Target>>
make_filter(const World& w, const RunCfg& rc)
{
  shared_ptr<SeparableGaussianImageFilter<float>> f(new SeparableGaussianImageFilter<float>);
  f->set_fwhms(make_coordinate(rc.fwhm * w.c.ring_spacing / 2, rc.fwhm * w.c.vxy, rc.fwhm * w.c.vxy));
  f->set_max_kernel_sizes(make_coordinate(3, 3, 3));
  return f;
}

static void
configure_recon(OSMAPOSLReconstruction<Target>& recon, const shared_ptr<RecObj>& obj, const World& w, const RunCfg& rc, int start, int ntot,
                const std::string& prefix, bool positivity)
{
  recon.set_objective_function_sptr(obj);
  recon.set_num_subsets(rc.N);
  recon.set_num_subiterations(ntot);
  recon.set_start_subset_num(rc.start_subset);
  recon.set_start_subiteration_num(start);
  recon.set_randomise_subset_order(rc.randomise);
  recon.set_enforce_initial_positivity(positivity);
  if (rc.map_model != 0)
    recon.set_MAP_model(rc.map_model == 1 ? "additive" : "multiplicative");
  if (rc.filter_kind == 1)
    {
      recon.set_inter_iteration_filter_interval(rc.filter_interval);
      recon.set_inter_iteration_filter_ptr(make_filter(w, rc));
    }
  else if (rc.filter_kind == 2)
    {
      recon.set_inter_update_filter_interval(rc.filter_interval);
      recon.set_inter_update_filter_ptr(make_filter(w, rc));
    }
  if (prefix.empty())
    {
      recon.set_disable_output(true);
      recon.set_save_interval(ntot);
    }
  else
    {
      recon.set_disable_output(false);
      recon.set_output_filename_prefix(prefix);
      recon.set_save_interval(1);
    }
}

// one real reconstruction with fresh objects.  prefix non-empty: output enabled, every iterate saved
static void
run_osmaposl(const World& w, const RunCfg& rc, const std::vector<float>& start_image, const shared_ptr<Target>& start_object, int start,
             const std::string& prefix, bool positivity, RunOut& out)
{
  shared_ptr<RecObj> obj = make_objective(w, rc.N, rc.prior, rc.use_subset_sens);
  OSMAPOSLReconstruction<Target> recon;
  configure_recon(recon, obj, w, rc, start, rc.Ntot, prefix, positivity);
  shared_ptr<Target> tgt = start_object ? start_object : w.img_from(start_image);
  out.start = start;
  out.prefix = prefix;
  out.given_start = World::vec_from(*tgt);
  if (recon.set_up(tgt) != Succeeded::yes)
    throw vf::Skip("reconstruction set_up returned no");
  out.start_after_setup = World::vec_from(*tgt);
  obj->calls.clear();
  if (recon.reconstruct(tgt) != Succeeded::yes)
    throw std::runtime_error("reconstruct returned Succeeded::no");
  out.it.clear();
  out.subsets.clear();
  for (const RecObj::Call& c : obj->calls)
    {
      out.it.push_back(c.input);
      out.subsets.push_back(c.subset);
    }
  out.it.push_back(World::vec_from(*tgt));
}

// "interrupted and resumed" with the SAME reconstruction and objective-function objects: sub-iterations 1..k, then the same
// objects are told to start at k+1, set up again (as the documentation requires after changing parameters) and run to Ntot
// on the image they left.  out receives the second leg (start = k+1).  Returns false if the library rejects a leg.
static bool
run_osmaposl_resumed_same_objects(const World& w, const RunCfg& rc, const std::vector<float>& start_image, int k, RunOut& out)
{
  shared_ptr<RecObj> obj = make_objective(w, rc.N, rc.prior, rc.use_subset_sens);
  OSMAPOSLReconstruction<Target> recon;
  configure_recon(recon, obj, w, rc, 1, k, std::string(), rc.positivity);
  shared_ptr<Target> tgt = w.img_from(start_image);
  if (recon.set_up(tgt) != Succeeded::yes)
    return false;
  if (recon.reconstruct(tgt) != Succeeded::yes)
    return false;
  // resume
  recon.set_start_subiteration_num(k + 1);
  recon.set_num_subiterations(rc.Ntot);
  recon.set_save_interval(rc.Ntot);
  recon.set_enforce_initial_positivity(false); // (documented to change non-positive voxels at set_up; not part of the comparison)
  out.start = k + 1;
  out.given_start = World::vec_from(*tgt);
  if (recon.set_up(tgt) != Succeeded::yes)
    return false;
  out.start_after_setup = World::vec_from(*tgt);
  obj->calls.clear();
  if (recon.reconstruct(tgt) != Succeeded::yes)
    return false;
  out.it.clear();
  out.subsets.clear();
  for (const RecObj::Call& c : obj->calls)
    {
      out.it.push_back(c.input);
      out.subsets.push_back(c.subset);
    }
  out.it.push_back(World::vec_from(*tgt));
  return true;
}

static bool
all_finite_nonneg(const std::vector<float>& v, int& bad)
{
  for (size_t i = 0; i < v.size(); ++i)
    if (!(v[i] >= 0.f) || !std::isfinite(v[i]))
      {
        bad = static_cast<int>(i);
        return false;
      }
  return true;
}

static void
run_case(Ctx& ctx)
{
  vf::Rng& rng = ctx.rng;
  World w;
  gen_cfg(rng, w.c, ctx.thorough());
  RunCfg rc;
  // kind of case
  const double u = rng.u01();
  const bool filter_case = u < 0.08;
  const bool prior_case = !filter_case && u < 0.45;
  const bool full_data_case = !filter_case && !prior_case && u < 0.65; // one subset: monotonicity / count preservation
  rc.use_subset_sens = rng.coin(0.8);
  rc.positivity = rng.coin(0.5);
  rc.randomise = !filter_case && rng.coin(0.12);
  const bool files = !rc.randomise && !ctx.tmpdir.empty() && rng.coin(0.25);
  if (full_data_case && rng.coin(0.5))
    w.c.additive = false;
  ctx.desc.add("geometry", w.c.desc());
  ctx.heartbeat("geometry");
  build_geometry(w);
  if (w.balanced.empty())
    throw vf::Skip("no balanced number of subsets");
  rc.N = full_data_case ? 1 : rng.pick(w.balanced);
  if (!full_data_case && rc.N == 1 && w.balanced.size() > 1 && rng.coin(0.8))
    rc.N = w.balanced[static_cast<size_t>(rng.range(1, static_cast<long>(w.balanced.size()) - 1))];
  const int iters = static_cast<int>(rng.range(1, 3));
  rc.Ntot = std::min(rc.N * iters + static_cast<int>(rng.range(0, rc.N - 1)), ctx.thorough() ? 36 : 20);
  if (rc.N == 1)
    rc.Ntot = static_cast<int>(rng.range(2, 6));
  rc.start_subset = static_cast<int>(rng.range(0, rc.N - 1));
  if (prior_case)
    {
      rc.prior.kind = rng.coin(0.5) ? 1 : 2;
      rc.prior.beta = static_cast<float>(std::pow(10., rng.uniform(-2., 0.7)));
      rc.prior.only_2D = rng.coin(0.3);
      rc.prior.gamma = static_cast<float>(rng.uniform(0., 3.));
      rc.prior.eps = rng.coin(0.5) ? 0.f : static_cast<float>(std::pow(10., rng.uniform(-3., 0.)));
      rc.prior.kappa = rng.coin(0.4);
      rc.map_model = rng.coin(0.5) ? 1 : 2;
    }
  if (filter_case)
    {
      rc.filter_kind = rng.coin(0.5) ? 1 : 2;
      rc.filter_interval = static_cast<int>(rng.range(1, 3));
      rc.fwhm = static_cast<float>(rng.uniform(0.8, 2.));
    }
  const std::vector<float> truth = gen_data(w, rng, ctx);
  if (rc.prior.kappa)
    {
      rc.prior.kappa_vals.resize(w.nvox);
      for (auto& x : rc.prior.kappa_vals)
        x = static_cast<float>(rng.uniform(0.5, 1.5));
    }
  double tmean = 0;
  for (float t : truth)
    tmean += t;
  tmean /= w.nvox;
  std::vector<float> start(w.nvox);
  const double spread = rng.coin(0.5) ? 3. : 1.3;
  for (auto& x : start)
    x = static_cast<float>(tmean * std::pow(spread, rng.uniform(-1., 1.)));
  {
    vf::Desc d;
    d.add("num_subsets", rc.N).add("num_subiterations", rc.Ntot).add("start_subset", rc.start_subset);
    d.add("use_subset_sensitivities", rc.use_subset_sens).add("prior", rc.prior.desc());
    d.add("MAP_model", rc.map_model == 0 ? "none" : (rc.map_model == 1 ? "additive" : "multiplicative"));
    d.add("randomise_subset_order", rc.randomise).add("enforce_initial_positivity", rc.positivity);
    d.add("filter", rc.filter_kind == 0 ? "none" : (rc.filter_kind == 1 ? "inter-iteration" : "inter-update"));
    d.add("filter_interval", rc.filter_interval).add("saved_files", files).add("total_counts", w.total_counts);
    d.add("nbins", w.nbins).add("nvox", w.nvox).add("matrix_nonzeros", w.nnz);
    ctx.desc.add("run", d);
  }
  ctx.heartbeat("main-run");

  // ---------------------------------------------------------------- the uninterrupted run
  static long file_counter = 0;
  const std::string prefix = files ? ctx.tmpdir + vf::fmt("/c07_%ld_%ld", ctx.idx, file_counter++) : std::string();
  RunOut main;
  try
    {
      run_osmaposl(w, rc, start, shared_ptr<Target>(), 1, prefix, rc.positivity, main);
    }
  catch (const vf::Skip&)
    {
      throw;
    }
  catch (const std::exception& e)
    {
      const std::string what = e.what();
      if (what.find("setup_distributable_computation not called") != std::string::npos)
        {
          ctx.violation("objective-function:setup_distributable_computation-not-called:during-reconstruction", what);
          return;
        }
      if (what.find("balanced") != std::string::npos)
        {
          // the generator only proposes subset numbers with equal viewgram counts
          ctx.violation("osmaposl:balanced-number-of-subsets-rejected", what);
          return;
        }
      throw vf::Skip(std::string("reconstruction rejected: ") + what);
    }
  if (static_cast<int>(main.subsets.size()) != rc.Ntot)
    {
      ctx.violation("osmaposl:number-of-updates-differs-from-number-of-subiterations",
                    vf::fmt("%zu sub-gradient calls for %d sub-iterations", main.subsets.size(), rc.Ntot));
      return;
    }
  // the start image is positive: set_up (with or without enforce_initial_positivity) must not change it
  if (!same_bits(main.given_start, main.start_after_setup) || !same_bits(main.given_start, main.after(0)))
    {
      ctx.violation("osmaposl:set_up-changed-a-positive-start-image", w.vox_name(std::max(0, first_diff(main.given_start, main.after(0)))));
      return;
    }
  ctx.count(rc.N == 1 ? "subsets_1" : (rc.N <= 4 ? "subsets_2_to_4" : "subsets_5_or_more"));
  ctx.count(vf::fmt("prior_%s_%s", rc.prior.kind == 0 ? "none" : (rc.prior.kind == 1 ? "quadratic" : "rdp"),
                    rc.map_model == 0 ? "em" : (rc.map_model == 1 ? "additive" : "multiplicative")));
  if (w.c.additive)
    ctx.count("cases_with_additive_term");
  if (w.c.norm)
    ctx.count("cases_with_normalisation");
  if (!rc.use_subset_sens)
    ctx.count("cases_with_total_sensitivity_over_num_subsets");
  if (rc.randomise)
    ctx.count("cases_randomised_subset_order");
  if (rc.filter_kind)
    ctx.count("cases_with_filter");

  // ---------------------------------------------------------------- (1),(2): every sub-iteration against the reference
  PriorProbe probe;
  if (rc.prior.kind != 0)
    probe.init(w, rc.prior);
  const std::vector<double> s_total = total_sensitivity(w);
  long updates_checked = 0;
  bool any_truncation = false;
  std::vector<StepRef> refs(static_cast<size_t>(rc.Ntot) + 1);
  for (int j = 1; j <= rc.Ntot; ++j)
    {
      const std::vector<float>& before = main.after(j - 1);
      const std::vector<float>& got = main.after(j);
      const int subset = main.subsets[static_cast<size_t>(j - 1)];
      if (subset < 0 || subset >= rc.N)
        {
          ctx.violation("osmaposl:subset-number-out-of-range", vf::fmt("subset %d at sub-iteration %d of %d subsets", subset, j, rc.N));
          return;
        }
      if (!rc.randomise && subset != (j + rc.start_subset - 1) % rc.N)
        {
          ctx.violation("osmaposl:subset-differs-from-documented-schedule",
                        vf::fmt("sub-iteration %d used subset %d, documented (subiteration_num+start_subset_num-1)%%num_subsets = %d", j,
                                subset, (j + rc.start_subset - 1) % rc.N));
          return;
        }
      int bad = -1;
      if (!all_finite_nonneg(got, bad))
        {
          ctx.violation(rc.filter_kind ? "osmaposl:iterate-negative-or-not-finite:with-filter" : "osmaposl:iterate-negative-or-not-finite",
                        vf::fmt("after sub-iteration %d %s = %.9g", j, w.vox_name(bad).c_str(), got[bad]));
          return;
        }
      ctx.count("nonnegativity_checks");
      // the filters have no closed form: skip the formula where one was applied in (inter-update) or after (inter-iteration) step j
      const bool filtered = rc.filter_kind != 0 && j % rc.filter_interval == 0;
      if (filtered)
        {
          ctx.count("updates_not_compared_filter_applied");
          continue;
        }
      std::vector<float> g;
      if (rc.prior.kind != 0)
        g = probe.gradient(before);
      StepRef& S = refs[static_cast<size_t>(j)];
      em_step(w, before, subset, rc.N, rc.use_subset_sens, g, rc.map_model, S);
      if (S.capped)
        any_truncation = true;
      ctx.count("voxels_skipped_near_truncation_switch", S.skipped);
      ctx.count("bins_with_capped_quotient", S.capped);
      for (int v = 0; v < w.nvox; ++v)
        {
          if (S.skip[v])
            continue;
          // the band is relative; a product in the float32 subnormal range (iterates thresholded to min*1e-6 by the filter chain
          // reach 1e-42) is rounded to a multiple of 2^-149: add that absolute quantum
          if (!vf::close_enough(static_cast<double>(got[v]), S.ref[v], S.band[v] + 2. * std::numeric_limits<float>::denorm_min()))
            {
              const char* key = rc.map_model == 0   ? "osmaposl:update-differs-from-EM-formula"
                                : rc.map_model == 1 ? "osmaposl:update-differs-from-OSL-formula:additive"
                                                    : "osmaposl:update-differs-from-OSL-formula:multiplicative";
              ctx.violation(key, vf::fmt("sub-iteration %d subset %d/%d %s: lambda %.9g -> STIR %.9g, reference %.9g +- %.3g (sum_b G y/(G lambda+a) "
                                         "= %.9g, subset sensitivity %.9g%s)",
                                         j, subset, rc.N, w.vox_name(v).c_str(), before[v], got[v], S.ref[v], S.band[v], S.num[v], S.sens[v],
                                         rc.prior.kind ? vf::fmt(", prior gradient %.9g", g[v]).c_str() : ""));
              return;
            }
          ctx.count("voxels_compared");
          if (std::getenv("VERIF_DEBUG") && S.band[v] > 0)
            {
              static double mx = 0;
              const double q = std::fabs(got[v] - S.ref[v]) / S.band[v];
              if (q > mx)
                {
                  mx = q;
                  std::fprintf(stderr, "DBG max |diff|/band = %.4g (case %ld, j %d, ref %.6g band %.3g rel %.3g)\n", mx, ctx.idx, j, S.ref[v], S.band[v], S.band[v]/std::fabs(S.ref[v]));
                }
            }
          if (S.sens[v] == 0)
            ctx.count("voxels_with_zero_subset_sensitivity");
        }
      ++updates_checked;
      ctx.count("updates_checked");
    }

  // ---------------------------------------------------------------- (3),(4): one subset, no prior
  if (rc.N == 1 && rc.prior.kind == 0 && rc.filter_kind == 0)
    {
      // a real objective function for the reported values
      shared_ptr<RecObj> vobj = make_objective(w, 1, rc.prior, true);
      bool vobj_ok = true;
      try
        {
          shared_ptr<Target> t(w.image->clone());
          if (vobj->set_up(t) != Succeeded::yes)
            vobj_ok = false;
        }
      catch (const std::exception&)
        {
          vobj_ok = false;
        }
      LogLik prev;
      double prev_stir = 0;
      bool have_prev = false;
      for (int j = 0; j <= rc.Ntot; ++j)
        {
          const std::vector<float>& lam = main.after(j);
          LogLik cur;
          loglik(w, lam, cur);
          double cur_stir = 0;
          if (vobj_ok)
            {
              try
                {
                  cur_stir = vobj->compute_objective_function_without_penalty(*w.img_from(lam));
                }
              catch (const std::exception& e)
                {
                  const std::string what = e.what();
                  ctx.violation(what.find("setup_distributable_computation not called") != std::string::npos
                                    ? "objective-function:setup_distributable_computation-not-called:value-first-after-set_up"
                                    : "objective-function:value-computation-threw",
                                what);
                  return;
                }
            }
          if (cur.ok && vobj_ok)
            {
              const double band = 2 * cur.eval_band + 1e-12 * std::fabs(cur.L);
              if (std::fabs(cur_stir - cur.L) > band)
                {
                  ctx.violation("objective-function:value-differs-from-log-likelihood-of-iterate",
                                vf::fmt("iterate %d: reported %.12g, float64 reference %.12g +- %.3g", j, cur_stir, cur.L, band));
                  return;
                }
              ctx.count("objective_values_compared");
            }
          if (have_prev && prev.ok && cur.ok && j >= 1 && !refs[static_cast<size_t>(j)].ref.empty() && refs[static_cast<size_t>(j)].capped == 0
              && refs[static_cast<size_t>(j)].skipped == 0)
            {
              // slack: float rounding of the new iterate (first order) |dL/dlambda| . band
              const StepRef& S = refs[static_cast<size_t>(j)];
              double slack = 0;
              for (int v = 0; v < w.nvox; ++v)
                slack += std::fabs(cur.grad[v]) * (S.band[v] + 4 * vf::EPS32 * std::fabs(S.ref[v]));
              slack = 2 * slack + 1e-12 * std::fabs(cur.L);
              if (cur.L < prev.L - slack)
                {
                  ctx.violation("osmaposl:log-likelihood-decreased-with-one-subset",
                                vf::fmt("sub-iteration %d: L %.12g -> %.12g (decrease %.3g, rounding slack %.3g)", j, prev.L, cur.L,
                                        prev.L - cur.L, slack));
                  return;
                }
              if (vobj_ok && cur_stir < prev_stir - slack - 2 * (cur.eval_band + prev.eval_band))
                {
                  ctx.violation("osmaposl:reported-log-likelihood-decreased-with-one-subset",
                                vf::fmt("sub-iteration %d: reported value %.12g -> %.12g (slack %.3g)", j, prev_stir, cur_stir,
                                        slack + 2 * (cur.eval_band + prev.eval_band)));
                  return;
                }
              ctx.count("monotonic_checks");
            }
          prev = cur;
          prev_stir = cur_stir;
          have_prev = true;
        }
      if (!w.c.additive)
        for (int j = 1; j <= rc.Ntot; ++j)
          {
            const StepRef& S = refs[static_cast<size_t>(j)];
            if (S.ref.empty() || S.capped || S.skipped)
              {
                ctx.count("count_preservation_skipped_truncation");
                continue;
              }
            // every bin with counts must be seen by the image (the generator draws counts from the model, so this holds)
            const std::vector<float>& lam = main.after(j);
            double lhs = 0, band = 0;
            for (int v = 0; v < w.nvox; ++v)
              {
                lhs += s_total[v] * static_cast<double>(lam[v]);
                band += s_total[v] * (S.band[v] + 4 * vf::EPS32 * std::fabs(S.ref[v]));
              }
            if (std::fabs(S.rf_sum - w.total_counts) > 1e-9 * w.total_counts)
              {
                ctx.count("count_preservation_skipped_counts_outside_image");
                continue;
              }
            if (std::fabs(lhs - w.total_counts) > band + 1e-12 * w.total_counts)
              {
                ctx.violation("osmaposl:sensitivity-weighted-sum-differs-from-total-counts",
                              vf::fmt("after sub-iteration %d: sum_v s_v lambda_v = %.12g, sum_b y_b = %.12g, band %.3g", j, lhs,
                                      w.total_counts, band));
                return;
              }
            ctx.count("count_preservation_checks");
          }
    }
  (void)any_truncation;

  // ---------------------------------------------------------------- saved files == in-memory iterates
  std::vector<shared_ptr<Target>> file_objects(static_cast<size_t>(rc.Ntot) + 1);
  if (files)
    {
      ctx.heartbeat("read-saved-iterates");
      for (int j = 1; j <= rc.Ntot; ++j)
        {
          const std::string fn = prefix + vf::fmt("_%d.hv", j);
          shared_ptr<Target> img;
          bool same_geo = false;
          std::vector<float> vals;
          try
            {
              vals = read_image_values(w, fn, img, same_geo);
            }
          catch (const std::exception& e)
            {
              ctx.violation("osmaposl:saved-iterate-cannot-be-read", fn + ": " + e.what());
              return;
            }
          if (!same_bits(vals, main.after(j)))
            {
              const int v = first_diff(vals, main.after(j));
              ctx.violation("osmaposl:saved-iterate-differs-from-iterate-in-memory",
                            vf::fmt("%s %s: file %.9g, memory %.9g", fn.c_str(), w.vox_name(std::max(v, 0)).c_str(),
                                    v >= 0 && v < static_cast<int>(vals.size()) ? vals[v] : 0.f,
                                    v >= 0 ? main.after(j)[static_cast<size_t>(v)] : 0.f));
              return;
            }
          ctx.count("saved_iterates_read_back");
          if (same_geo)
            file_objects[static_cast<size_t>(j)] = img;
          else
            ctx.count("saved_iterates_geometry_not_identical_after_read");
        }
    }

  // ---------------------------------------------------------------- (5): restart
  if (!rc.randomise)
    {
      std::vector<int> points;
      for (int k = 1; k < rc.Ntot; ++k)
        points.push_back(k);
      const size_t max_points = ctx.thorough() ? 1000 : 6;
      if (points.size() > max_points)
        {
          rng.shuffle(points);
          points.resize(max_points);
          std::sort(points.begin(), points.end());
        }
      for (int k : points)
        {
          const bool pos_on = rng.coin(0.4);
          const bool from_file = files && file_objects[static_cast<size_t>(k)] && rng.coin(0.7);
          ctx.heartbeat(vf::fmt("restart-at-%d", k + 1));
          RunOut r;
          shared_ptr<Target> start_obj;
          if (from_file)
            start_obj.reset(file_objects[static_cast<size_t>(k)]->clone());
          run_osmaposl(w, rc, main.after(k), start_obj, k + 1, std::string(), pos_on, r);
          ctx.count("restart_points");
          if (static_cast<int>(r.subsets.size()) != rc.Ntot - k)
            {
              ctx.violation("osmaposl:restart:number-of-updates-differs", vf::fmt("%zu updates for sub-iterations %d..%d", r.subsets.size(), k + 1, rc.Ntot));
              return;
            }
          bool start_modified = !same_bits(r.given_start, r.start_after_setup);
          if (!pos_on && start_modified)
            {
              ctx.violation("osmaposl:restart:set_up-changed-start-image-without-enforce_initial_positivity",
                            w.vox_name(std::max(0, first_diff(r.given_start, r.start_after_setup))));
              return;
            }
          if (pos_on)
            {
              // documented effect only (threshold from below to min_positive*1e-6): positive voxels unchanged.  That
              // non-positive voxels become positive is NOT required: the property statement does not talk about it, and with a
              // subnormal smallest positive voxel (filter chain, 1e-42) the documented threshold min*1e-6 underflows to 0.
              for (int v = 0; v < w.nvox; ++v)
                {
                  const float a = r.given_start[v], b = r.start_after_setup[v];
                  if (a > 1e-6f && std::memcmp(&a, &b, sizeof(float)) != 0)
                    {
                      ctx.violation("osmaposl:restart:enforce_initial_positivity-changed-a-voxel-above-1e-6",
                                    vf::fmt("%s %.9g -> %.9g", w.vox_name(v).c_str(), a, b));
                      return;
                    }
                }
            }
          if (start_modified)
            {
              // documented modification of the start image: later iterates legitimately differ; report separately
              ctx.count("restarts_positivity_on_start_image_lifted");
              int bad = -1;
              for (int j = k + 1; j <= rc.Ntot; ++j)
                if (!all_finite_nonneg(r.after(j), bad))
                  {
                    ctx.violation("osmaposl:iterate-negative-or-not-finite:restart", vf::fmt("sub-iteration %d %s", j, w.vox_name(bad).c_str()));
                    return;
                  }
              continue;
            }
          for (int j = k + 1; j <= rc.Ntot; ++j)
            {
              if (r.subsets[static_cast<size_t>(j - k - 1)] != main.subsets[static_cast<size_t>(j - 1)])
                {
                  ctx.violation("osmaposl:restart:subset-schedule-differs-from-uninterrupted-run",
                                vf::fmt("restart at %d: sub-iteration %d uses subset %d, uninterrupted run used %d (num_subsets %d, start_subset %d)",
                                        k + 1, j, r.subsets[static_cast<size_t>(j - k - 1)], main.subsets[static_cast<size_t>(j - 1)], rc.N,
                                        rc.start_subset));
                  return;
                }
              if (!same_bits(r.after(j), main.after(j)))
                {
                  const int v = first_diff(r.after(j), main.after(j));
                  const std::string cls = rc.filter_kind ? ":with-filter" : (rc.prior.kind ? ":with-prior" : "");
                  ctx.violation("osmaposl:restart:iterate-differs-from-uninterrupted-run" + cls,
                                vf::fmt("restart at sub-iteration %d from the iterate after %d (%s, positivity %d): iterate %d %s = %.9g, "
                                        "uninterrupted %.9g",
                                        k + 1, k, from_file ? "saved file" : "memory copy", pos_on, j, w.vox_name(v).c_str(),
                                        r.after(j)[static_cast<size_t>(v)], main.after(j)[static_cast<size_t>(v)]));
                  return;
                }
              ctx.count("restart_iterates_compared");
            }
          ctx.count("restarts_checked");
          if (pos_on)
            ctx.count("restarts_positivity_on_start_image_unchanged");
          if (from_file)
            ctx.count("file_roundtrip_restarts");
        }
      // (5b) the same objects interrupted after k and resumed (set_start_subiteration_num(k+1), set_up again, reconstruct): whatever
      // the objects kept from their first set_up / first leg must not change the later iterates
      // VERIF_NO_SAME_OBJECT_RESUME: development switch (shows what the check saw before this clause existed)
      if (!std::getenv("VERIF_NO_SAME_OBJECT_RESUME") && rc.Ntot >= 2 && same_bits(main.given_start, main.start_after_setup) && rng.coin(ctx.thorough() ? 0.8 : 0.5))
        {
          const int k = static_cast<int>(rng.range(1, rc.Ntot - 1));
          ctx.heartbeat(vf::fmt("same-object-resume-at-%d", k + 1));
          RunOut r;
          if (!run_osmaposl_resumed_same_objects(w, rc, start, k, r))
            ctx.count("same_object_resumes_rejected_by_library");
          else if (static_cast<int>(r.subsets.size()) != rc.Ntot - k)
            ctx.violation("osmaposl:resume-same-objects:number-of-updates-differs",
                          vf::fmt("%zu updates for sub-iterations %d..%d", r.subsets.size(), k + 1, rc.Ntot));
          else if (!same_bits(r.given_start, main.after(k)))
            ctx.violation("osmaposl:resume-same-objects:first-leg-differs-from-uninterrupted-run",
                          vf::fmt("iterate after %d sub-iterations of a run limited to %d: %s", k, k,
                                  w.vox_name(std::max(0, first_diff(r.given_start, main.after(k)))).c_str()));
          else if (!same_bits(r.given_start, r.start_after_setup))
            ctx.violation("osmaposl:resume-same-objects:set_up-changed-the-image-without-enforce_initial_positivity",
                          w.vox_name(std::max(0, first_diff(r.given_start, r.start_after_setup))));
          else
            {
              bool ok = true;
              for (int j = k + 1; j <= rc.Ntot && ok; ++j)
                {
                  if (r.subsets[static_cast<size_t>(j - k - 1)] != main.subsets[static_cast<size_t>(j - 1)])
                    {
                      ctx.violation("osmaposl:resume-same-objects:subset-schedule-differs-from-uninterrupted-run",
                                    vf::fmt("resumed at %d: sub-iteration %d uses subset %d, uninterrupted run used %d (num_subsets %d, start_subset %d)",
                                            k + 1, j, r.subsets[static_cast<size_t>(j - k - 1)], main.subsets[static_cast<size_t>(j - 1)], rc.N,
                                            rc.start_subset));
                      ok = false;
                    }
                  else if (!same_bits(r.after(j), main.after(j)))
                    {
                      const int v = first_diff(r.after(j), main.after(j));
                      ctx.violation("osmaposl:resume-same-objects:iterate-differs-from-uninterrupted-run",
                                    vf::fmt("same objects interrupted after %d and resumed: iterate %d %s = %.9g, uninterrupted %.9g (num_subsets %d, "
                                            "subset sensitivities %d, prior %d, filter %d)",
                                            k, j, w.vox_name(v).c_str(), r.after(j)[static_cast<size_t>(v)], main.after(j)[static_cast<size_t>(v)], rc.N,
                                            rc.use_subset_sens, rc.prior.kind, rc.filter_kind));
                      ok = false;
                    }
                  else
                    ctx.count("same_object_resume_iterates_compared");
                }
              if (ok)
                ctx.count("same_object_resumes_checked");
            }
        }
    }
  ctx.nontrivial = w.nnz >= 30 && w.total_counts > 0 && updates_checked >= 2;
}

int
main(int argc, char** argv)
{
  vg::quiet();
  return vf::verif_main(argc, argv, "C07", run_case);
}
