// C08: OSSPS sub-iterations follow the preconditioned relaxed update within bounds (DESIGN.md §6 C08).
//
// Same construction as C07 (common/recon_ref.h): generated small geometry with explicit system matrix G, data from the
// documented model, real OSSPSReconstruction objects driven through set_up + reconstruct(target); every iterate observed
// through a recording objective function (input of each sub-gradient call) plus the returned target.
//
// Monitors:
//  (1) per sub-iteration and voxel:
//        lambda_new = clamp(lambda + zeta_n * (N * grad_S L(lambda) - grad R(lambda)) / D, 0, upper bound)
//      in float64 from the dense G with a computed float32 band;  D = max(D_pre + 2*surrogate curvature, 1e-5*min positive),
//      D_pre = sum_b G_bv (G 1)_b / (y_b n_b^2) with divide_and_truncate's documented rules (quotient 1e4 where y_b = 0);
//      zeta_n = alpha/(1+gamma n), n "the (full) iteration number" (class documentation).  Both the 0-based and the 1-based
//      numbering of full iterations are accepted (the statement does not fix it), but one of them has to fit ALL
//      sub-iterations of a run: a relaxation that changes inside a full iteration is reported under its own key
//      "ossps:relaxation-changes-within-a-full-iteration" (genuine on the tree before the fix: n was computed as
//      subiteration_num/num_subsets with the 1-based counter, so the last sub-iteration of every full iteration already
//      used the next iteration's relaxation);
//  (2) the precomputed denominator file written at set_up equals D_pre (band) and is non-negative;
//  (3) every iterate is finite and within [0, upper bound];
//  (4) restart (no prior / quadratic prior): a FRESH reconstruction + objective function started at k+1 from the iterate
//      after k (memory copy, or the Interfile file the uninterrupted run saved; denominator recomputed or read from the
//      file the first run wrote) reproduces all later iterates bit-for-bit.  Key
//      "ossps:restart:voxels-without-sensitivity-reset-to-zero-at-restart-only": the restarted run zeroed the voxels no bin
//      sees once more although the prior had moved them in the uninterrupted run (genuine on the tree before the fix).
// relaxation parameter / gamma / upper bound have no set_ functions: they are set through the documented parsing keys.
#include "common/verif.h"
#include "common/gen.h"
#include "common/recon_ref.h"
#include "stir/OSSPS/OSSPSReconstruction.h"
#include "stir/IO/OutputFileFormat.h"
#include <sstream>

using namespace stir;
using namespace rr;
using vf::Ctx;

struct RunCfg
{
  int N = 1, Ntot = 1, start_subset = 0;
  bool use_subset_sens = true;
  PriorSpec prior;
  bool randomise = false;
  int positivity = 0;
  float alpha = 1.f, gamma = 0.1f;
  bool has_upper = false;
  float upper = 0.f;
};

struct RunOut
{
  int start = 1;
  std::vector<std::vector<float>> it; // it[j - (start-1)] = iterate after sub-iteration j (it[0]: input of the first update)
  std::vector<int> subsets;
  std::vector<float> given_start, start_after_setup;
  std::string prefix;
  const std::vector<float>& after(int j) const { return it[static_cast<size_t>(j - (start - 1))]; }
};

static void
run_ossps(const World& w, const RunCfg& rc, const std::vector<float>& start_image, const shared_ptr<Target>& start_object, int start,
          const std::string& prefix, bool save_iterates, int positivity, const std::string& denominator_file, RunOut& out)
{
  shared_ptr<RecObj> obj = make_objective(w, rc.N, rc.prior, rc.use_subset_sens);
  OSSPSReconstruction<Target> recon;
  recon.set_objective_function_sptr(obj);
  recon.set_num_subsets(rc.N);
  recon.set_num_subiterations(rc.Ntot);
  recon.set_start_subset_num(rc.start_subset);
  recon.set_start_subiteration_num(start);
  recon.set_randomise_subset_order(rc.randomise);
  recon.set_output_filename_prefix(prefix); // OSSPS always writes <prefix>_precomputed_denominator
  recon.set_disable_output(!save_iterates);
  recon.set_save_interval(save_iterates ? 1 : rc.Ntot);
  {
    std::ostringstream par;
    par << "OSSPSParameters :=\n";
    par << "relaxation parameter := " << vf::fmt("%.9g", rc.alpha) << "\n";
    par << "relaxation gamma := " << vf::fmt("%.9g", rc.gamma) << "\n";
    if (rc.has_upper)
      par << "upper bound := " << vf::fmt("%.9g", rc.upper) << "\n";
    par << "enforce initial positivity condition := " << positivity << "\n";
    if (!denominator_file.empty())
      par << "precomputed denominator := " << denominator_file << "\n";
    par << "End :=\n";
    std::istringstream in(par.str());
    if (!recon.parse(in))
      throw vf::Skip("OSSPS parameters rejected by the parser");
  }
  shared_ptr<Target> tgt = start_object ? start_object : w.img_from(start_image);
  out.start = start;
  out.prefix = prefix;
  out.given_start = World::vec_from(*tgt);
  if (recon.set_up(tgt) != Succeeded::yes)
    throw vf::Skip("reconstruction set_up returned no");
  out.start_after_setup = World::vec_from(*tgt);
  obj->calls.clear();
  if (recon.reconstruct(tgt) != Succeeded::yes)
    throw std::runtime_error("reconstruct returned Succeeded::no");
  out.it.clear();
  out.subsets.clear();
  for (const RecObj::Call& c : obj->calls)
    {
      out.it.push_back(c.input);
      out.subsets.push_back(c.subset);
    }
  out.it.push_back(World::vec_from(*tgt));
}

// "interrupted and resumed" with the SAME reconstruction and objective-function objects (see c07): sub-iterations 1..k, then the
// same objects are told to start at k+1, set up again and run to Ntot on the image they left.  out = second leg.
static bool
run_ossps_resumed_same_objects(const World& w, const RunCfg& rc, const std::vector<float>& start_image, int k, const std::string& prefix, RunOut& out)
{
  shared_ptr<RecObj> obj = make_objective(w, rc.N, rc.prior, rc.use_subset_sens);
  OSSPSReconstruction<Target> recon;
  recon.set_objective_function_sptr(obj);
  recon.set_num_subsets(rc.N);
  recon.set_num_subiterations(k);
  recon.set_start_subset_num(rc.start_subset);
  recon.set_start_subiteration_num(1);
  recon.set_randomise_subset_order(rc.randomise);
  recon.set_output_filename_prefix(prefix);
  recon.set_disable_output(true);
  recon.set_save_interval(k);
  {
    std::ostringstream par;
    par << "OSSPSParameters :=\n";
    par << "relaxation parameter := " << vf::fmt("%.9g", rc.alpha) << "\n";
    par << "relaxation gamma := " << vf::fmt("%.9g", rc.gamma) << "\n";
    if (rc.has_upper)
      par << "upper bound := " << vf::fmt("%.9g", rc.upper) << "\n";
    par << "enforce initial positivity condition := 0\n";
    par << "End :=\n";
    std::istringstream in(par.str());
    if (!recon.parse(in))
      return false;
  }
  shared_ptr<Target> tgt = w.img_from(start_image);
  if (recon.set_up(tgt) != Succeeded::yes)
    return false;
  if (recon.reconstruct(tgt) != Succeeded::yes)
    return false;
  recon.set_start_subiteration_num(k + 1);
  recon.set_num_subiterations(rc.Ntot);
  recon.set_save_interval(rc.Ntot);
  out.start = k + 1;
  out.given_start = World::vec_from(*tgt);
  if (recon.set_up(tgt) != Succeeded::yes)
    return false;
  out.start_after_setup = World::vec_from(*tgt);
  obj->calls.clear();
  if (recon.reconstruct(tgt) != Succeeded::yes)
    return false;
  out.it.clear();
  out.subsets.clear();
  for (const RecObj::Call& c : obj->calls)
    {
      out.it.push_back(c.input);
      out.subsets.push_back(c.subset);
    }
  out.it.push_back(World::vec_from(*tgt));
  return true;
}

static double
zeta(const RunCfg& rc, int n)
{
  return static_cast<double>(rc.alpha) / (1. + static_cast<double>(rc.gamma) * n);
}

static void
run_case(Ctx& ctx)
{
  vf::Rng& rng = ctx.rng;
  if (ctx.tmpdir.empty())
    throw vf::Skip("no temporary directory (OSSPS always writes its precomputed denominator)");
  World w;
  gen_cfg(rng, w.c, ctx.thorough());
  RunCfg rc;
  const double u = rng.u01();
  const bool prior_case = u < 0.5;
  rc.randomise = rng.coin(0.1);
  rc.positivity = rng.coin(0.2) ? 1 : 0;
  const bool files = !rc.randomise && rng.coin(0.3);
  ctx.desc.add("geometry", w.c.desc());
  ctx.heartbeat("geometry");
  build_geometry(w);
  // numbers of subsets: mostly what the balance check of OSMAPOSL would accept (the class "probably assumes balanced
  // subsets"), sometimes any number up to the number of views (the update formula does not depend on balance)
  const bool any_N = rng.coin(0.3);
  if (any_N || w.balanced.empty())
    {
      rc.N = static_cast<int>(rng.range(1, w.nviews));
      rc.use_subset_sens = true;
    }
  else
    {
      rc.N = rng.pick(w.balanced);
      if (rc.N == 1 && w.balanced.size() > 1 && rng.coin(0.7))
        rc.N = w.balanced[static_cast<size_t>(rng.range(1, static_cast<long>(w.balanced.size()) - 1))];
      rc.use_subset_sens = rng.coin(0.8);
    }
  const int iters = static_cast<int>(rng.range(1, 3));
  rc.Ntot = std::min(rc.N * iters + static_cast<int>(rng.range(0, rc.N - 1)), ctx.thorough() ? 36 : 20);
  if (rc.N == 1)
    rc.Ntot = static_cast<int>(rng.range(2, 6));
  rc.start_subset = static_cast<int>(rng.range(0, rc.N - 1));
  if (prior_case)
    {
      rc.prior.kind = rng.coin(0.7) ? 1 : 3;
      rc.prior.beta = static_cast<float>(std::pow(10., rng.uniform(-2., 1.)));
      rc.prior.only_2D = rng.coin(0.3);
      rc.prior.kappa = rng.coin(0.5);
    }
  rc.alpha = static_cast<float>(rng.uniform(0.3, 2.));
  {
    const double g = rng.u01();
    rc.gamma = g < 0.15 ? 0.f : (g < 0.4 ? 0.1f : static_cast<float>(rng.uniform(0.05, 1.)));
  }
  const std::vector<float> truth = gen_data(w, rng, ctx);
  if (rc.prior.kappa)
    {
      rc.prior.kappa_vals.resize(w.nvox);
      for (auto& x : rc.prior.kappa_vals)
        x = static_cast<float>(rng.uniform(0.5, 1.5));
    }
  double tmean = 0;
  for (float t : truth)
    tmean += t;
  tmean /= w.nvox;
  rc.has_upper = rng.coin(0.65);
  if (rc.has_upper)
    rc.upper = static_cast<float>(tmean * rng.uniform(0.8, 4.));
  const double U = rc.has_upper ? static_cast<double>(rc.upper) : static_cast<double>(std::numeric_limits<float>::max());
  std::vector<float> start(w.nvox);
  const double spread = rng.coin(0.5) ? 3. : 1.3;
  const bool zeros_in_start = rng.coin(0.3);
  for (auto& x : start)
    {
      x = static_cast<float>(std::min(tmean * std::pow(spread, rng.uniform(-1., 1.)), U));
      if (zeros_in_start && rng.coin(0.15))
        x = 0.f;
    }
  {
    vf::Desc d;
    d.add("num_subsets", rc.N).add("num_subiterations", rc.Ntot).add("start_subset", rc.start_subset);
    d.add("use_subset_sensitivities", rc.use_subset_sens).add("prior", rc.prior.desc());
    d.add("relaxation_parameter", rc.alpha).add("relaxation_gamma", rc.gamma).add("has_upper_bound", rc.has_upper).add("upper_bound", rc.upper);
    d.add("randomise_subset_order", rc.randomise).add("enforce_initial_positivity", rc.positivity);
    d.add("zeros_in_start_image", zeros_in_start).add("saved_files", files).add("total_counts", w.total_counts);
    d.add("nbins", w.nbins).add("nvox", w.nvox).add("matrix_nonzeros", w.nnz);
    ctx.desc.add("run", d);
  }
  ctx.heartbeat("main-run");

  // ---------------------------------------------------------------- the uninterrupted run
  static long file_counter = 0;
  const std::string prefix = ctx.tmpdir + vf::fmt("/c08_%ld_%ld", ctx.idx, file_counter++);
  RunOut main;
  try
    {
      run_ossps(w, rc, start, shared_ptr<Target>(), 1, prefix, files, rc.positivity, std::string(), main);
    }
  catch (const vf::Skip&)
    {
      throw;
    }
  catch (const std::exception& e)
    {
      const std::string what = e.what();
      if (what.find("setup_distributable_computation not called") != std::string::npos)
        {
          ctx.violation("objective-function:setup_distributable_computation-not-called:during-reconstruction", what);
          return;
        }
      throw vf::Skip(std::string("reconstruction rejected: ") + what);
    }
  if (static_cast<int>(main.subsets.size()) != rc.Ntot)
    {
      ctx.violation("ossps:number-of-updates-differs-from-number-of-subiterations",
                    vf::fmt("%zu sub-gradient calls for %d sub-iterations", main.subsets.size(), rc.Ntot));
      return;
    }
  const std::vector<double> s_total = total_sensitivity(w);
  // set_up: documented changes only (enforce_initial_positivity lifts non-positive voxels)
  for (int v = 0; v < w.nvox; ++v)
    {
      const float a = main.given_start[v], b = main.start_after_setup[v];
      if (std::memcmp(&a, &b, sizeof(float)) != 0 && (rc.positivity == 0 || a > 0))
        {
          ctx.violation("ossps:set_up-changed-the-start-image", vf::fmt("%s %.9g -> %.9g (enforce_initial_positivity %d)", w.vox_name(v).c_str(), a, b, rc.positivity));
          return;
        }
    }
  // first update: voxels no bin sees may be zeroed (fill_nonidentifiable_target_parameters), all others are the start image
  for (int v = 0; v < w.nvox; ++v)
    {
      const float a = main.start_after_setup[v], b = main.after(0)[v];
      if (std::memcmp(&a, &b, sizeof(float)) != 0 && !(s_total[v] == 0 && b == 0.f))
        {
          ctx.violation("ossps:first-update-does-not-start-from-the-start-image", vf::fmt("%s %.9g -> %.9g", w.vox_name(v).c_str(), a, b));
          return;
        }
    }
  ctx.count(rc.N == 1 ? "subsets_1" : (rc.N <= 4 ? "subsets_2_to_4" : "subsets_5_or_more"));
  ctx.count(rc.prior.kind == 0 ? "prior_none" : (rc.prior.kind == 1 ? (rc.prior.kappa ? "prior_quadratic_kappa" : "prior_quadratic") : "prior_quadratic_recompute_curvature"));
  if (w.c.additive)
    ctx.count("cases_with_additive_term");
  if (w.c.norm)
    ctx.count("cases_with_normalisation");
  if (rc.has_upper)
    ctx.count("cases_with_upper_bound");
  if (rc.randomise)
    ctx.count("cases_randomised_subset_order");
  if (any_N)
    ctx.count("cases_any_number_of_subsets");

  // ---------------------------------------------------------------- (2): the precomputed denominator
  DenRef Dpre;
  precomputed_denominator(w, rc.N, Dpre);
  ctx.count("denominator_bins_with_capped_quotient", Dpre.capped);
  const std::string den_file = prefix + "_precomputed_denominator.hv";
  {
    shared_ptr<Target> img;
    bool same_geo = false;
    std::vector<float> vals;
    try
      {
        vals = read_image_values(w, den_file, img, same_geo);
      }
    catch (const std::exception& e)
      {
        ctx.violation("ossps:precomputed-denominator-file-cannot-be-read", den_file + ": " + e.what());
        return;
      }
    if (static_cast<int>(vals.size()) != w.nvox)
      {
        ctx.violation("ossps:precomputed-denominator-file-has-wrong-size", den_file);
        return;
      }
    for (int v = 0; v < w.nvox; ++v)
      {
        if (!(vals[v] >= 0.f) || !std::isfinite(vals[v]))
          {
            ctx.violation("ossps:precomputed-denominator-negative-or-not-finite", vf::fmt("%s = %.9g", w.vox_name(v).c_str(), vals[v]));
            return;
          }
        if (Dpre.skip[v])
          continue;
        if (!vf::close_enough(static_cast<double>(vals[v]), Dpre.D[v], Dpre.band[v]))
          {
            ctx.violation("ossps:precomputed-denominator-differs-from-reference",
                          vf::fmt("%s: file %.9g, reference sum_b G (G1)/(y n^2) = %.9g +- %.3g", w.vox_name(v).c_str(), vals[v], Dpre.D[v], Dpre.band[v]));
            return;
          }
        ctx.count("denominator_voxels_compared");
      }
  }

  // ---------------------------------------------------------------- (1),(3): every sub-iteration against the reference
  PriorProbe probe;
  std::vector<float> curv;
  if (rc.prior.kind != 0)
    probe.init(w, rc.prior);
  long updates_checked = 0;
  bool all0 = true, all1 = true;
  std::string fit_log;
  const float Uf = rc.has_upper ? rc.upper : std::numeric_limits<float>::max();
  for (int j = 1; j <= rc.Ntot; ++j)
    {
      const std::vector<float>& before = main.after(j - 1);
      const std::vector<float>& got = main.after(j);
      const int subset = main.subsets[static_cast<size_t>(j - 1)];
      if (subset < 0 || subset >= rc.N)
        {
          ctx.violation("ossps:subset-number-out-of-range", vf::fmt("subset %d at sub-iteration %d of %d subsets", subset, j, rc.N));
          return;
        }
      if (!rc.randomise && subset != (j + rc.start_subset - 1) % rc.N)
        {
          ctx.violation("ossps:subset-differs-from-documented-schedule",
                        vf::fmt("sub-iteration %d used subset %d, documented (subiteration_num+start_subset_num-1)%%num_subsets = %d", j,
                                subset, (j + rc.start_subset - 1) % rc.N));
          return;
        }
      for (int v = 0; v < w.nvox; ++v)
        if (!(got[v] >= 0.f) || !(got[v] <= Uf) || !std::isfinite(got[v]))
          {
            ctx.violation(got[v] > Uf ? "ossps:iterate-above-upper-bound" : "ossps:iterate-negative-or-not-finite",
                          vf::fmt("after sub-iteration %d %s = %.9g (upper bound %.9g)", j, w.vox_name(v).c_str(), got[v], Uf));
            return;
          }
      ctx.count("bound_checks");
      std::vector<float> g;
      if (rc.prior.kind != 0)
        {
          g = probe.gradient(before);
          curv = probe.curvature(before);
        }
      const int n0 = (j - 1) / rc.N, n1 = n0 + 1;
      SpsRef S0, S1;
      sps_step(w, before, subset, rc.N, g, curv, Dpre, zeta(rc, n0), U, S0);
      sps_step(w, before, subset, rc.N, g, curv, Dpre, zeta(rc, n1), U, S1);
      ctx.count("voxels_skipped_near_truncation_switch", S0.skipped);
      ctx.count("bins_with_capped_quotient", S0.capped);
      ctx.count("voxels_with_thresholded_denominator", S0.thresholded_den);
      bool fit0 = true, fit1 = true;
      int bad0 = -1, bad1 = -1;
      long compared = 0, clamped_low = 0, clamped_up = 0;
      for (int v = 0; v < w.nvox; ++v)
        {
          if (S0.skip[v])
            continue;
          ++compared;
          if (S0.unclamped[v] < 0)
            ++clamped_low;
          else if (S0.unclamped[v] > U)
            ++clamped_up;
          if (!vf::close_enough(static_cast<double>(got[v]), S0.ref[v], S0.band[v]))
            {
              fit0 = false;
              if (bad0 < 0)
                bad0 = v;
            }
          if (!vf::close_enough(static_cast<double>(got[v]), S1.ref[v], S1.band[v]))
            {
              fit1 = false;
              if (bad1 < 0)
                bad1 = v;
            }
        }
      if (!fit0 && !fit1)
        {
          const int v = bad0;
          // what step ratio would explain the observation (diagnostic only)
          const double step_ref = S0.unclamped[v] - before[v], step_got = static_cast<double>(got[v]) - before[v];
          const char* cls = rc.prior.kind == 0 ? "" : ":with-prior";
          ctx.violation(std::string("ossps:update-differs-from-reference") + cls,
                        vf::fmt("sub-iteration %d subset %d/%d %s: lambda %.9g -> STIR %.9g; reference %.9g +- %.3g with n=%d (zeta %.9g), %.9g +- "
                                "%.3g with n=%d (zeta %.9g); observed step / reference step(n=%d) = %.6g; alpha %.9g gamma %.9g upper %.9g",
                                j, subset, rc.N, w.vox_name(v).c_str(), before[v], got[v], S0.ref[v], S0.band[v], n0, zeta(rc, n0), S1.ref[v],
                                S1.band[v], n1, zeta(rc, n1), n0, step_ref != 0 ? step_got / step_ref : 0., rc.alpha, rc.gamma, U));
          return;
        }
      all0 = all0 && fit0;
      all1 = all1 && fit1;
      if (fit0 != fit1)
        {
          fit_log += vf::fmt("sub-iteration %d (full iteration %d): relaxation fits n=%d only; ", j, n0 + 1, fit0 ? n0 : n1);
          ctx.count(fit0 ? "updates_fitting_zero_based_iteration_number_only" : "updates_fitting_one_based_iteration_number_only");
          ctx.count("updates_discriminating_iteration_numbering");
        }
      else
        ctx.count("updates_not_discriminating_iteration_numbering");
      ctx.count("voxels_compared", compared);
      ctx.count("voxels_clamped_at_zero", clamped_low);
      ctx.count("voxels_clamped_at_upper_bound", clamped_up);
      ++updates_checked;
      ctx.count("updates_checked");
    }
  const bool relaxation_inconsistent = !all0 && !all1;

  // ---------------------------------------------------------------- saved files == in-memory iterates
  std::vector<shared_ptr<Target>> file_objects(static_cast<size_t>(rc.Ntot) + 1);
  if (files)
    {
      ctx.heartbeat("read-saved-iterates");
      for (int j = 1; j <= rc.Ntot; ++j)
        {
          const std::string fn = prefix + vf::fmt("_%d.hv", j);
          shared_ptr<Target> img;
          bool same_geo = false;
          std::vector<float> vals;
          try
            {
              vals = read_image_values(w, fn, img, same_geo);
            }
          catch (const std::exception& e)
            {
              ctx.violation("ossps:saved-iterate-cannot-be-read", fn + ": " + e.what());
              return;
            }
          if (!same_bits(vals, main.after(j)))
            {
              const int v = std::max(0, first_diff(vals, main.after(j)));
              ctx.violation("ossps:saved-iterate-differs-from-iterate-in-memory", vf::fmt("%s %s", fn.c_str(), w.vox_name(v).c_str()));
              return;
            }
          ctx.count("saved_iterates_read_back");
          if (same_geo)
            file_objects[static_cast<size_t>(j)] = img;
          else
            ctx.count("saved_iterates_geometry_not_identical_after_read");
        }
    }

  // ---------------------------------------------------------------- (4): restart
  if (!rc.randomise)
    {
      std::vector<int> points;
      for (int k = 1; k < rc.Ntot; ++k)
        points.push_back(k);
      const size_t max_points = ctx.thorough() ? 1000 : 5;
      if (points.size() > max_points)
        {
          rng.shuffle(points);
          points.resize(max_points);
          std::sort(points.begin(), points.end());
        }
      for (int k : points)
        {
          const bool from_file = files && file_objects[static_cast<size_t>(k)] && rng.coin(0.7);
          const bool den_from_file = rng.coin(0.35);
          ctx.heartbeat(vf::fmt("restart-at-%d", k + 1));
          RunOut r;
          shared_ptr<Target> start_obj;
          if (from_file)
            start_obj.reset(file_objects[static_cast<size_t>(k)]->clone());
          run_ossps(w, rc, main.after(k), start_obj, k + 1, prefix + vf::fmt("_restart%d", k + 1), false, rc.positivity,
                    den_from_file ? den_file : std::string(), r);
          ctx.count("restart_points");
          if (static_cast<int>(r.subsets.size()) != rc.Ntot - k)
            {
              ctx.violation("ossps:restart:number-of-updates-differs", vf::fmt("%zu updates for sub-iterations %d..%d", r.subsets.size(), k + 1, rc.Ntot));
              return;
            }
          if (!same_bits(r.given_start, r.start_after_setup))
            {
              // enforce_initial_positivity lifted non-positive voxels of the saved iterate (documented): reported separately
              if (rc.positivity == 0)
                {
                  ctx.violation("ossps:restart:set_up-changed-start-image-without-enforce_initial_positivity",
                                w.vox_name(std::max(0, first_diff(r.given_start, r.start_after_setup))));
                  return;
                }
              ctx.count("restarts_positivity_on_start_image_lifted");
              continue;
            }
          // the first update of the restarted run must start from the saved iterate
          bool reset_zero_sens = false;
          for (int v = 0; v < w.nvox; ++v)
            {
              const float a = main.after(k)[v], b = r.after(k)[v];
              if (std::memcmp(&a, &b, sizeof(float)) != 0)
                {
                  if (s_total[v] == 0 && b == 0.f)
                    reset_zero_sens = true;
                  else
                    {
                      ctx.violation("ossps:restart:first-update-does-not-start-from-the-saved-iterate",
                                    vf::fmt("restart at %d: %s saved %.9g, used %.9g", k + 1, w.vox_name(v).c_str(), a, b));
                      return;
                    }
                }
            }
          bool differs = false;
          int dj = 0, dv = 0;
          for (int j = k + 1; j <= rc.Ntot && !differs; ++j)
            {
              if (r.subsets[static_cast<size_t>(j - k - 1)] != main.subsets[static_cast<size_t>(j - 1)])
                {
                  ctx.violation("ossps:restart:subset-schedule-differs-from-uninterrupted-run",
                                vf::fmt("restart at %d: sub-iteration %d uses subset %d, uninterrupted run used %d", k + 1, j,
                                        r.subsets[static_cast<size_t>(j - k - 1)], main.subsets[static_cast<size_t>(j - 1)]));
                  return;
                }
              if (!same_bits(r.after(j), main.after(j)))
                {
                  differs = true;
                  dj = j;
                  dv = std::max(0, first_diff(r.after(j), main.after(j)));
                }
              else
                ctx.count("restart_iterates_compared");
            }
          if (differs)
            {
              const std::string wit = vf::fmt("restart at sub-iteration %d from the iterate after %d (%s, denominator %s): iterate %d %s = %.9g, "
                                              "uninterrupted %.9g (sensitivity of that voxel %.6g)",
                                              k + 1, k, from_file ? "saved file" : "memory copy", den_from_file ? "read from file" : "recomputed",
                                              dj, w.vox_name(dv).c_str(), r.after(dj)[static_cast<size_t>(dv)],
                                              main.after(dj)[static_cast<size_t>(dv)], s_total[dv]);
              if (reset_zero_sens)
                ctx.violation("ossps:restart:voxels-without-sensitivity-reset-to-zero-at-restart-only", wit);
              else
                ctx.violation(std::string("ossps:restart:iterate-differs-from-uninterrupted-run") + (rc.prior.kind ? ":with-prior" : ""), wit);
              return;
            }
          ctx.count("restarts_checked");
          if (reset_zero_sens)
            ctx.count("restarts_with_zero_sensitivity_voxels_reset_but_equal");
          if (from_file)
            ctx.count("file_roundtrip_restarts");
          if (den_from_file)
            ctx.count("restarts_with_denominator_read_from_file");
        }
      // (4b) the same objects interrupted after k and resumed (start sub-iteration k+1, set_up again, reconstruct)
      // VERIF_NO_SAME_OBJECT_RESUME: development switch (shows what the check saw before this clause existed)
      if (!std::getenv("VERIF_NO_SAME_OBJECT_RESUME") && rc.Ntot >= 2 && rc.positivity == 0 && same_bits(main.given_start, main.start_after_setup) && rng.coin(ctx.thorough() ? 0.8 : 0.5))
        {
          const int k = static_cast<int>(rng.range(1, rc.Ntot - 1));
          ctx.heartbeat(vf::fmt("same-object-resume-at-%d", k + 1));
          RunOut r;
          if (!run_ossps_resumed_same_objects(w, rc, start, k, prefix + vf::fmt("_resume%d", k + 1), r))
            ctx.count("same_object_resumes_rejected_by_library");
          else if (static_cast<int>(r.subsets.size()) != rc.Ntot - k)
            ctx.violation("ossps:resume-same-objects:number-of-updates-differs", vf::fmt("%zu updates for sub-iterations %d..%d", r.subsets.size(), k + 1, rc.Ntot));
          else if (!same_bits(r.given_start, main.after(k)))
            ctx.violation("ossps:resume-same-objects:first-leg-differs-from-uninterrupted-run",
                          vf::fmt("iterate after %d sub-iterations of a run limited to %d: %s", k, k,
                                  w.vox_name(std::max(0, first_diff(r.given_start, main.after(k)))).c_str()));
          else if (!same_bits(r.given_start, r.start_after_setup))
            ctx.violation("ossps:resume-same-objects:set_up-changed-the-image-without-enforce_initial_positivity",
                          w.vox_name(std::max(0, first_diff(r.given_start, r.start_after_setup))));
          else
            {
              bool ok = true, reset_zero_sens = false;
              for (int v = 0; v < w.nvox && ok; ++v)
                {
                  const float a = main.after(k)[v], b = r.after(k)[v];
                  if (std::memcmp(&a, &b, sizeof(float)) != 0)
                    {
                      if (s_total[v] == 0 && b == 0.f)
                        reset_zero_sens = true;
                      else
                        {
                          ctx.violation("ossps:resume-same-objects:first-update-does-not-start-from-the-iterate-left",
                                        vf::fmt("resume at %d: %s left %.9g, used %.9g", k + 1, w.vox_name(v).c_str(), a, b));
                          ok = false;
                        }
                    }
                }
              for (int j = k + 1; j <= rc.Ntot && ok; ++j)
                {
                  if (r.subsets[static_cast<size_t>(j - k - 1)] != main.subsets[static_cast<size_t>(j - 1)])
                    {
                      ctx.violation("ossps:resume-same-objects:subset-schedule-differs-from-uninterrupted-run",
                                    vf::fmt("resumed at %d: sub-iteration %d uses subset %d, uninterrupted run used %d", k + 1, j,
                                            r.subsets[static_cast<size_t>(j - k - 1)], main.subsets[static_cast<size_t>(j - 1)]));
                      ok = false;
                    }
                  else if (!same_bits(r.after(j), main.after(j)))
                    {
                      const int v = std::max(0, first_diff(r.after(j), main.after(j)));
                      const std::string wit = vf::fmt("same objects interrupted after %d and resumed: iterate %d %s = %.9g, uninterrupted %.9g (num_subsets %d, "
                                                      "subset sensitivities %d, prior %d, sensitivity of that voxel %.6g)",
                                                      k, j, w.vox_name(v).c_str(), r.after(j)[static_cast<size_t>(v)], main.after(j)[static_cast<size_t>(v)], rc.N,
                                                      rc.use_subset_sens, rc.prior.kind, s_total[v]);
                      if (reset_zero_sens)
                        ctx.violation("ossps:resume-same-objects:voxels-without-sensitivity-reset-to-zero-at-resume-only", wit);
                      else
                        ctx.violation(std::string("ossps:resume-same-objects:iterate-differs-from-uninterrupted-run") + (rc.prior.kind ? ":with-prior" : ""), wit);
                      ok = false;
                    }
                  else
                    ctx.count("same_object_resume_iterates_compared");
                }
              if (ok)
                ctx.count("same_object_resumes_checked");
            }
        }
    }
  ctx.nontrivial = w.nnz >= 30 && w.total_counts > 0 && updates_checked >= 2;
  if (relaxation_inconsistent)
    ctx.violation("ossps:relaxation-changes-within-a-full-iteration",
                  vf::fmt("num_subsets %d, alpha %.9g, gamma %.9g: no numbering of full iterations (0-based or 1-based) explains all updates: %s"
                          "(documentation: zeta = alpha/(1+gamma n), n the (full) iteration number)",
                          rc.N, rc.alpha, rc.gamma, fit_log.c_str()));
}

int
main(int argc, char** argv)
{
  vg::quiet();
  return vf::verif_main(argc, argv, "C08", run_case);
}
