// C09: priors - value, gradient and Hessian are mutually consistent and convex (DESIGN.md §6 C09).
//
// Oracles
//  (1) an independent float64 reference written from the class documentation (QuadraticPrior.h,
//      RelativeDifferencePrior.h, LogcoshPrior.h, PLSPrior.h): value = sum over voxels r and in-image
//      neighbours r+dr of w_dr * psi(lambda_r, lambda_r+dr) * kappa_r * kappa_r+dr; its analytic gradient and
//      Hessian.  STIR's float32 results are compared with computed bands (vf::band32).
//  (2) central finite differences in float64 of that reference along random directions: validates at run
//      time that reference value / gradient / Hessian are mutually consistent (so "STIR == reference within
//      the band" implies STIR's three quantities are mutually consistent).  For PLS (no formula for the
//      gradient in the documentation) the gradient oracle is the derivative of the documented value.
//  (3) STIR-only relations: Hessian row j (compute_Hessian) == accumulate_Hessian_times_input(e_j),
//      H_jk == H_kj, H v from rows == accumulate_Hessian_times_input(v), v^T H v >= -band (is_convex()),
//      midpoint convexity of the value, linearity in the penalisation factor, gradient(uniform) == 0,
//      accumulate really accumulates, penalisation factor 0 short-cuts.
#include "common/verif.h"
#include "common/gen.h"
#include "stir/recon_buildblock/QuadraticPrior.h"
#include "stir/recon_buildblock/RelativeDifferencePrior.h"
#include "stir/recon_buildblock/LogcoshPrior.h"
#include "stir/recon_buildblock/PLSPrior.h"
#include "stir/VoxelsOnCartesianGrid.h"
#include "stir/DiscretisedDensity.h"
#include "stir/IndexRange3D.h"
#include "stir/Array.h"
#include "stir/BasicCoordinate.h"
#include "stir/Succeeded.h"
#include <sstream>
#include <memory>

using namespace stir;
using vf::Ctx;
using vf::EPS32;

typedef DiscretisedDensity<3, float> DD;
typedef VoxelsOnCartesianGrid<float> Img;
typedef std::vector<double> dvec;

namespace {

enum PType
{
  PQ = 0,
  PRDP = 1,
  PLC = 2,
  PPLS = 3
};
const char* const PNAME[] = { "Quadratic", "RDP", "Logcosh", "PLS" };

// ------------------------------------------------------------------ geometry (0-based offsets internally)
struct Geo
{
  int nz = 1, ny = 1, nx = 1;
  int mz = 0, my = 0, mx = 0; // STIR min indices
  float vz = 1, vy = 1, vx = 1;
  int N() const { return nz * ny * nx; }
  int lin(int z, int y, int x) const { return (z * ny + y) * nx + x; }
  bool in(int z, int y, int x) const { return z >= 0 && z < nz && y >= 0 && y < ny && x >= 0 && x < nx; }
  std::string vox(int j) const
  {
    const int x = j % nx, y = (j / nx) % ny, z = j / (nx * ny);
    return vf::fmt("[z=%d,y=%d,x=%d](offset %d,%d,%d)", z + mz, y + my, x + mx, z, y, x);
  }
};

static shared_ptr<Img>
mk_image(const Geo& g, const std::vector<float>& v)
{
  IndexRange3D r(g.mz, g.mz + g.nz - 1, g.my, g.my + g.ny - 1, g.mx, g.mx + g.nx - 1);
  shared_ptr<Img> im(new Img(r, CartesianCoordinate3D<float>(0.f, 0.f, 0.f), CartesianCoordinate3D<float>(g.vz, g.vy, g.vx)));
  for (int z = 0; z < g.nz; ++z)
    for (int y = 0; y < g.ny; ++y)
      for (int x = 0; x < g.nx; ++x)
        (*im)[z + g.mz][y + g.my][x + g.mx] = v[g.lin(z, y, x)];
  return im;
}
static void
rd_image(const Geo& g, const DD& im, std::vector<float>& v)
{
  v.resize(g.N());
  for (int z = 0; z < g.nz; ++z)
    for (int y = 0; y < g.ny; ++y)
      for (int x = 0; x < g.nx; ++x)
        v[g.lin(z, y, x)] = im[z + g.mz][y + g.my][x + g.mx];
}

// ------------------------------------------------------------------ neighbourhood weights
struct Wts
{
  int hz = 0, hy = 0, hx = 0;
  dvec w;
  void shape(int hz_, int hy_, int hx_)
  {
    hz = hz_;
    hy = hy_;
    hx = hx_;
    w.assign((2 * hz + 1) * (2 * hy + 1) * (2 * hx + 1), 0.);
  }
  double& at(int dz, int dy, int dx) { return w[((dz + hz) * (2 * hy + 1) + (dy + hy)) * (2 * hx + 1) + (dx + hx)]; }
  double at(int dz, int dy, int dx) const { return w[((dz + hz) * (2 * hy + 1) + (dy + hy)) * (2 * hx + 1) + (dx + hx)]; }
  int count() const { return static_cast<int>(w.size()); }
  bool point_symmetric() const
  {
    for (int dz = -hz; dz <= hz; ++dz)
      for (int dy = -hy; dy <= hy; ++dy)
        for (int dx = -hx; dx <= hx; ++dx)
          if (at(dz, dy, dx) != at(-dz, -dy, -dx))
            return false;
    return true;
  }
  Array<3, float> to_stir() const
  {
    Array<3, float> a(IndexRange3D(-hz, hz, -hy, hy, -hx, hx));
    for (int dz = -hz; dz <= hz; ++dz)
      for (int dy = -hy; dy <= hy; ++dy)
        for (int dx = -hx; dx <= hx; ++dx)
          a[dz][dy][dx] = static_cast<float>(at(dz, dy, dx));
    return a;
  }
  std::string text() const // {{{..},{..}},{..}} with round-trip precision
  {
    std::ostringstream s;
    s << "{";
    for (int dz = -hz; dz <= hz; ++dz)
      {
        s << (dz > -hz ? "," : "") << "{";
        for (int dy = -hy; dy <= hy; ++dy)
          {
            s << (dy > -hy ? "," : "") << "{";
            for (int dx = -hx; dx <= hx; ++dx)
              s << (dx > -hx ? "," : "") << vf::fmt("%.9g", at(dz, dy, dx));
            s << "}";
          }
        s << "}";
      }
    s << "}";
    return s.str();
  }
};

// documented default: 3x3 or 3x3x3, x-voxel-size divided by the Euclidean distance between the points
static Wts
default_weights(const Geo& g, bool only_2D)
{
  Wts w;
  w.shape(only_2D ? 0 : 1, 1, 1);
  for (int dz = -w.hz; dz <= w.hz; ++dz)
    for (int dy = -1; dy <= 1; ++dy)
      for (int dx = -1; dx <= 1; ++dx)
        {
          if (!dz && !dy && !dx)
            continue;
          const double ex = double(dx) * g.vx, ey = double(dy) * g.vy, ez = double(dz) * g.vz;
          w.at(dz, dy, dx) = double(g.vx) / std::sqrt(ex * ex + ey * ey + ez * ez);
        }
  return w;
}

// ------------------------------------------------------------------ pair potentials (documented formulas)
// value  f = pf * sum_{r,dr} w_dr psi(l_r, l_r+dr) k_r k_r+dr
// psi1 = 2 d psi/da,  psi20 = 2 d2psi/da2, psi11 = 2 d2psi/da db (the factor 2: every pair occurs twice in the sum)
struct Pot
{
  PType t = PQ;
  double gamma = 2, eps = 0, s = 1;
  static double lcosh(double x)
  {
    x = std::fabs(x);
    return x + std::log1p(std::exp(-2 * x)) - 0.6931471805599453094;
  }
  double psi(double a, double b) const
  {
    const double u = a - b;
    switch (t)
      {
      case PQ:
        return u * u / 4;
      case PRDP:
        return u * u / (2 * (a + b + gamma * std::fabs(u) + eps));
      default:
        return lcosh(s * u) / (2 * s * s);
      }
  }
  // magnitude that bounds the float32 evaluation error of one term (conditioning included)
  double psi_abs(double a, double b) const
  {
    if (t == PLC)
      return (1 + lcosh(s * (a - b))) / (2 * s * s); // log(cosh(x)): relative error of cosh is an absolute error of the log
    return std::fabs(psi(a, b));
  }
  double psi1(double a, double b) const
  {
    const double u = a - b;
    switch (t)
      {
      case PQ:
        return u;
      case PRDP:
        {
          const double D = a + b + gamma * std::fabs(u) + eps;
          return u * (gamma * std::fabs(u) + a + 3 * b + 2 * eps) / (D * D);
        }
      default:
        return std::tanh(s * u) / s;
      }
  }
  double psi20(double a, double b) const
  {
    switch (t)
      {
      case PQ:
        return 1;
      case PRDP:
        {
          const double D = a + b + gamma * std::fabs(a - b) + eps;
          return 2 * (2 * b + eps) * (2 * b + eps) / (D * D * D);
        }
      default:
        {
          const double c = std::cosh(s * (a - b));
          return 1 / (c * c);
        }
      }
  }
  double psi11(double a, double b) const
  {
    switch (t)
      {
      case PQ:
        return -1;
      case PRDP:
        {
          const double D = a + b + gamma * std::fabs(a - b) + eps;
          return -2 * (2 * a + eps) * (2 * b + eps) / (D * D * D);
        }
      default:
        return -psi20(a, b);
      }
  }
  double cond2(double a, double b) const // conditioning of the float32 second derivative w.r.t. rounding of its argument
  {
    return t == PLC ? 1 + 2 * std::fabs(s * (a - b)) : 1;
  }
};

const double NOPS_TERM = 14; // float operations per term: default weight (6) + potential (<=6) + kappa product (2)

// ------------------------------------------------------------------ reference for the three neighbourhood priors
struct NbRef
{
  Geo g;
  Wts w;
  Pot pot;
  dvec kap; // all 1 if no kappa
  double pf = 1;

  template <class F>
  void for_nb(int z, int y, int x, F f) const // in-image neighbours inside the weight support
  {
    for (int dz = std::max(-w.hz, -z); dz <= std::min(w.hz, g.nz - 1 - z); ++dz)
      for (int dy = std::max(-w.hy, -y); dy <= std::min(w.hy, g.ny - 1 - y); ++dy)
        for (int dx = std::max(-w.hx, -x); dx <= std::min(w.hx, g.nx - 1 - x); ++dx)
          f(dz, dy, dx, g.lin(z + dz, y + dy, x + dx));
  }
  double value(const dvec& l, double* A = nullptr) const
  {
    double V = 0, a = 0;
    for (int z = 0; z < g.nz; ++z)
      for (int y = 0; y < g.ny; ++y)
        for (int x = 0; x < g.nx; ++x)
          {
            const int j = g.lin(z, y, x);
            for_nb(z, y, x, [&](int dz, int dy, int dx, int k) {
              const double wk = w.at(dz, dy, dx) * kap[j] * kap[k];
              V += wk * pot.psi(l[j], l[k]);
              a += std::fabs(wk) * pot.psi_abs(l[j], l[k]);
            });
          }
    if (A)
      *A = a * pf;
    return V * pf;
  }
  // derivative of value(); sym=false gives the formula as documented for QuadraticPrior (w_dr, not (w_dr+w_-dr)/2)
  void gradient(const dvec& l, dvec& gr, dvec* A = nullptr, bool sym = true) const
  {
    gr.assign(g.N(), 0.);
    if (A)
      A->assign(g.N(), 0.);
    for (int z = 0; z < g.nz; ++z)
      for (int y = 0; y < g.ny; ++y)
        for (int x = 0; x < g.nx; ++x)
          {
            const int j = g.lin(z, y, x);
            double s = 0, a = 0;
            for_nb(z, y, x, [&](int dz, int dy, int dx, int k) {
              const double ww = sym ? 0.5 * (w.at(dz, dy, dx) + w.at(-dz, -dy, -dx)) : w.at(dz, dy, dx);
              const double t = ww * kap[j] * kap[k] * pot.psi1(l[j], l[k]);
              s += t;
              a += std::fabs(t);
            });
            gr[j] = s * pf;
            if (A)
              (*A)[j] = a * pf;
          }
  }
  // dense Hessian (row-major N x N) of value(), with centre-weight term optionally added the way STIR does
  void hessian(const dvec& l, dvec& H, dvec* A, std::vector<int>* nterms, bool stir_centre) const
  {
    const int N = g.N();
    H.assign(size_t(N) * N, 0.);
    if (A)
      A->assign(size_t(N) * N, 0.);
    if (nterms)
      nterms->assign(N, 0);
    for (int z = 0; z < g.nz; ++z)
      for (int y = 0; y < g.ny; ++y)
        for (int x = 0; x < g.nx; ++x)
          {
            const int j = g.lin(z, y, x);
            double d = 0, da = 0;
            int cnt = 0;
            for_nb(z, y, x, [&](int dz, int dy, int dx, int k) {
              ++cnt;
              const double ww = 0.5 * (w.at(dz, dy, dx) + w.at(-dz, -dy, -dx)) * kap[j] * kap[k] * pf;
              if (k == j)
                {
                  if (stir_centre)
                    {
                      d += ww * pot.psi20(l[j], l[j]);
                      da += std::fabs(ww) * pot.psi20(l[j], l[j]);
                    }
                  return;
                }
              const double c = pot.cond2(l[j], l[k]);
              d += ww * pot.psi20(l[j], l[k]);
              da += std::fabs(ww) * pot.psi20(l[j], l[k]) * c;
              H[size_t(j) * N + k] = ww * pot.psi11(l[j], l[k]);
              if (A)
                (*A)[size_t(j) * N + k] = std::fabs(H[size_t(j) * N + k]) * c;
            });
            H[size_t(j) * N + j] = d;
            if (A)
              (*A)[size_t(j) * N + j] = da;
            if (nterms)
              (*nterms)[j] = cnt;
          }
  }
};

// ------------------------------------------------------------------ reference for PLS (documented formula)
// phi_r = sqrt(alpha^2 + |grad f|^2 - <grad f, xi>^2), xi = grad v / sqrt(|grad v|^2 + eta^2), forward differences,
// a difference whose forward neighbour is outside the image is 0; value = pf * sum_r kappa_r phi_r
struct PlsRef
{
  Geo g;
  bool only_2D = false;
  double alpha = 1, eta = 1, pf = 1;
  dvec kap;
  dvec xi[3]; // normalised anatomical gradient per direction (0=z,1=y,2=x)
  dvec S_xi;  // sum_d |xi_d| (for bands)
  int d0() const { return only_2D ? 1 : 0; }
  int nb(int j, int d, int sgn) const // linear index of j +/- e_d or -1
  {
    int x = j % g.nx, y = (j / g.nx) % g.ny, z = j / (g.nx * g.ny);
    (d == 0 ? z : d == 1 ? y : x) += sgn;
    return g.in(z, y, x) ? g.lin(z, y, x) : -1;
  }
  void set_anatomical(const std::vector<float>& a)
  {
    const int N = g.N();
    for (int d = 0; d < 3; ++d)
      xi[d].assign(N, 0.);
    for (int j = 0; j < N; ++j)
      {
        double ga[3] = { 0, 0, 0 }, n2 = eta * eta;
        for (int d = d0(); d < 3; ++d)
          {
            const int k = nb(j, d, +1);
            ga[d] = k >= 0 ? double(a[k]) - double(a[j]) : 0.;
            n2 += ga[d] * ga[d];
          }
        for (int d = d0(); d < 3; ++d)
          xi[d][j] = ga[d] / std::sqrt(n2);
      }
  }
  struct Loc
  {
    double gd[3], ip, P, dP;
  };
  Loc local(const dvec& l, int j) const
  {
    Loc o;
    double s2 = 0, S_ip = 0;
    o.ip = 0;
    for (int d = 0; d < 3; ++d)
      {
        o.gd[d] = 0;
        if (d < d0())
          continue;
        const int k = nb(j, d, +1);
        o.gd[d] = k >= 0 ? l[k] - l[j] : 0.;
        s2 += o.gd[d] * o.gd[d];
        o.ip += o.gd[d] * xi[d][j];
        S_ip += std::fabs(o.gd[d] * xi[d][j]);
      }
    const double arg = alpha * alpha + s2 - o.ip * o.ip;
    o.P = std::sqrt(arg);
    // float32 error model: ip carries band32(10,S_ip); arg = positive terms minus ip^2
    const double dip = vf::band32(10, S_ip);
    const double darg = 2 * std::fabs(o.ip) * dip + dip * dip + 8 * EPS32 * (s2 + o.ip * o.ip + alpha * alpha);
    const double Plow = std::sqrt(std::max(arg - darg, 0.25 * alpha * alpha));
    o.dP = darg / (2 * Plow) + 4 * EPS32 * o.P;
    return o;
  }
  double value(const dvec& l, double* band = nullptr) const
  {
    double V = 0, b = 0;
    for (int j = 0; j < g.N(); ++j)
      {
        const Loc o = local(l, j);
        V += kap[j] * o.P;
        b += std::fabs(kap[j]) * o.dP;
      }
    if (band)
      *band = pf * b + 8 * EPS32 * std::fabs(pf * V);
    return pf * V;
  }
  // derivative of value(): sum_d [ kappa_{j-e_d} v^d_{j-e_d} - kappa_j v^d_j [j+e_d inside] ],  v^d_r = (g^d_r - ip_r xi^d_r)/phi_r
  // kappa_outside=true gives kappa_j * (v_{j-e_d} - v_j) instead (not the derivative unless kappa is uniform)
  void gradient(const dvec& l, dvec& gr, dvec* band, bool kappa_outside = false) const
  {
    const int N = g.N();
    std::vector<Loc> loc(N);
    for (int j = 0; j < N; ++j)
      loc[j] = local(l, j);
    gr.assign(N, 0.);
    if (band)
      band->assign(N, 0.);
    for (int j = 0; j < N; ++j)
      {
        double s = 0, b = 0, sa = 0, kmax = std::fabs(kap[j]);
        for (int d = d0(); d < 3; ++d)
          {
            const int km = nb(j, d, -1), kp = nb(j, d, +1);
            auto term = [&](int r, double kappa, double sign) {
              const Loc& o = loc[r];
              const double v = (o.gd[d] - o.ip * xi[d][r]) / o.P;
              const double m = std::fabs(o.gd[d]) + std::fabs(o.ip * xi[d][r]);
              const double dip = vf::band32(10, std::fabs(o.gd[0] * xi[0][r]) + std::fabs(o.gd[1] * xi[1][r]) + std::fabs(o.gd[2] * xi[2][r]));
              const double dv = (vf::band32(10, m) + std::fabs(xi[d][r]) * dip) / o.P + 1.2 * std::fabs(v) * o.dP / o.P;
              s += sign * kappa * v;
              sa += std::fabs(v);
              b += dv;
              kmax = std::max(kmax, std::fabs(kappa));
            };
            if (km >= 0)
              term(km, kappa_outside ? kap[j] : kap[km], +1);
            if (kp >= 0)
              term(j, kap[j], -1);
          }
        gr[j] = pf * s;
        if (band)
          (*band)[j] = pf * kmax * (b + 16 * EPS32 * sa);
      }
  }
  bool interior(int j) const // strictly inside in every direction used by the prior
  {
    for (int d = d0(); d < 3; ++d)
      if (nb(j, d, -1) < 0 || nb(j, d, +1) < 0)
        return false;
    return true;
  }
};

// ------------------------------------------------------------------ configuration of a case
struct Cfg
{
  PType type = PQ;
  bool parse_route = false; // configure through the keyword parser instead of constructor + setters
  bool only_2D = false;
  bool user_weights = false;
  Wts uw;
  bool kappa = false;
  float pf = 1;
  float gamma = 2, eps = 0.1f, scalar = 1; // RDP, logcosh
  bool large_logcosh_argument = false;
  double eta = 1, alpha = 1;               // PLS
};

struct Prior
{
  shared_ptr<GeneralisedPrior<DD>> p;
  QuadraticPrior<float>* q = nullptr;
  RelativeDifferencePrior<float>* r = nullptr;
  LogcoshPrior<float>* l = nullptr;
  PLSPrior<float>* s = nullptr;
  Array<3, float> weights() const { return q ? q->get_weights() : r ? r->get_weights() : l ? l->get_weights() : Array<3, float>(); }
};

static Prior
build_prior(const Cfg& c, const shared_ptr<Img>& kappa, const shared_ptr<Img>& anat)
{
  Prior P;
  std::ostringstream par;
  const char* start[] = { "Quadratic Prior Parameters", "Relative Difference Prior Parameters", "Logcosh Prior Parameters",
                          "PLS Prior Parameters" };
  if (c.parse_route)
    {
      par << start[c.type] << ":=\n";
      par << "penalisation factor := " << vf::fmt("%.9g", c.pf) << "\n";
      par << "only 2D := " << (c.only_2D ? 1 : 0) << "\n";
      if (c.user_weights && c.type != PPLS)
        par << "weights := " << c.uw.text() << "\n";
      if (c.type == PRDP)
        par << "gamma value := " << vf::fmt("%.9g", c.gamma) << "\nepsilon value := " << vf::fmt("%.9g", c.eps) << "\n";
      if (c.type == PLC)
        par << "scalar := " << vf::fmt("%.9g", c.scalar) << "\n";
      if (c.type == PPLS)
        par << "eta := " << vf::fmt("%.17g", c.eta) << "\nalpha := " << vf::fmt("%.17g", c.alpha) << "\n";
      par << "END " << start[c.type] << ":=\n";
    }
  std::istringstream in(par.str());
  switch (c.type)
    {
    case PQ:
      P.q = c.parse_route ? new QuadraticPrior<float>() : new QuadraticPrior<float>(c.only_2D, c.pf);
      P.p.reset(P.q);
      if (c.parse_route && !P.q->parse(in))
        throw vf::Skip("parameters rejected by parser");
      if (!c.parse_route && c.user_weights)
        P.q->set_weights(c.uw.to_stir());
      if (kappa)
        P.q->set_kappa_sptr(kappa);
      break;
    case PRDP:
      P.r = c.parse_route ? new RelativeDifferencePrior<float>() : new RelativeDifferencePrior<float>(c.only_2D, c.pf, c.gamma, c.eps);
      P.p.reset(P.r);
      if (c.parse_route && !P.r->parse(in))
        throw vf::Skip("parameters rejected by parser");
      if (!c.parse_route && c.user_weights)
        P.r->set_weights(c.uw.to_stir());
      if (kappa)
        P.r->set_kappa_sptr(kappa);
      break;
    case PLC:
      P.l = c.parse_route ? new LogcoshPrior<float>() : new LogcoshPrior<float>(c.only_2D, c.pf, c.scalar);
      P.p.reset(P.l);
      if (c.parse_route && !P.l->parse(in))
        throw vf::Skip("parameters rejected by parser");
      if (!c.parse_route && c.user_weights)
        P.l->set_weights(c.uw.to_stir());
      if (kappa)
        P.l->set_kappa_sptr(kappa);
      break;
    case PPLS:
      P.s = c.parse_route ? new PLSPrior<float>() : new PLSPrior<float>(c.only_2D, c.pf);
      P.p.reset(P.s);
      if (c.parse_route && !P.s->parse(in))
        throw vf::Skip("parameters rejected by parser");
      if (!c.parse_route)
        {
          P.s->set_eta(c.eta);
          P.s->set_alpha(c.alpha);
        }
      P.s->set_anatomical_image_sptr(anat);
      if (kappa)
        P.s->set_kappa_sptr(kappa);
      break;
    }
  return P;
}

static dvec
to_d(const std::vector<float>& v)
{
  return dvec(v.begin(), v.end());
}
static bool
tol_ok(double got, double ref, double band)
{
  // + an absolute quantum for float32 underflow: factors such as sech^2(x) = 4 exp(-2x) of the log-cosh Hessian leave the
  // float range for x > ~50 and are flushed to 0 before they are multiplied by weights / scalar^2 / penalisation factor (< 1e7)
  return vf::close_enough(got, ref, band + 1e-35);
}

// random image content
static std::vector<float>
gen_content(vf::Rng& rng, const Geo& g, double scale, double lo, int mode)
{
  const int N = g.N();
  std::vector<float> v(N);
  const double a = rng.uniform(-0.4, 0.4), b = rng.uniform(-0.4, 0.4), c = rng.uniform(-0.4, 0.4);
  const int bs = static_cast<int>(rng.range(2, 3));
  std::map<int, double> block;
  for (int z = 0; z < g.nz; ++z)
    for (int y = 0; y < g.ny; ++y)
      for (int x = 0; x < g.nx; ++x)
        {
          double t;
          if (mode == 1) // smooth ramp + noise
            t = 0.5 + a * (z / double(std::max(1, g.nz - 1)) - 0.5) + b * (y / double(std::max(1, g.ny - 1)) - 0.5)
                + c * (x / double(std::max(1, g.nx - 1)) - 0.5) + 0.1 * rng.uniform(-1, 1);
          else if (mode == 2) // piecewise constant blocks (exact ties between neighbours) with a few outliers
            {
              const int key = ((z / bs) * 64 + (y / bs)) * 64 + (x / bs);
              if (!block.count(key))
                block[key] = rng.uniform(lo, 1);
              t = rng.coin(0.1) ? rng.uniform(lo, 1) : block[key];
            }
          else
            t = rng.uniform(lo, 1);
          t = std::min(1.0, std::max(lo, t));
          v[g.lin(z, y, x)] = static_cast<float>(t * scale);
        }
  return v;
}
static bool
uniform_content(const std::vector<float>& v)
{
  for (float f : v)
    if (f != v[0])
      return false;
  return true;
}

static double
dot(const dvec& a, const dvec& b)
{
  double s = 0;
  for (size_t i = 0; i < a.size(); ++i)
    s += a[i] * b[i];
  return s;
}

} // namespace

static void
run_case(Ctx& ctx)
{
  vf::Rng& rng = ctx.rng;
  const bool asym_mode = std::getenv("VERIF_C09_ASYM") != nullptr; // demonstration only, see propdefs/c09.py

  // ------------------------------------------------------------ generate
  Cfg c;
  {
    const double u = rng.u01();
    c.type = u < 0.30 ? PQ : u < 0.60 ? PRDP : u < 0.85 ? PLC : PPLS;
  }
  Geo g;
  {
    const int szmode = static_cast<int>(rng.range(0, 19));
    g.nz = static_cast<int>(rng.range(1, 8));
    g.ny = static_cast<int>(rng.range(1, 9));
    g.nx = static_cast<int>(rng.range(1, 10));
    if (szmode == 0)
      g.nz = g.ny = g.nx = 1;
    else if (szmode <= 2)
      (rng.coin() ? g.nz : rng.coin() ? g.ny : g.nx) = 1;
    else if (szmode == 3) // two singleton axes
      {
        const int keep = static_cast<int>(rng.range(0, 2));
        if (keep != 0)
          g.nz = 1;
        if (keep != 1)
          g.ny = 1;
        if (keep != 2)
          g.nx = 1;
      }
    else if (szmode == 4)
      {
        g.nz = 8;
        g.ny = 9;
        g.nx = 10;
      }
    else if (szmode <= 6) // 2 voxels along an axis: both are border voxels
      (rng.coin() ? g.nz : rng.coin() ? g.ny : g.nx) = 2;
    if (rng.coin(0.7))
      {
        g.mz = static_cast<int>(rng.range(-3, 4));
        g.my = static_cast<int>(rng.range(-6, 5));
        g.mx = static_cast<int>(rng.range(-6, 5));
      }
    if (rng.coin(0.3))
      g.vz = g.vy = g.vx = static_cast<float>(rng.uniform(0.5, 6));
    else
      {
        g.vz = static_cast<float>(rng.uniform(0.5, 6));
        g.vy = static_cast<float>(rng.uniform(0.5, 6));
        g.vx = static_cast<float>(rng.uniform(0.5, 6));
      }
  }
  const int N = g.N();
  c.parse_route = rng.coin(0.35);
  c.only_2D = rng.coin(0.3);
  c.kappa = rng.coin(0.45);
  c.pf = static_cast<float>(std::exp(rng.uniform(std::log(0.01), std::log(50.))));
  const double scale = rng.pick(std::vector<double>{ 1, 1, 1, 0.02, 50 });
  const double lo = rng.coin() ? 0.05 : 0.3;
  c.gamma = rng.coin(0.15) ? 0.f : static_cast<float>(rng.uniform(0.1, 5));
  c.eps = static_cast<float>(scale * std::exp(rng.uniform(std::log(1e-3), std::log(1.))));
  c.scalar = static_cast<float>(std::exp(rng.uniform(std::log(0.05), std::log(20.))) / scale);
  // log-cosh: also scalar * |difference| well beyond 30, where the implementation switches to the asymptote |x| + log(1/2)
  if (c.type == PLC && rng.coin(0.3))
    {
      c.scalar = static_cast<float>(std::exp(rng.uniform(std::log(30.), std::log(400.))) / scale);
      c.large_logcosh_argument = true;
    }
  c.alpha = scale * rng.uniform(0.05, 2);
  const double ascale = rng.coin() ? 1 : 100;
  c.eta = ascale * rng.uniform(0.05, 2);
  bool centre_weight = false, asym = false;
  if (c.type != PPLS && rng.coin(0.45))
    {
      c.user_weights = true;
      const int sh = static_cast<int>(rng.range(0, 9));
      if (sh <= 3)
        c.uw.shape(1, 1, 1);
      else if (sh <= 5)
        c.uw.shape(2, 2, 2);
      else if (sh <= 7)
        c.uw.shape(0, 1, 1); // 2-D
      else if (sh == 8)
        c.uw.shape(0, 2, 2);
      else
        c.uw.shape(1, 0, 0); // z only
      const double pzero = rng.coin(0.3) ? 0.5 : 0.;
      Wts& w = c.uw;
      for (int dz = -w.hz; dz <= w.hz; ++dz)
        for (int dy = -w.hy; dy <= w.hy; ++dy)
          for (int dx = -w.hx; dx <= w.hx; ++dx)
            {
              // first half generates, second half mirrors (point symmetry w_dr == w_-dr)
              const bool first = dz < 0 || (dz == 0 && (dy < 0 || (dy == 0 && dx < 0)));
              if (first)
                w.at(dz, dy, dx) = rng.coin(pzero) ? 0. : double(static_cast<float>(rng.uniform(0.05, 2)));
              else if (dz || dy || dx)
                w.at(dz, dy, dx) = w.at(-dz, -dy, -dx);
            }
      if (rng.coin(0.25))
        {
          centre_weight = true;
          w.at(0, 0, 0) = double(static_cast<float>(rng.uniform(0.1, 2)));
        }
      if (asym_mode && rng.coin(0.5))
        {
          asym = true;
          w.at(w.hz ? 1 : 0, w.hy ? 1 : 0, w.hx ? -1 : 0) *= 0.25;
        }
    }
  const int cmode = static_cast<int>(rng.range(0, 2));
  std::vector<float> lam = gen_content(rng, g, scale, lo, cmode);
  std::vector<float> lam2 = gen_content(rng, g, scale, lo, 0);
  std::vector<float> kapf(N, 1.f), anatf;
  if (c.kappa)
    kapf = gen_content(rng, g, 2.0, 0.15, rng.coin() ? 0 : 1);
  if (c.type == PPLS)
    anatf = rng.coin(0.15) ? std::vector<float>(N, static_cast<float>(ascale)) : gen_content(rng, g, ascale, 0., static_cast<int>(rng.range(0, 2)));
  const int first_call = static_cast<int>(rng.range(0, 3));
  const uint64_t dir_seed = rng.next();

  const std::string pn = PNAME[c.type];
  ctx.desc.add("prior", pn)
      .add("size", std::vector<int>{ g.nz, g.ny, g.nx })
      .add("min_index", std::vector<int>{ g.mz, g.my, g.mx })
      .add("voxel_size", std::vector<double>{ g.vz, g.vy, g.vx })
      .add("route", c.parse_route ? "parser" : "constructor")
      .add("only_2D", c.only_2D)
      .add("kappa", c.kappa)
      .add("pf", c.pf)
      .add("scale", scale)
      .add("lo", lo)
      .add("content", cmode)
      .add("first_call", first_call);
  if (c.user_weights)
    ctx.desc.add("user_weights", std::vector<int>{ 2 * c.uw.hz + 1, 2 * c.uw.hy + 1, 2 * c.uw.hx + 1 }).add("centre_weight", centre_weight).add("asym", asym);
  if (c.type == PRDP)
    ctx.desc.add("gamma", c.gamma).add("epsilon", c.eps);
  if (c.type == PLC)
    ctx.desc.add("scalar", c.scalar);
  if (c.type == PPLS)
    ctx.desc.add("alpha", c.alpha).add("eta", c.eta);

  // ------------------------------------------------------------ construct + set_up
  ctx.heartbeat("construct");
  shared_ptr<Img> im = mk_image(g, lam);
  shared_ptr<Img> kappa_sptr, anat_sptr;
  if (c.kappa)
    kappa_sptr = mk_image(g, kapf);
  if (c.type == PPLS)
    anat_sptr = mk_image(g, anatf);
  Prior P;
  try
    {
      P = build_prior(c, kappa_sptr, anat_sptr);
      if (P.p->set_up(im) != Succeeded::yes)
        throw vf::Skip("set_up failed");
    }
  catch (const vf::Skip&)
    {
      throw;
    }
  catch (const std::exception& e)
    {
      throw vf::Skip(std::string("rejected: ") + e.what());
    }
  GeneralisedPrior<DD>& prior = *P.p;
  ctx.heartbeat("evaluate");

  auto stir_value = [&](const shared_ptr<Img>& x) { return prior.compute_value(*x); };
  auto stir_gradient = [&](const shared_ptr<Img>& x, std::vector<float>& out) {
    shared_ptr<DD> gr(x->get_empty_copy());
    gr->fill(-12345.f); // "the derived class should overwrite any data in prior_gradient"
    prior.compute_gradient(*gr, *x);
    rd_image(g, *gr, out);
  };
  auto stir_row = [&](const shared_ptr<Img>& x, int j, std::vector<float>& out) {
    shared_ptr<DD> row(x->get_empty_copy());
    row->fill(777.f);
    BasicCoordinate<3, int> co;
    co[1] = j / (g.nx * g.ny) + g.mz;
    co[2] = (j / g.nx) % g.ny + g.my;
    co[3] = j % g.nx + g.mx;
    prior.compute_Hessian(*row, co, *x);
    rd_image(g, *row, out);
  };
  auto stir_Hv = [&](const shared_ptr<Img>& x, const std::vector<float>& v, std::vector<float>& out, const std::vector<float>* prefill = nullptr) {
    shared_ptr<Img> in = mk_image(g, v);
    shared_ptr<Img> o = prefill ? mk_image(g, *prefill) : mk_image(g, std::vector<float>(N, 0.f));
    prior.accumulate_Hessian_times_input(*o, *x, *in);
    rd_image(g, *o, out);
  };

  const bool is_pls = c.type == PPLS;
  // lazily computed weights can be initialised by any of the entry points
  {
    std::vector<float> tmp;
    switch (is_pls ? first_call % 2 : first_call)
      {
      case 0:
        stir_value(im);
        break;
      case 1:
        stir_gradient(im, tmp);
        break;
      case 2:
        stir_row(im, static_cast<int>(dir_seed % N), tmp);
        break;
      default:
        stir_Hv(im, lam2, tmp);
        break;
      }
  }

  if (!prior.is_convex())
    {
      ctx.violation(pn + ":is_convex-false", "documented convex prior reports is_convex()==false");
      return;
    }

  const dvec l = to_d(lam), l2 = to_d(lam2), kap = to_d(kapf);
  const bool nonuniform = !uniform_content(lam);
  ctx.nontrivial = N >= 2 && nonuniform;
  ctx.count(std::string("prior_") + (c.type == PQ ? "quadratic" : c.type == PRDP ? "rdp" : c.type == PLC ? "logcosh" : "pls"));
  if (c.large_logcosh_argument)
    ctx.count("cfg_logcosh_scalar_times_difference_beyond_30");
  if (g.nz == 1 || g.ny == 1 || g.nx == 1)
    ctx.count("singleton_axis_cases");
  if (N == 1)
    ctx.count("single_voxel_cases");
  if (g.mz || g.my || g.mx)
    ctx.count("nonzero_min_index_cases");
  if (g.vz != g.vy || g.vy != g.vx)
    ctx.count("anisotropic_cases");
  if (c.user_weights)
    {
      ctx.count("user_weights_cases");
      ctx.count(c.uw.hz == 2 || c.uw.hx == 2 ? "user_weights_5_cases" : "user_weights_3_cases");
      if (c.uw.hz == 0)
        ctx.count("user_weights_2d_cases");
      if (centre_weight)
        ctx.count("centre_weight_cases");
    }
  if (c.kappa)
    ctx.count("kappa_cases");
  if (c.parse_route)
    ctx.count("parser_route_cases");
  if (c.only_2D && !c.user_weights)
    ctx.count("only_2d_requested_cases");

  // random directions / vectors
  vf::Rng drng(dir_seed);
  auto rand_vec = [&](int kind) {
    std::vector<float> v(N);
    for (int j = 0; j < N; ++j)
      v[j] = kind == 0 ? 1.f
             : kind == 1 ? (drng.coin() ? 1.f : -1.f)
             : kind == 2 ? static_cast<float>(drng.normal())
                         : static_cast<float>(2 * double(lam[j]) + (c.type == PRDP ? double(c.eps) : 0.)); // RDP null direction
    return v;
  };

  // =========================================================================================== PLS
  if (is_pls)
    {
      bool eff_2D = c.only_2D;
      const bool stir_has_z = !!P.s->get_anatomical_grad_sptr(0);
      if (c.only_2D && stir_has_z)
        {
          // PLSPrior(only_2D, pf): the initialiser list sets only_2D, then set_defaults() resets it to false
          ctx.violation("PLS:constructor-ignores-only_2D-argument",
                        "PLSPrior(only_2D=true, pf) followed by set_up(): the anatomical z-gradient image exists, i.e. the prior is 3-D");
          if (c.parse_route)
            return; // unexpected on the parser route
          eff_2D = false;
        }
      else if (!c.only_2D && !stir_has_z)
        {
          ctx.violation("PLS:3D-prior-has-no-z-gradient", "only_2D=false but no anatomical z-gradient after set_up");
          return;
        }
      if (eff_2D)
        ctx.count("only_2d_effective_cases");
      PlsRef R;
      R.g = g;
      R.only_2D = eff_2D;
      R.alpha = c.alpha;
      R.eta = c.eta;
      R.pf = c.pf;
      R.kap = kap;
      R.set_anatomical(anatf);

      // reference self-consistency (float64): analytic gradient == central differences of the value
      {
        dvec gr;
        R.gradient(l, gr, nullptr);
        for (int k = 0; k < 3; ++k)
          {
            std::vector<float> d = rand_vec(1 + k % 2);
            const double h = 1e-6 * scale;
            dvec lp = l, lm = l;
            double pred = 0, sa = 0;
            for (int j = 0; j < N; ++j)
              {
                lp[j] += h * d[j];
                lm[j] -= h * d[j];
                pred += gr[j] * d[j];
                sa += std::fabs(gr[j] * d[j]);
              }
            const double fd = (R.value(lp) - R.value(lm)) / (2 * h);
            if (std::fabs(fd - pred) > 1e-5 * (sa + c.pf * N * 1e-3))
              {
                ctx.violation("selfcheck:PLS-reference-gradient-not-derivative-of-reference-value", vf::fmt("fd %.12g analytic %.12g", fd, pred));
                return;
              }
          }
      }
      // value
      {
        double band = 0;
        const double Vr = R.value(l, &band);
        const double Vs = stir_value(im);
        ctx.count("values_checked");
        if (!tol_ok(Vs, Vr, band))
          {
            ctx.violation("PLS:value-vs-documented-formula", vf::fmt("compute_value %.9g reference %.9g band %.3g", Vs, Vr, band));
            return;
          }
      }
      // gradient: derivative of the documented value, per voxel, classified
      std::vector<float> gs;
      stir_gradient(im, gs);
      {
        dvec gr, gb, galt;
        R.gradient(l, gr, &gb);
        R.gradient(l, galt, nullptr, true);
        const bool kappa_nonuniform = c.kappa && !uniform_content(kapf);
        int bad_border = -1, bad_int = -1, bad_int_kappa = -1, n_border_bad = 0, n_int_bad = 0;
        long interior = 0;
        for (int j = 0; j < N; ++j)
          {
            const bool inter = R.interior(j);
            interior += inter;
            if (tol_ok(gs[j], gr[j], gb[j]))
              continue;
            if (!inter)
              {
                ++n_border_bad;
                if (bad_border < 0)
                  bad_border = j;
              }
            else
              {
                ++n_int_bad;
                if (kappa_nonuniform && tol_ok(gs[j], galt[j], gb[j]))
                  {
                    if (bad_int_kappa < 0)
                      bad_int_kappa = j;
                  }
                else if (bad_int < 0)
                  bad_int = j;
              }
          }
        ctx.count("gradient_voxels_checked", N);
        ctx.count("pls_interior_voxels_checked", interior);
        auto wit = [&](int j, int n) {
          return vf::fmt("%d voxel(s); first %s: compute_gradient %.9g, derivative of documented value %.9g (band %.3g)", n, g.vox(j).c_str(),
                         double(gs[j]), gr[j], gb[j]);
        };
        if (bad_int >= 0)
          {
            ctx.violation("PLS:gradient-not-derivative-of-value:interior-voxel", wit(bad_int, n_int_bad));
            return;
          }
        if (bad_int_kappa >= 0)
          ctx.violation("PLS:gradient-not-derivative-of-value:nonuniform-kappa-multiplied-after-divergence",
                        wit(bad_int_kappa, n_int_bad) + vf::fmt("; equals kappa_j*(v_{j-e}-v_j) = %.9g", galt[bad_int_kappa]));
        if (bad_border >= 0)
          ctx.violation("PLS:gradient-not-derivative-of-value:border-voxel", wit(bad_border, n_border_bad));
      }
      // midpoint convexity of the value
      {
        std::vector<float> mid(N);
        for (int j = 0; j < N; ++j)
          mid[j] = static_cast<float>(0.5 * (double(lam[j]) + double(lam2[j])));
        const dvec lm = to_d(mid);
        double ba, bb, bm;
        R.value(l, &ba);
        R.value(l2, &bb);
        R.value(lm, &bm);
        dvec gm;
        R.gradient(lm, gm, nullptr);
        double rnd = 0;
        for (int j = 0; j < N; ++j)
          rnd += std::fabs(gm[j]) * EPS32 * std::fabs(lm[j]);
        const double Va = stir_value(im), Vb = stir_value(mk_image(g, lam2)), Vm = stir_value(mk_image(g, mid));
        ctx.count("psd_checks");
        ctx.count("midpoint_convexity_checks");
        if (Vm > 0.5 * (Va + Vb) + ba + bb + bm + rnd)
          {
            ctx.violation("PLS:value-not-midpoint-convex", vf::fmt("f(a)=%.9g f(b)=%.9g f((a+b)/2)=%.9g", Va, Vb, Vm));
            return;
          }
      }
      // linear in the penalisation factor, zero factor, uniform image
      {
        const double Vc = stir_value(im);
        prior.set_penalisation_factor(1.f);
        const double V1 = stir_value(im);
        std::vector<float> g1;
        stir_gradient(im, g1);
        ctx.count("pf_linearity_checks");
        if (std::fabs(Vc - double(c.pf) * V1) > 1e-15 * std::fabs(Vc))
          {
            ctx.violation("PLS:value-not-linear-in-penalisation-factor", vf::fmt("f(pf=%g)=%.17g, pf*f(pf=1)=%.17g", c.pf, Vc, double(c.pf) * V1));
            return;
          }
        for (int j = 0; j < N; ++j)
          if (std::fabs(double(gs[j]) - double(c.pf) * g1[j]) > 3 * EPS32 * std::fabs(gs[j]) + 1e-36)
            {
              ctx.violation("PLS:gradient-not-linear-in-penalisation-factor",
                            vf::fmt("%s g(pf=%g)=%.9g pf*g(pf=1)=%.9g", g.vox(j).c_str(), c.pf, double(gs[j]), double(c.pf) * g1[j]));
              return;
            }
        prior.set_penalisation_factor(0.f);
        std::vector<float> g0;
        stir_gradient(im, g0);
        if (stir_value(im) != 0. || !uniform_content(g0) || g0[0] != 0.f)
          {
            ctx.violation("PLS:zero-penalisation-factor-not-zero", "value or gradient non-zero with penalisation factor 0");
            return;
          }
        prior.set_penalisation_factor(c.pf);
        std::vector<float> uni(N, static_cast<float>(scale * rng.uniform(0.1, 1))), gu;
        shared_ptr<Img> ui = mk_image(g, uni);
        stir_gradient(ui, gu);
        ctx.count("uniform_image_checks");
        for (int j = 0; j < N; ++j)
          if (gu[j] != 0.f)
            {
              ctx.violation("PLS:gradient-of-uniform-image-not-zero", vf::fmt("%s gradient %.9g", g.vox(j).c_str(), double(gu[j])));
              return;
            }
        double bu;
        const double Vur = R.value(to_d(uni), &bu);
        if (!tol_ok(stir_value(ui), Vur, bu))
          {
            ctx.violation("PLS:value-vs-documented-formula:uniform-image", vf::fmt("%.9g vs %.9g", stir_value(ui), Vur));
            return;
          }
      }
      // Hessian of PLS: GeneralisedPrior documents "default implementation just calls error()"
      try
        {
          std::vector<float> tmp;
          stir_row(im, 0, tmp);
          ctx.count("pls_hessian_unexpectedly_available");
        }
      catch (...)
        {
          ctx.count("pls_hessian_not_implemented_confirmed");
        }
      return;
    }

  // =========================================================================================== Quadratic / RDP / log-cosh
  // which weights does the prior actually use?
  NbRef R;
  R.g = g;
  R.pot.t = c.type;
  R.pot.gamma = c.gamma;
  R.pot.eps = c.eps;
  R.pot.s = c.scalar;
  R.kap = kap;
  R.pf = c.pf;
  {
    Array<3, float> sw = P.weights();
    bool eff_2D = c.only_2D;
    const Wts want = c.user_weights ? c.uw : default_weights(g, c.only_2D);
    auto shape_is = [&](const Wts& w) {
      return sw.get_min_index() == -w.hz && sw.get_max_index() == w.hz && sw[0].get_min_index() == -w.hy && sw[0].get_max_index() == w.hy
             && sw[0][0].get_min_index() == -w.hx && sw[0][0].get_max_index() == w.hx;
    };
    Wts use = want;
    if (sw.get_length() == 0)
      {
        ctx.violation(pn + ":weights-still-empty-after-first-use", "get_weights() is empty after a compute_* call");
        return;
      }
    if (!shape_is(want))
      {
        const Wts w3 = default_weights(g, false);
        if (!c.user_weights && c.only_2D && !c.parse_route && shape_is(w3))
          {
            // <Prior>(only_2D, ...) : only_2D(only_2D_v) { set_defaults(); ...}  -- set_defaults() resets only_2D to false
            ctx.violation(pn + ":constructor-ignores-only_2D-argument",
                          "constructed with only_2D=true; the default weights computed at first use are 3x3x3 (documented: 3x3 for 2-D)");
            use = w3;
            eff_2D = false;
          }
        else
          {
            ctx.violation(pn + ":weights-shape-differs-from-requested",
                          vf::fmt("requested %dx%dx%d, prior uses z[%d,%d] y[%d,%d] x[%d,%d]", 2 * want.hz + 1, 2 * want.hy + 1, 2 * want.hx + 1,
                                  sw.get_min_index(), sw.get_max_index(), sw[0].get_min_index(), sw[0].get_max_index(),
                                  sw[0][0].get_min_index(), sw[0][0].get_max_index()));
            return;
          }
      }
    for (int dz = -use.hz; dz <= use.hz; ++dz)
      for (int dy = -use.hy; dy <= use.hy; ++dy)
        for (int dx = -use.hx; dx <= use.hx; ++dx)
          {
            const double got = sw[dz][dy][dx], ref = use.at(dz, dy, dx);
            if (c.user_weights ? got != ref : std::fabs(got - ref) > 6 * EPS32 * std::fabs(ref))
              {
                ctx.violation(pn + (c.user_weights ? ":user-weights-altered" : ":default-weights-differ-from-documented"),
                              vf::fmt("w[%d][%d][%d] = %.9g, expected %.9g (x-voxel-size / Euclidean distance)", dz, dy, dx, got, ref));
                return;
              }
          }
    ctx.count("weights_checked", use.count());
    if (eff_2D && !c.user_weights)
      ctx.count("only_2d_effective_cases");
    R.w = use;
  }
  const int W = R.w.count();
  const bool symw = R.w.point_symmetric();

  // ---------- reference self-consistency in float64 (gradient = d value, Hessian = d gradient) along random directions
  dvec Href, Aref;
  std::vector<int> nterms;
  R.hessian(l, Href, &Aref, &nterms, false);
  {
    dvec gr, gra;
    R.gradient(l, gr, &gra);
    double sumAbsH = 0;
    for (double v : Href)
      sumAbsH += std::fabs(v);
    const double h = 1e-6 * scale * (c.type == PRDP ? std::min(1., lo + double(c.eps) / scale) : 1.) / (c.type == PLC ? std::max(1., double(c.scalar) * scale) : 1.);
    for (int k = 0; k < 2; ++k)
      {
        std::vector<float> d = rand_vec(1 + k);
        dvec lp = l, lm = l, dd(N);
        for (int j = 0; j < N; ++j)
          {
            dd[j] = d[j];
            lp[j] += h * d[j];
            lm[j] -= h * d[j];
          }
        double Aa = 0;
        const double fd = (R.value(lp) - R.value(lm)) / (2 * h);
        R.value(l, &Aa);
        double pred = 0, sa = 0;
        for (int j = 0; j < N; ++j)
          {
            pred += gr[j] * dd[j];
            sa += std::fabs(gr[j] * dd[j]);
          }
        // tolerance: 1e-5 relative + 100 x float64 rounding of the difference quotient + truncation ~ (h/L) * h * sum|H|
        if (std::fabs(fd - pred) > 1e-5 * sa + 1e-14 * Aa / h + 1e-3 * h * sumAbsH + 1e-300)
          {
            ctx.violation("selfcheck:reference-gradient-not-derivative-of-reference-value", vf::fmt("fd %.12g analytic %.12g", fd, pred));
            return;
          }
        dvec gp, gm;
        R.gradient(lp, gp);
        R.gradient(lm, gm);
        for (int j = 0; j < N; ++j)
          {
            double hv = 0, ha = 0;
            for (int k2 = 0; k2 < N; ++k2)
              {
                hv += Href[size_t(j) * N + k2] * dd[k2];
                ha += std::fabs(Href[size_t(j) * N + k2] * dd[k2]);
              }
            const double fdg = (gp[j] - gm[j]) / (2 * h);
            if (std::fabs(fdg - hv) > 2e-4 * ha + 1e-13 * gra[j] / h + 1e-300)
              {
                ctx.violation("selfcheck:reference-hessian-not-derivative-of-reference-gradient",
                              vf::fmt("%s fd %.12g analytic %.12g abs %.6g", g.vox(j).c_str(), fdg, hv, ha));
                return;
              }
          }
      }
  }

  // ---------- (1) value and gradient against the documented formulas
  {
    double A = 0;
    const double Vr = R.value(l, &A);
    const double Vs = stir_value(im);
    ctx.count("values_checked");
    if (!tol_ok(Vs, Vr, vf::band32(NOPS_TERM, A)))
      {
        ctx.violation(pn + ":value-vs-documented-formula",
                      vf::fmt("compute_value %.9g, float64 reference %.9g, band %.3g (sum|terms| %.6g)", Vs, Vr, vf::band32(NOPS_TERM, A), A));
        return;
      }
  }
  std::vector<float> gs;
  stir_gradient(im, gs);
  if (symw || c.type == PQ)
    {
      dvec gr, ga;
      R.gradient(l, gr, &ga, symw); // for non-symmetric weights only QuadraticPrior documents a gradient formula
      for (int j = 0; j < N; ++j)
        if (!tol_ok(gs[j], gr[j], vf::band32(NOPS_TERM, ga[j])))
          {
            ctx.violation(pn + ":gradient-vs-documented-formula",
                          vf::fmt("%s compute_gradient %.9g, float64 reference %.9g, band %.3g", g.vox(j).c_str(), double(gs[j]), gr[j],
                                  vf::band32(NOPS_TERM, ga[j])));
            return;
          }
      ctx.count("gradient_voxels_checked", N);
    }
  if (!symw)
    {
      // demonstration mode only (VERIF_C09_ASYM): with w_dr != w_-dr the documented gradient is not the derivative of the documented value
      ctx.count("asymmetric_weights_cases");
      dvec gr, ga;
      R.gradient(l, gr, &ga, true);
      for (int j = 0; j < N; ++j)
        if (!tol_ok(gs[j], gr[j], vf::band32(NOPS_TERM, ga[j])))
          {
            ctx.violation(pn + ":asymmetric-weights:gradient-not-derivative-of-value",
                          vf::fmt("%s compute_gradient %.9g, derivative of value %.9g", g.vox(j).c_str(), double(gs[j]), gr[j]));
            break;
          }
      return;
    }

  // ---------- (3) Hessian rows: every voxel
  std::vector<float> Hs(size_t(N) * N);
  {
    std::vector<float> row;
    for (int j = 0; j < N; ++j)
      {
        stir_row(im, j, row);
        std::copy(row.begin(), row.end(), Hs.begin() + size_t(j) * N);
      }
  }
  // (+ the float32 underflow quantum, see tol_ok)
  auto hband = [&](int j, int k) { return vf::band32(NOPS_TERM + (j == k ? nterms[j] : 0), Aref[size_t(j) * N + k]) + 1e-35; };
  bool stir_centre = false;
  {
    // diagonal first: detect the centre-weight term (w_0 * psi20(x,x) * kappa^2 has no counterpart in the value)
    const double w0 = R.w.at(0, 0, 0);
    int bad = -1;
    for (int j = 0; j < N && bad < 0; ++j)
      if (!tol_ok(Hs[size_t(j) * N + j], Href[size_t(j) * N + j], hband(j, j)))
        bad = j;
    if (bad >= 0 && w0 != 0)
      {
        dvec H2, A2;
        R.hessian(l, H2, &A2, nullptr, true);
        bool explained = true;
        for (int j = 0; j < N; ++j)
          if (!tol_ok(Hs[size_t(j) * N + j], H2[size_t(j) * N + j], vf::band32(NOPS_TERM + nterms[j], A2[size_t(j) * N + j])))
            explained = false;
        if (explained)
          {
            ctx.violation(pn + ":hessian-diagonal-includes-centre-weight",
                          vf::fmt("%s weights[0][0][0]=%.6g: compute_Hessian diagonal %.9g, second derivative of the value %.9g, "
                                  "difference = w0*d20(x,x)*kappa^2*pf = %.9g (the dr=0 term of the value is identically 0)",
                                  g.vox(bad).c_str(), w0, double(Hs[size_t(bad) * N + bad]), Href[size_t(bad) * N + bad],
                                  H2[size_t(bad) * N + bad] - Href[size_t(bad) * N + bad]));
            stir_centre = true;
            Href.swap(H2);
            Aref.swap(A2);
            bad = -1;
          }
      }
    if (bad >= 0)
      {
        ctx.violation(pn + ":hessian-diagonal-vs-second-derivative-of-value",
                      vf::fmt("%s compute_Hessian diagonal %.9g, float64 reference %.9g, band %.3g", g.vox(bad).c_str(),
                              double(Hs[size_t(bad) * N + bad]), Href[size_t(bad) * N + bad], hband(bad, bad)));
        return;
      }
  }
  long border_rows = 0;
  for (int j = 0; j < N; ++j)
    {
      if (nterms[j] < W)
        ++border_rows;
      for (int k = 0; k < N; ++k)
        {
          if (j == k)
            continue;
          const double got = Hs[size_t(j) * N + k], ref = Href[size_t(j) * N + k];
          if (ref == 0 ? got != 0 : !tol_ok(got, ref, hband(j, k)))
            {
              ctx.violation(pn + (ref == 0 ? ":hessian-row-nonzero-outside-neighbourhood" : ":hessian-offdiagonal-vs-second-derivative-of-value"),
                            vf::fmt("row %s column %s: compute_Hessian %.9g, float64 reference %.9g, band %.3g", g.vox(j).c_str(),
                                    g.vox(k).c_str(), got, ref, hband(j, k)));
              return;
            }
        }
    }
  ctx.count("hessian_rows_checked", N);
  ctx.count("hessian_border_rows_checked", border_rows);
  // symmetry (STIR against STIR)
  {
    long pairs = 0;
    for (int j = 0; j < N; ++j)
      for (int k = j + 1; k < N; ++k)
        {
          const double a = Hs[size_t(j) * N + k], b = Hs[size_t(k) * N + j];
          if (a == 0 && b == 0)
            continue;
          ++pairs;
          if (std::fabs(a - b) > 8 * EPS32 * std::max(std::fabs(a), std::fabs(b)) + hband(j, k) + hband(k, j))
            {
              ctx.violation(pn + ":hessian-not-symmetric",
                            vf::fmt("H[%s][%s]=%.9g but H[%s][%s]=%.9g", g.vox(j).c_str(), g.vox(k).c_str(), a, g.vox(k).c_str(), g.vox(j).c_str(), b));
              return;
            }
        }
    ctx.count("symmetry_pairs_checked", pairs);
  }
  // row j == H e_j (accumulate_Hessian_times_input on the unit image), subset of voxels bounded by cost
  {
    const double budget = ctx.thorough() ? 6e7 : 6e6;
    std::vector<int> rows(N);
    for (int j = 0; j < N; ++j)
      rows[j] = j;
    const long maxrows = std::max<long>(8, static_cast<long>(budget / (double(N) * W)));
    if (N > maxrows)
      {
        // keep the corners, sample the rest
        std::vector<int> keep = { 0, N - 1, g.lin(0, 0, g.nx - 1), g.lin(0, g.ny - 1, 0), g.lin(g.nz - 1, 0, 0) };
        drng.shuffle(rows);
        rows.resize(maxrows);
        rows.insert(rows.end(), keep.begin(), keep.end());
        std::sort(rows.begin(), rows.end());
        rows.erase(std::unique(rows.begin(), rows.end()), rows.end());
      }
    std::vector<float> e(N, 0.f), col;
    for (int j : rows)
      {
        e[j] = 1.f;
        stir_Hv(im, e, col);
        e[j] = 0.f;
        for (int i = 0; i < N; ++i)
          {
            const double a = col[i], b = Hs[size_t(j) * N + i];
            if (std::fabs(a - b) > 8 * EPS32 * std::max(std::fabs(a), std::fabs(b)) + hband(j, i) + hband(i, j))
              {
                ctx.violation(pn + ":hessian-row-differs-from-hessian-times-unit-image",
                              vf::fmt("j=%s i=%s: compute_Hessian row j entry i = %.9g, accumulate_Hessian_times_input(e_j) entry i = %.9g",
                                      g.vox(j).c_str(), g.vox(i).c_str(), b, a));
                return;
              }
          }
      }
    ctx.count("hessian_unit_image_products", static_cast<long>(rows.size()));
  }
  // H v for random v: rows against accumulate_Hessian_times_input, accumulation, positive semi-definiteness
  for (int kind = 0; kind < 4; ++kind)
    {
      if (kind == 3 && c.type != PRDP)
        continue;
      std::vector<float> v = rand_vec(kind), hv, hv2;
      stir_Hv(im, v, hv);
      double vHv_rows = 0, tol_rows = 0, vHv_acc = 0, tol_acc = 0;
      for (int j = 0; j < N; ++j)
        {
          double s = 0, ab = 0;
          for (int k = 0; k < N; ++k)
            {
              const double t = double(Hs[size_t(j) * N + k]) * v[k];
              s += t;
              ab += Aref[size_t(j) * N + k] * std::fabs(v[k]);
              tol_rows += std::fabs(v[j] * v[k]) * (hband(j, k) + 4 * EPS32 * std::fabs(Href[size_t(j) * N + k]));
            }
          // accumulate sums w*(d20*v_j + d11*v_k) in float: magnitude sum_k |H_jk||v_k| + |H_jj||v_j|
          // plus the error already carried by the rows themselves
          const double bj = vf::band32(2 * nterms[j] + NOPS_TERM, ab + Aref[size_t(j) * N + j] * std::fabs(v[j]))
                            + vf::band32(nterms[j] + NOPS_TERM, ab);
          if (std::fabs(hv[j] - s) > bj + 4 * EPS32 * std::fabs(s) + 1e-32) // 1e-32: underflow quantum times |v| <= 1e3
            {
              ctx.violation(pn + ":hessian-times-input-differs-from-rows",
                            vf::fmt("%s accumulate_Hessian_times_input %.9g, sum_k H[j][k] v[k] from compute_Hessian %.9g, band %.3g (vector kind %d)",
                                    g.vox(j).c_str(), double(hv[j]), s, bj, kind));
              return;
            }
          vHv_rows += v[j] * s;
          vHv_acc += double(v[j]) * hv[j];
          tol_acc += std::fabs(v[j]) * (bj + 4 * EPS32 * std::fabs(s));
        }
      ctx.count("psd_checks", 2);
      if (vHv_rows < -tol_rows || vHv_acc < -tol_acc)
        {
          ctx.violation(pn + ":hessian-not-positive-semidefinite",
                        vf::fmt("v^T H v = %.9g (rows, tol %.3g) / %.9g (accumulate, tol %.3g), vector kind %d", vHv_rows, tol_rows, vHv_acc, tol_acc, kind));
          return;
        }
      if (kind == 2)
        {
          std::vector<float> pre = rand_vec(2);
          stir_Hv(im, v, hv2, &pre);
          ctx.count("accumulation_checks");
          for (int j = 0; j < N; ++j)
            if (std::fabs(double(hv2[j]) - (double(pre[j]) + hv[j])) > 2 * EPS32 * (std::fabs(pre[j]) + std::fabs(hv[j])))
              {
                ctx.violation(pn + ":hessian-times-input-does-not-accumulate",
                              vf::fmt("%s output before %.9g, H v %.9g, output after %.9g", g.vox(j).c_str(), double(pre[j]), double(hv[j]), double(hv2[j])));
                return;
              }
        }
    }
  // midpoint convexity of the value (documented convex for non-negative images)
  {
    std::vector<float> mid(N);
    for (int j = 0; j < N; ++j)
      mid[j] = static_cast<float>(0.5 * (double(lam[j]) + double(lam2[j])));
    const dvec lm = to_d(mid);
    double Aa, Ab, Am;
    R.value(l, &Aa);
    R.value(l2, &Ab);
    R.value(lm, &Am);
    dvec gm, gma;
    R.gradient(lm, gm, &gma);
    double rnd = 0;
    for (int j = 0; j < N; ++j)
      rnd += gma[j] * EPS32 * std::fabs(lm[j]);
    const double Va = stir_value(im), Vb = stir_value(mk_image(g, lam2)), Vm = stir_value(mk_image(g, mid));
    ctx.count("psd_checks");
    ctx.count("midpoint_convexity_checks");
    if (Vm > 0.5 * (Va + Vb) + vf::band32(NOPS_TERM, Aa + Ab + Am) + rnd)
      {
        ctx.violation(pn + ":value-not-midpoint-convex", vf::fmt("f(a)=%.9g f(b)=%.9g f((a+b)/2)=%.9g", Va, Vb, Vm));
        return;
      }
  }
  // add_multiplication_with_approximate_Hessian
  {
    std::vector<float> v = rand_vec(2), pre = rand_vec(1), out;
    shared_ptr<Img> in = mk_image(g, v), o = mk_image(g, pre);
    if (c.type == PQ)
      {
        // QuadraticPrior.h: "this will return the weights multiplied by the input"
        prior.add_multiplication_with_approximate_Hessian(*o, *in);
        rd_image(g, *o, out);
        ctx.count("approx_hessian_checks");
        for (int z = 0; z < g.nz; ++z)
          for (int y = 0; y < g.ny; ++y)
            for (int x = 0; x < g.nx; ++x)
              {
                const int j = g.lin(z, y, x);
                double s = 0, a = 0;
                R.for_nb(z, y, x, [&](int dz, int dy, int dx, int k) {
                  const double t = R.w.at(dz, dy, dx) * kap[j] * kap[k] * v[k] * c.pf;
                  s += t;
                  a += std::fabs(t);
                });
                if (!tol_ok(out[j], pre[j] + s, vf::band32(NOPS_TERM + nterms[j], a + std::fabs(pre[j]))))
                  {
                    ctx.violation("Quadratic:approximate-hessian-differs-from-weights-times-input",
                                  vf::fmt("%s output %.9g expected %.9g + %.9g", g.vox(j).c_str(), double(out[j]), double(pre[j]), s));
                    return;
                  }
              }
      }
    else
      {
        // documented as not implemented (RDP) / not overridden (log-cosh): error() is the contract, anything else is only counted
        try
          {
            prior.add_multiplication_with_approximate_Hessian(*o, *in);
            ctx.count("approx_hessian_unexpectedly_available");
          }
        catch (...)
          {
            ctx.count("approx_hessian_not_implemented_confirmed");
          }
      }
  }
  // ---------- (4) linear in the penalisation factor; factor 0; uniform image
  {
    const double Vc = stir_value(im);
    std::vector<float> vv = rand_vec(2), hvc, hv1, row1;
    stir_Hv(im, vv, hvc);
    prior.set_penalisation_factor(1.f);
    const double V1 = stir_value(im);
    std::vector<float> g1;
    stir_gradient(im, g1);
    stir_Hv(im, vv, hv1);
    ctx.count("pf_linearity_checks");
    if (std::fabs(Vc - double(c.pf) * V1) > 1e-15 * std::fabs(Vc))
      {
        ctx.violation(pn + ":value-not-linear-in-penalisation-factor", vf::fmt("f(pf=%g)=%.17g, pf*f(pf=1)=%.17g", c.pf, Vc, double(c.pf) * V1));
        return;
      }
    auto lin_ok = [&](double a, double b1) { return std::fabs(a - double(c.pf) * b1) <= 3 * EPS32 * std::max(std::fabs(a), std::fabs(double(c.pf) * b1)) + 1e-36; };
    for (int j = 0; j < N; ++j)
      {
        if (!lin_ok(gs[j], g1[j]))
          {
            ctx.violation(pn + ":gradient-not-linear-in-penalisation-factor",
                          vf::fmt("%s g(pf=%g)=%.9g pf*g(pf=1)=%.9g", g.vox(j).c_str(), c.pf, double(gs[j]), double(c.pf) * g1[j]));
            return;
          }
        if (!lin_ok(hvc[j], hv1[j]))
          {
            ctx.violation(pn + ":hessian-times-input-not-linear-in-penalisation-factor",
                          vf::fmt("%s Hv(pf=%g)=%.9g pf*Hv(pf=1)=%.9g", g.vox(j).c_str(), c.pf, double(hvc[j]), double(c.pf) * hv1[j]));
            return;
          }
      }
    const int nrows = std::min(N, 6);
    for (int t = 0; t < nrows; ++t)
      {
        const int j = t == 0 ? 0 : static_cast<int>(drng.range(0, N - 1));
        stir_row(im, j, row1);
        for (int k = 0; k < N; ++k)
          if (!lin_ok(Hs[size_t(j) * N + k], row1[k]))
            {
              ctx.violation(pn + ":hessian-row-not-linear-in-penalisation-factor",
                            vf::fmt("row %s col %s H(pf=%g)=%.9g pf*H(pf=1)=%.9g", g.vox(j).c_str(), g.vox(k).c_str(), c.pf,
                                    double(Hs[size_t(j) * N + k]), double(c.pf) * row1[k]));
              return;
            }
      }
    prior.set_penalisation_factor(0.f);
    std::vector<float> g0, hv0;
    stir_gradient(im, g0);
    stir_Hv(im, vv, hv0);
    stir_row(im, 0, row1);
    bool z = stir_value(im) == 0.;
    for (int j = 0; j < N; ++j)
      z = z && g0[j] == 0.f && hv0[j] == 0.f && row1[j] == 0.f;
    if (!z)
      {
        ctx.violation(pn + ":zero-penalisation-factor-not-zero", "value / gradient / Hessian row / Hessian-times-input non-zero with penalisation factor 0");
        return;
      }
    prior.set_penalisation_factor(c.pf);
    std::vector<float> uni(N, static_cast<float>(scale * rng.uniform(0.1, 1))), gu;
    shared_ptr<Img> ui = mk_image(g, uni);
    stir_gradient(ui, gu);
    const double Vu = stir_value(ui);
    ctx.count("uniform_image_checks");
    for (int j = 0; j < N; ++j)
      if (gu[j] != 0.f)
        {
          ctx.violation(pn + ":gradient-of-uniform-image-not-zero", vf::fmt("%s gradient %.9g (image value %.9g)", g.vox(j).c_str(), double(gu[j]), double(uni[0])));
          return;
        }
    if (Vu != 0.)
      {
        ctx.violation(pn + ":value-of-uniform-image-not-zero", vf::fmt("value %.9g (image value %.9g)", Vu, double(uni[0])));
        return;
      }
  }
  (void)stir_centre;
}

int
main(int argc, char** argv)
{
  vg::quiet();
  return vf::verif_main(argc, argv, "C09", run_case);
}
