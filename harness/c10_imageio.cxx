// C10: image files round-trip voxel positions, values and exam information (DESIGN.md §6 C10).
//
// One case = one generated image (or dynamic / parametric container, or truncation sweep) that is written with the
// Interfile / Multi output file formats and read back with stir::read_from_file.  Everything is compared against the
// in-memory original:
//   * voxel physical positions  (band: float32 arithmetic of writer and reader, computed)
//   * voxel values: bit-exact for FLOAT output (and DOUBLE output without rescaling); for scaled integer output the value read
//     back is within half a quantisation step (the step the header declares) of the original;
//     unsigned output: negatives -> 0 (documented truncation); no overflow: order and sign of the stored integers preserved
//   * exam info fields the format stores
//   * a data file shorter than announced must be rejected (exception or null), at every length.
// The binary data file and the header text are also decoded here independently of STIR's reader so that a writer
// fault can be told from a reader fault.
#include "common/verif.h"
#include "common/gen.h"
#include "stir/IO/InterfileOutputFileFormat.h"
#include "stir/IO/InterfileDynamicDiscretisedDensityOutputFileFormat.h"
#include "stir/IO/InterfileParametricDiscretisedDensityOutputFileFormat.h"
#include "stir/IO/MultiDynamicDiscretisedDensityOutputFileFormat.h"
#include "stir/IO/MultiParametricDiscretisedDensityOutputFileFormat.h"
#include "stir/IO/read_from_file.h"
#include "stir/DiscretisedDensity.h"
#include "stir/DynamicDiscretisedDensity.h"
#include "stir/modelling/ParametricDiscretisedDensity.h"
#include "stir/modelling/KineticParameters.h"
#include "stir/ExamInfo.h"
#include "stir/RadionuclideDB.h"
#include "stir/Radionuclide.h"
#include "stir/TimeFrameDefinitions.h"
#include "stir/PatientPosition.h"
#include "stir/ImagingModality.h"
#include "stir/NumericType.h"
#include "stir/NumericInfo.h"
#include "stir/ByteOrder.h"
#include "stir/convert_array.h"
#include "stir/IndexRange3D.h"
#include <fstream>
#include <sstream>
#include <sys/stat.h>

using namespace stir;
using vf::Ctx;
using vf::fmt;

typedef VoxelsOnCartesianGrid<float> Image;
typedef InterfileParametricDiscretisedDensityOutputFileFormat<ParametricVoxelsOnCartesianGridBaseType> IParamFmt;
typedef MultiParametricDiscretisedDensityOutputFileFormat<ParametricVoxelsOnCartesianGridBaseType> MParamFmt;

// thrown after a strict violation was reported: ends the case
struct EndCase
{};

static const double U32 = 5.9604644775390625e-08; // 2^-24: unit round-off of float32
static const double DENORM = 1.5e-45;             // one float32 denormal quantum
static const double FLT_REL = 1.1920928955078125e-07; // 2^-23: a float32 quantity that went through text must come back within 1 ulp

// ---------------------------------------------------------------------------------------------- number types
struct TypeInfo
{
  NumericType::Type id;
  const char* name;
  bool is_int;
  bool is_signed;
  int bytes;
  double tmin, tmax;
  bool wide; // the type's range exceeds that of int (automatic scaling gives quotients beyond INT_MAX)
};
static const TypeInfo TYPES[] = {
  { NumericType::SCHAR, "SCHAR", true, true, 1, -128., 127., false },
  { NumericType::UCHAR, "UCHAR", true, false, 1, 0., 255., false },
  { NumericType::SHORT, "SHORT", true, true, 2, -32768., 32767., false },
  { NumericType::USHORT, "USHORT", true, false, 2, 0., 65535., false },
  { NumericType::INT, "INT", true, true, 4, -2147483648., 2147483647., false },
  { NumericType::UINT, "UINT", true, false, 4, 0., 4294967295., true },
  { NumericType::LONG, "LONG", true, true, 8, -9223372036854775808., 9223372036854775807., true },
  { NumericType::ULONG, "ULONG", true, false, 8, 0., 18446744073709551615., true },
  { NumericType::FLOAT, "FLOAT", false, true, 4, 0., 0., false },
  { NumericType::DOUBLE, "DOUBLE", false, true, 8, 0., 0., false },
};
static const int NUM_TYPES = 10;
static const TypeInfo&
type_info(NumericType::Type id)
{
  for (const TypeInfo& t : TYPES)
    if (t.id == id)
      return t;
  throw std::runtime_error("harness: unknown type");
}

// the scale factor the library's writer will use for this array (same public function write_data() calls)
static float
lib_scale(const Array<3, float>& a, NumericType::Type t, float su)
{
  float s = su;
  switch (t)
    {
    case NumericType::SCHAR:
      find_scale_factor(s, a, NumericInfo<signed char>());
      break;
    case NumericType::UCHAR:
      find_scale_factor(s, a, NumericInfo<unsigned char>());
      break;
    case NumericType::SHORT:
      find_scale_factor(s, a, NumericInfo<signed short>());
      break;
    case NumericType::USHORT:
      find_scale_factor(s, a, NumericInfo<unsigned short>());
      break;
    case NumericType::INT:
      find_scale_factor(s, a, NumericInfo<signed int>());
      break;
    case NumericType::UINT:
      find_scale_factor(s, a, NumericInfo<unsigned int>());
      break;
    case NumericType::LONG:
      find_scale_factor(s, a, NumericInfo<signed long>());
      break;
    case NumericType::ULONG:
      find_scale_factor(s, a, NumericInfo<unsigned long>());
      break;
    case NumericType::FLOAT:
      s = 1.f; // write_data(): same type => scale 1, data copied
      break;
    case NumericType::DOUBLE:
      find_scale_factor(s, a, NumericInfo<double>());
      break;
    default:
      throw std::runtime_error("harness: lib_scale type");
    }
  return s;
}

// ---------------------------------------------------------------------------------------------- independent decoders
struct Hdr // what this harness reads from the header text itself
{
  bool ok = false;
  std::string data_file;
  std::map<int, double> scale;  // image scaling factor[i]
  std::map<int, double> offset; // data offset in bytes[i]
  std::string text;
  double get_scale(int i) const
  {
    auto it = scale.find(i);
    return it == scale.end() ? 1. : it->second;
  }
  unsigned long get_offset(int i) const
  {
    auto it = offset.find(i);
    return it == offset.end() ? 0UL : static_cast<unsigned long>(it->second);
  }
};
static std::string
squash(const std::string& s)
{
  std::string o;
  for (char c : s)
    if (!std::isspace(static_cast<unsigned char>(c)) && c != '!' && c != '_')
      o += static_cast<char>(std::tolower(static_cast<unsigned char>(c)));
  return o;
}
static Hdr
parse_header(const std::string& hv)
{
  Hdr h;
  std::ifstream in(hv.c_str());
  if (!in)
    return h;
  std::string line;
  while (std::getline(in, line))
    {
      h.text += line + "\n";
      const auto p = line.find(":=");
      if (p == std::string::npos)
        continue;
      std::string key = squash(line.substr(0, p));
      std::string val = line.substr(p + 2);
      while (!val.empty() && std::isspace(static_cast<unsigned char>(val.front())))
        val.erase(val.begin());
      while (!val.empty() && std::isspace(static_cast<unsigned char>(val.back())))
        val.pop_back();
      int idx = 1;
      const auto b = key.find('[');
      if (b != std::string::npos)
        {
          idx = std::atoi(key.c_str() + b + 1);
          key = key.substr(0, b);
        }
      if (key == "nameofdatafile")
        h.data_file = val;
      else if (key == "imagescalingfactor")
        h.scale[idx] = std::strtod(val.c_str(), nullptr);
      else if (key == "dataoffsetinbytes")
        h.offset[idx] = std::strtod(val.c_str(), nullptr);
    }
  h.ok = true;
  return h;
}
static std::string
dir_of(const std::string& f)
{
  const auto p = f.find_last_of('/');
  return p == std::string::npos ? std::string(".") : f.substr(0, p);
}
static bool
slurp(const std::string& f, std::vector<unsigned char>& out)
{
  std::ifstream in(f.c_str(), std::ios::binary);
  if (!in)
    return false;
  out.assign(std::istreambuf_iterator<char>(in), std::istreambuf_iterator<char>());
  return true;
}
static long
file_size(const std::string& f)
{
  struct stat st;
  if (::stat(f.c_str(), &st) != 0)
    return -1;
  return static_cast<long>(st.st_size);
}
// decode n numbers of the given type from raw bytes (as double; the value comparison bands cover the 2^-53 of 64-bit ints)
static bool
decode_raw(const std::vector<unsigned char>& raw, size_t off, size_t n, const TypeInfo& t, bool little, std::vector<double>& out)
{
  out.resize(n);
  if (off + n * t.bytes > raw.size())
    return false;
  for (size_t k = 0; k < n; ++k)
    {
      unsigned char b[8] = { 0 };
      for (int i = 0; i < t.bytes; ++i) // b[] = little endian representation
        b[i] = little ? raw[off + k * t.bytes + i] : raw[off + k * t.bytes + (t.bytes - 1 - i)];
      uint64_t u = 0;
      for (int i = t.bytes - 1; i >= 0; --i)
        u = (u << 8) | b[i];
      if (t.is_int)
        {
          if (t.is_signed)
            {
              int64_t s;
              if (t.bytes == 1)
                s = static_cast<int8_t>(u);
              else if (t.bytes == 2)
                s = static_cast<int16_t>(u);
              else if (t.bytes == 4)
                s = static_cast<int32_t>(u);
              else
                s = static_cast<int64_t>(u);
              out[k] = static_cast<double>(s);
            }
          else
            out[k] = static_cast<double>(u);
        }
      else if (t.bytes == 4)
        {
          uint32_t u4 = static_cast<uint32_t>(u);
          float f;
          std::memcpy(&f, &u4, 4);
          out[k] = f;
        }
      else
        {
          double d;
          std::memcpy(&d, &u, 8);
          out[k] = d;
        }
    }
  return true;
}

// ---------------------------------------------------------------------------------------------- generators
struct Geo
{
  int n[3];   // z,y,x sizes
  int mn[3];  // z,y,x minimum indices
  float vs[3];
  float org[3];
  vf::Desc desc() const
  {
    vf::Desc d;
    d.add("size_zyx", std::vector<int>{ n[0], n[1], n[2] }).add("min_zyx", std::vector<int>{ mn[0], mn[1], mn[2] });
    d.add("voxel_zyx", std::vector<double>{ vs[0], vs[1], vs[2] }).add("origin_zyx", std::vector<double>{ org[0], org[1], org[2] });
    return d;
  }
  long voxels() const { return static_cast<long>(n[0]) * n[1] * n[2]; }
};
static double
loguniform(vf::Rng& r, double lo, double hi)
{
  return std::exp(r.uniform(std::log(lo), std::log(hi)));
}
// a float that is the nearest float of a decimal with <= 4 significant digits (survives a 6-digit text round trip exactly)
static float
nice_float_at_least(vf::Rng& r, double lo)
{
  if (!(lo > 0))
    lo = 1e-3;
  double e = std::floor(std::log10(lo));
  for (int tries = 0; tries < 50; ++tries)
    {
      const double m = static_cast<double>(r.range(1000, 9999)) / 1000.;
      char b[64];
      std::snprintf(b, sizeof b, "%.3fe%d", m, static_cast<int>(e));
      const float f = std::strtof(b, nullptr);
      if (f >= lo && std::isfinite(f))
        return f;
      if (tries % 3 == 2)
        e += 1;
    }
  return static_cast<float>(lo * 10);
}
static Geo
gen_geo(vf::Rng& r, int max_n, long max_vox)
{
  Geo g;
  for (int tries = 0;; ++tries)
    {
      for (int a = 0; a < 3; ++a)
        g.n[a] = static_cast<int>(r.coin(0.5) ? r.range(1, max_n) : r.range(1, std::min(5, max_n)));
      if (g.voxels() <= max_vox || tries > 50)
        break;
    }
  while (g.voxels() > max_vox)
    {
      int a = static_cast<int>(r.range(0, 2));
      if (g.n[a] > 1)
        --g.n[a];
    }
  const int mode = static_cast<int>(r.range(0, 9));
  for (int a = 0; a < 3; ++a)
    {
      if (mode <= 2) // STIR's standard layout
        g.mn[a] = a == 0 ? 0 : -(g.n[a] / 2);
      else if (mode <= 4)
        g.mn[a] = static_cast<int>(r.range(0, 15)); // positive minima
      else if (mode <= 6)
        g.mn[a] = -static_cast<int>(r.range(1, 30)); // negative minima (may end below 0)
      else
        g.mn[a] = static_cast<int>(r.range(-20, 20));
      const int vm = static_cast<int>(r.range(0, 5));
      if (vm == 0)
        g.vs[a] = static_cast<float>(r.pick(std::vector<double>{ 1., 2., 3.375, 4.0625, 2.05941, 0.5 }));
      else if (vm == 1 && a > 0)
        g.vs[a] = g.vs[a - 1];
      else
        g.vs[a] = static_cast<float>(loguniform(r, 0.05, 50.));
      const int om = static_cast<int>(r.range(0, 9));
      if (om <= 2)
        g.org[a] = 0.f;
      else if (om <= 6)
        g.org[a] = static_cast<float>(g.vs[a] * r.uniform(-1000., 1000.));
      else if (om == 7)
        g.org[a] = static_cast<float>(r.uniform(-500., 500.));
      else if (om == 8)
        g.org[a] = static_cast<float>(r.uniform(-1e-3, 1e-3));
      else
        g.org[a] = static_cast<float>(g.vs[a] * r.range(-200, 200)); // whole number of voxels
    }
  return g;
}

struct ExamSpec
{
  shared_ptr<ExamInfo> ei;
  vf::Desc d;
};
static const char* MOD_NAMES[] = { "Unknown", "PT", "NM", "MR", "CT", "US", "Optical" };
static ExamSpec
gen_exam(vf::Rng& r, int num_frames /* -1: 0 or 1 at random */)
{
  ExamSpec s;
  ImagingModality::ImagingModalityValue mv;
  const double um = r.u01();
  if (um < 0.45)
    mv = ImagingModality::PT;
  else if (um < 0.70)
    mv = ImagingModality::NM;
  else if (um < 0.80)
    mv = ImagingModality::Unknown;
  else
    mv = static_cast<ImagingModality::ImagingModalityValue>(r.range(3, 6));
  s.ei.reset(new ExamInfo(ImagingModality(mv)));
  ExamInfo& e = *s.ei;
  s.d.add("modality", MOD_NAMES[static_cast<int>(mv)]);
  const int orient = static_cast<int>(r.range(0, 3)), rot = static_cast<int>(r.range(0, 5));
  e.patient_position
      = PatientPosition(static_cast<PatientPosition::OrientationValue>(orient), static_cast<PatientPosition::RotationValue>(rot));
  s.d.add("orientation", orient).add("rotation", rot);
  if (num_frames < 0)
    num_frames = r.coin(0.75) ? 1 : 0;
  if (num_frames > 0)
    {
      std::vector<double> st, du;
      double t = r.coin(0.3) ? 0. : (r.coin(0.8) ? r.uniform(0., 5000.) : 1234567.891);
      for (int f = 0; f < num_frames; ++f)
        {
          const double d = r.coin(0.3) ? static_cast<double>(r.range(1, 600)) : loguniform(r, 1e-2, 1e4);
          st.push_back(t);
          du.push_back(d);
          t += d + (r.coin(0.5) ? 0. : r.uniform(0., 100.));
        }
      e.set_time_frame_definitions(TimeFrameDefinitions(st, du));
      s.d.add("frame_starts", st).add("frame_durations", du);
    }
  // radionuclide
  {
    const double ur = r.u01();
    if (ur < 0.4 && (mv == ImagingModality::PT || mv == ImagingModality::NM))
      {
        static const std::vector<std::string> pt = { "^18^Fluorine", "^11^Carbon", "^13^Nitrogen", "^15^Oxygen", "^68^Gallium", "^90^Yttrium" };
        static const std::vector<std::string> nm = { "^99m^Technetium", "^67^Gallium", "^177^Lutetium", "^90^Yttrium" };
        const std::string name = mv == ImagingModality::PT ? r.pick(pt) : r.pick(nm);
        try
          {
            RadionuclideDB db;
            e.set_radionuclide(db.get_radionuclide(e.imaging_modality, name));
            s.d.add("radionuclide", name);
          }
        catch (...)
          {
            s.d.add("radionuclide", "db-failed");
          }
      }
    else if (ur < 0.65)
      {
        const std::string name = "Verifium-" + std::to_string(r.range(1, 999));
        const float hl = static_cast<float>(loguniform(r, 1., 1e7));
        const float br = static_cast<float>(r.uniform(0.05, 1.));
        e.set_radionuclide(Radionuclide(name, mv == ImagingModality::NM ? -1.F : 511.F, br, hl, e.imaging_modality));
        s.d.add("radionuclide", name).add("half_life", hl).add("branching", br);
      }
  }
  if (r.coin(0.5))
    {
      const float lo = static_cast<float>(r.coin(0.3) ? static_cast<double>(r.range(1, 400)) : r.uniform(1., 450.));
      const float hi = lo + static_cast<float>(r.uniform(1., 400.));
      e.set_low_energy_thres(lo);
      e.set_high_energy_thres(hi);
      s.d.add("energy_low", lo).add("energy_high", hi);
    }
  if (r.coin(0.5))
    {
      const float c = static_cast<float>(r.coin(0.2) ? 1. : loguniform(r, 1e-6, 1e6));
      e.set_calibration_factor(c);
      s.d.add("calibration", c);
    }
  if (r.coin(0.3))
    {
      e.start_time_in_secs_since_1970 = std::floor(1.2e9 + r.uniform(0., 4e8));
      s.d.add("start_time", e.start_time_in_secs_since_1970);
    }
  if (r.coin(0.3))
    {
      e.originating_system = r.pick(std::vector<std::string>{ "ECAT 931", "Advance", "verif-unknown-system" });
      s.d.add("system", e.originating_system);
    }
  return s;
}

static shared_ptr<Image>
make_image(const Geo& g, const shared_ptr<const ExamInfo>& ei)
{
  IndexRange3D r(g.mn[0], g.mn[0] + g.n[0] - 1, g.mn[1], g.mn[1] + g.n[1] - 1, g.mn[2], g.mn[2] + g.n[2] - 1);
  return shared_ptr<Image>(
      new Image(ei, r, CartesianCoordinate3D<float>(g.org[0], g.org[1], g.org[2]), CartesianCoordinate3D<float>(g.vs[0], g.vs[1], g.vs[2])));
}

static const char* DIST_NAMES[] = { "positive",      "mixed-sign", "huge",   "tiny",      "all-zero",       "constant",
                                    "all-negative",  "counts",     "sparse", "wide-range", "nonpositive-with-zero" };
static const int NUM_DIST = 11;
static int
pick_dist(vf::Rng& r)
{
  const double u = r.u01();
  // all-negative / nonpositive images are part of the space but kept at a few percent
  static const double cum[NUM_DIST] = { 0.22, 0.42, 0.52, 0.62, 0.67, 0.75, 0.78, 0.86, 0.92, 0.98, 1.0 };
  for (int i = 0; i < NUM_DIST; ++i)
    if (u < cum[i])
      return i;
  return 0;
}
static void
fill_values(Image& im, vf::Rng& r, int dist, vf::Desc& d)
{
  d.add("values", DIST_NAMES[dist]);
  double A = 1;
  switch (dist)
    {
    case 0:
    case 1:
    case 6:
    case 8:
    case 10:
      A = std::pow(10., r.uniform(-3., 4.));
      break;
    case 2:
      A = std::pow(10., r.uniform(25., 30.));
      break;
    case 3:
      A = std::pow(10., r.uniform(-30., -25.));
      break;
    default:
      break;
    }
  d.add("amplitude", A);
  float c = 0.f;
  if (dist == 5)
    {
      const int cm = static_cast<int>(r.range(0, 4));
      c = static_cast<float>(cm == 0   ? 1.
                             : cm == 1 ? -std::pow(10., r.uniform(-2., 3.))
                             : cm == 2 ? std::pow(10., r.uniform(-30., 30.))
                             : cm == 3 ? -std::pow(10., r.uniform(-30., 30.))
                                       : r.uniform(0.1, 1000.));
      d.add("constant", c);
    }
  const bool huge_signed = r.coin(0.5);
  long k = 0;
  const long N = static_cast<long>(im.size_all());
  const long zero_at = N > 0 ? r.range(0, N - 1) : 0;
  for (auto it = im.begin_all(); it != im.end_all(); ++it, ++k)
    {
      double v = 0;
      switch (dist)
        {
        case 0:
          v = A * r.u01();
          break;
        case 1:
          v = A * r.normal();
          break;
        case 2:
        case 3:
          v = A * (huge_signed ? r.uniform(-1., 1.) : r.u01());
          break;
        case 4:
          v = 0;
          break;
        case 5:
          v = c;
          break;
        case 6:
          v = -A * (0.01 + r.u01());
          break;
        case 7:
          v = static_cast<double>(r.poisson(r.coin(0.5) ? 3. : 200.));
          break;
        case 8:
          v = r.coin(0.1) ? A * r.normal() : 0.;
          break;
        case 9:
          v = (r.coin(0.3) ? -1. : 1.) * std::pow(10., r.uniform(-30., 30.));
          break;
        case 10:
          v = k == zero_at ? 0. : -A * r.u01();
          break;
        }
      *it = static_cast<float>(v);
    }
}
static void
get_values(const Array<3, float>& a, std::vector<float>& v)
{
  v.clear();
  for (auto it = a.begin_all(); it != a.end_all(); ++it)
    v.push_back(*it);
}
static bool
non_constant(const std::vector<float>& v)
{
  for (size_t k = 1; k < v.size(); ++k)
    if (v[k] != v[0])
      return true;
  return false;
}

// ---------------------------------------------------------------------------------------------- oracles
struct Tag // where we are, for witnesses
{
  std::string container; // single / dynamic-interfile / dynamic-multi / parametric-interfile / parametric-multi
  std::string type;
  std::string byte_order;
  float su = 0.f;
  std::string scale_mode;
  int part = 0; // frame / parameter number (1-based), 0 for single
  std::string file;
  std::string str() const
  {
    return fmt("[%s part %d, type %s, %s, scale_to_write_data=%.9g (%s), file %s]", container.c_str(), part, type.c_str(),
               byte_order.c_str(), static_cast<double>(su), scale_mode.c_str(), file.c_str());
  }
};

// report a strict violation and end the case
[[noreturn]] static void
strict(Ctx& ctx, const std::string& key, const std::string& w)
{
  ctx.violation(key, w);
  throw EndCase();
}
// defect-class violations (a specific, already characterised defect): reported once per key and case, the case goes on
static void
defect(Ctx& ctx, std::set<std::string>& seen, const std::string& key, const std::string& w)
{
  ctx.count("defect_hits", 1);
  if (seen.insert(key).second)
    ctx.violation(key, w);
}

// geometry: dimensions and every voxel's physical position
static void
check_geometry(Ctx& ctx, const Image& o, const Image& r, const Tag& tag)
{
  BasicCoordinate<3, int> omin, omax, rmin, rmax;
  if (!o.get_regular_range(omin, omax) || !r.get_regular_range(rmin, rmax))
    strict(ctx, "index-range-not-regular", tag.str());
  static const char* AX[] = { "z", "y", "x" };
  std::vector<double> p0[3];
  double band[3];
  for (int a = 0; a < 3; ++a)
    {
      const int n = omax[a + 1] - omin[a + 1] + 1, nr = rmax[a + 1] - rmin[a + 1] + 1;
      if (n != nr)
        strict(ctx, std::string("image-size-changed:") + AX[a],
               fmt("axis %s: %d voxels written, %d read back ", AX[a], n, nr) + tag.str());
      const double vs = o.get_grid_spacing()[a + 1], org = o.get_origin()[a + 1];
      const double fpo = org + vs * omin[a + 1];
      const double A = std::fabs(vs * omin[a + 1]) + std::fabs(org) + 3 * std::fabs(fpo) + 4 * vs * n;
      band[a] = std::ldexp(A, -22);
      for (int d = 0; d < n; ++d)
        p0[a].push_back(org + vs * (omin[a + 1] + d));
    }
  long cnt = 0;
  BasicCoordinate<3, int> d;
  for (d[1] = 0; d[1] <= omax[1] - omin[1]; ++d[1])
    for (d[2] = 0; d[2] <= omax[2] - omin[2]; ++d[2])
      for (d[3] = 0; d[3] <= omax[3] - omin[3]; ++d[3])
        {
          const CartesianCoordinate3D<float> p = r.get_physical_coordinates_for_indices(rmin + d);
          ++cnt;
          for (int a = 0; a < 3; ++a)
            {
              const double diff = std::fabs(static_cast<double>(p[a + 1]) - p0[a][d[a + 1]]);
              if (!(diff <= band[a]))
                strict(ctx, std::string("voxel-position:") + AX[a],
                       fmt("voxel %d along %s (written index %d, read index %d): written position %.9g, read back %.9g, |diff| %.3g > "
                           "band %.3g; written origin %.9g voxel size %.9g min index %d; read origin %.9g voxel size %.9g min index %d ",
                           d[a + 1], AX[a], omin[a + 1] + d[a + 1], rmin[a + 1] + d[a + 1], p0[a][d[a + 1]], static_cast<double>(p[a + 1]),
                           diff, band[a], static_cast<double>(o.get_origin()[a + 1]), static_cast<double>(o.get_grid_spacing()[a + 1]),
                           omin[a + 1], static_cast<double>(r.get_origin()[a + 1]), static_cast<double>(r.get_grid_spacing()[a + 1]),
                           rmin[a + 1])
                           + tag.str());
            }
        }
  ctx.count("positions_compared", cnt);
}

// values of one image / frame.  v: written, r: read back by STIR, st: stored numbers decoded by the harness (may be empty),
// s_hdr: scale in the header text = the quantisation step the file declares (applied by the reader as a float);
// S_lib: what the library's find_scale_factor() returns for these data (only used to say *why* a value is off)
static void
check_values(Ctx& ctx, std::set<std::string>& seen, const TypeInfo& t, const std::vector<float>& v, const std::vector<float>& r,
             const std::vector<double>& st, const float S_lib, const double s_hdr, const Tag& tag)
{
  (void)seen;
  const size_t N = v.size();
  if (r.size() != N)
    strict(ctx, "voxel-count-changed", fmt("%zu written, %zu read ", N, r.size()) + tag.str());
  const bool have_st = st.size() == N;
  const std::string T = t.name;
  ctx.count("voxels_compared", static_cast<long>(N));
  ctx.count(std::string("voxels_") + T, static_cast<long>(N));
  const float S = static_cast<float>(s_hdr);
  const double Sd = S;
  // classification of a value violation: the header does not carry the scale the writer's find_scale_factor() gives
  const std::string why_scale = S == S_lib ? "" : "header-scale-differs-from-scale-used:";
  const std::string scales = fmt("(header scale %.17g, find_scale_factor gives %.9g) ", s_hdr, static_cast<double>(S_lib));
  if (S == S_lib)
    ctx.count("header_scale_bit_exact", 1);
  else
    ctx.count("header_scale_not_bit_exact", 1);

  if (t.id == NumericType::FLOAT)
    {
      // exact
      for (size_t k = 0; k < N; ++k)
        if (!(r[k] == v[k]))
          strict(ctx, "float-output-value-not-exact:FLOAT",
                 fmt("voxel %zu: written %.9g read back %.9g (stored as %.17g) ", k, static_cast<double>(v[k]), static_cast<double>(r[k]),
                     have_st ? st[k] : 0.)
                     + scales + tag.str());
      return;
    }

  bool any_nonzero = false, any_positive = false;
  for (float x : v)
    {
      any_nonzero |= x != 0;
      any_positive |= x > 0;
    }

  // --- scale factor 0: legitimate only when there is nothing to represent (all zero; unsigned output: nothing positive,
  //     negatives -> 0 is the documented truncation)
  if (S == 0.f)
    {
      const bool fine = !any_nonzero || (t.is_int && !t.is_signed && !any_positive);
      if (!fine)
        {
          size_t kk = 0;
          for (size_t k = 0; k < N; ++k)
            if (std::fabs(v[k]) > std::fabs(v[kk]))
              kk = k;
          strict(ctx, "scale-factor-zero-for-nonzero-data:" + T,
                 fmt("the header carries scale factor 0 for data with max |value| %.9g (voxel %zu, read back as %.9g) ",
                     static_cast<double>(v[kk]), kk, static_cast<double>(r[kk]))
                     + scales + tag.str());
        }
      for (size_t k = 0; k < N; ++k)
        if (r[k] != 0)
          strict(ctx, "zero-image-not-preserved:" + T,
                 fmt("voxel %zu: stored %.17g read %.9g ", k, have_st ? st[k] : 0., static_cast<double>(r[k])) + tag.str());
      ctx.count("scale_zero_images", 1);
      return;
    }

  if (t.id == NumericType::DOUBLE)
    {
      ctx.count(S == 1.f ? "double_output_unscaled" : "double_output_scaled", 1);
      for (size_t k = 0; k < N; ++k)
        {
          const double e = std::fabs(static_cast<double>(r[k]) - v[k]);
          // exact when the scale is 1; else the float32 arithmetic of the writer (value / scale, may underflow) and reader (stored * scale)
          const double allowed = S == 1.f ? 0. : 4 * U32 * std::fabs(v[k]) + DENORM * (1 + std::fabs(Sd));
          if (!(e <= allowed))
            strict(ctx, "float-output-value-not-exact:" + why_scale + "DOUBLE",
                   fmt("voxel %zu: written %.9g, stored %.17g, read back %.9g: |diff| %.3g exceeds %.3g ", k, static_cast<double>(v[k]),
                       have_st ? st[k] : 0., static_cast<double>(r[k]), e, allowed)
                       + scales + tag.str());
        }
      return;
    }

  // --- scaled integer output
  const double step = std::fabs(Sd);
  long n_trunc = 0;
  double qmax = 0, qmin = 0;
  for (size_t k = 0; k < N; ++k)
    {
      if (!t.is_signed && v[k] < 0)
        {
          // documented truncation of negatives for unsigned output
          ++n_trunc;
          if ((have_st && st[k] != 0) || r[k] != 0)
            strict(ctx, "unsigned-output-negative-not-truncated-to-zero:" + T,
                   fmt("voxel %zu: value %.9g stored as %.17g read back %.9g ", k, static_cast<double>(v[k]), have_st ? st[k] : 0.,
                       static_cast<double>(r[k]))
                       + tag.str());
          continue;
        }
      const double q = static_cast<double>(v[k]) / Sd;
      qmax = std::max(qmax, q);
      qmin = std::min(qmin, q);
      // float32 division + rounding addition of the writer: only matters where half a step is below float32 resolution (|q| > 2^22)
      const double fb = std::ldexp(std::fabs(q), -22) + std::ldexp(1., -23);
      // the value read back: within half a quantisation step (+ float32 round-off of the reader's product)
      const double e = std::fabs(static_cast<double>(r[k]) - v[k]);
      const double allowed = (0.5 + fb) * step + 4 * U32 * (std::fabs(v[k]) + step) + DENORM;
      if (!(e <= allowed))
        {
          // why: the stored integer is not the rounded value / (writer's scale)?  else: the header does not carry that scale?
          std::string cls = why_scale;
          if (have_st && S_lib != 0.f)
            {
              const double ql = static_cast<double>(v[k]) / S_lib;
              const double fbl = std::ldexp(std::fabs(ql), -22) + std::ldexp(1., -23);
              if (std::fabs(st[k] - ql) > 0.5 + fbl)
                cls = (ql > t.tmax + 0.5 + fbl || ql < t.tmin - 0.5 - fbl) ? "quotient-outside-type-range:"
                      : std::fabs(ql) + 0.5 > 2147483647.                   ? "stored-integer-wrong-for-quotient-beyond-int-max:"
                                                                            : "stored-integer-wrong:";
            }
          strict(ctx, "scaled-int-value-beyond-half-step:" + cls + T,
                 fmt("voxel %zu: written %.9g read back %.9g: |diff| %.6g = %.6g steps (allowed %.6g steps); step %.9g, value/step = %.17g, stored "
                     "integer %.17g, type range [%.17g, %.17g] ",
                     k, static_cast<double>(v[k]), static_cast<double>(r[k]), e, e / step, allowed / step, step, q, have_st ? st[k] : 0., t.tmin,
                     t.tmax)
                     + scales + tag.str());
        }
    }
  ctx.count("unsigned_negatives_truncated", n_trunc);
  ctx.count("voxels_within_half_step_" + T, static_cast<long>(N) - n_trunc);
  if (std::max(std::fabs(qmax), std::fabs(qmin)) > 2147483647.)
    ctx.count("images_with_quotient_beyond_int_range", 1);
  // no overflow of the chosen type: no stored number outside the type (trivially true for the decoded numbers) and no wrap-around,
  // i.e. order and sign of the stored integers follow the values (any rounding of value/step is monotone)
  if (have_st)
    {
      std::vector<size_t> ord;
      for (size_t k = 0; k < N; ++k)
        if (t.is_signed || !(v[k] < 0))
          ord.push_back(k);
      std::sort(ord.begin(), ord.end(), [&](size_t a, size_t b) { return Sd > 0 ? v[a] < v[b] : v[a] > v[b]; });
      for (size_t j = 1; j < ord.size(); ++j)
        if (st[ord[j]] < st[ord[j - 1]])
          strict(ctx, "scaled-int-overflow:order-not-preserved:" + T,
                 fmt("values %.9g (voxel %zu) and %.9g (voxel %zu) stored as %.17g and %.17g ", static_cast<double>(v[ord[j - 1]]), ord[j - 1],
                     static_cast<double>(v[ord[j]]), ord[j], st[ord[j - 1]], st[ord[j]])
                     + scales + tag.str());
      for (size_t k : ord)
        {
          const double q = static_cast<double>(v[k]) / Sd;
          if (std::fabs(q) > 1. && st[k] != 0 && (st[k] < 0) != (q < 0))
            strict(ctx, "scaled-int-overflow:sign-not-preserved:" + T,
                   fmt("voxel %zu: value/step %.17g stored %.17g ", k, q, st[k]) + scales + tag.str());
        }
    }
}

// a float32 exam-info number after the round trip
static bool
close_f32(double w, double r)
{
  return std::fabs(w - r) <= FLT_REL * std::fabs(w) + 1e-30;
}
// exam info: the fields the format stores.  frames: expected (start,duration) list; empty => time frames not compared
static void
check_exam_info(Ctx& ctx, const ExamInfo& w, const ExamInfo& r, const std::vector<std::pair<double, double>>& frames, const Tag& tag)
{
  long nf = 0;
  if (w.imaging_modality.get_modality() != r.imaging_modality.get_modality())
    strict(ctx, "exam-info:modality", "written " + w.imaging_modality.get_name() + " read " + r.imaging_modality.get_name() + " " + tag.str());
  ++nf;
  if (w.patient_position.get_orientation() != r.patient_position.get_orientation())
    strict(ctx, "exam-info:patient-orientation",
           fmt("written %d read %d ", static_cast<int>(w.patient_position.get_orientation()),
               static_cast<int>(r.patient_position.get_orientation()))
               + tag.str());
  ++nf;
  {
    // Interfile 3.3 only knows supine / prone / other: the writer stores left and right as "other" (modelled, see assumptions)
    PatientPosition::RotationValue exp = w.patient_position.get_rotation();
    if (exp == PatientPosition::left || exp == PatientPosition::right)
      {
        exp = PatientPosition::other_rotation;
        ctx.count("patient_rotation_left_right_stored_as_other", 1);
      }
    if (exp != r.patient_position.get_rotation())
      strict(ctx, "exam-info:patient-rotation",
             fmt("written %d (expected after round trip %d) read %d ", static_cast<int>(w.patient_position.get_rotation()),
                 static_cast<int>(exp), static_cast<int>(r.patient_position.get_rotation()))
                 + tag.str());
    ++nf;
  }
  if (!frames.empty())
    {
      const TimeFrameDefinitions& tf = r.get_time_frame_definitions();
      if (tf.get_num_time_frames() != frames.size())
        strict(ctx, "exam-info:number-of-time-frames",
               fmt("%zu written, %u read back ", frames.size(), tf.get_num_time_frames()) + tag.str());
      ++nf;
      for (unsigned f = 1; f <= frames.size(); ++f)
        {
          const double ws = frames[f - 1].first, wd = frames[f - 1].second;
          const double rs = tf.get_start_time(f), rd = tf.get_end_time(f) - tf.get_start_time(f);
          // times are doubles; the reader stores (start, start + duration): the duration comes back through a cancellation
          const double cancel = 8 * 2.3e-16 * (std::fabs(rs) + std::fabs(rd));
          if (!(std::fabs(ws - rs) <= 2.3e-16 * std::fabs(ws)) || !(std::fabs(wd - rd) <= cancel))
            strict(ctx, "exam-info:time-frame",
                   fmt("frame %u: written start %.12g duration %.12g, read start %.12g duration %.12g ", f, ws, wd, rs, rd) + tag.str());
          nf += 2;
        }
    }
  else
    ctx.count("exam_time_frames_absent", 1);
  {
    const Radionuclide wr = w.get_radionuclide(), rr = r.get_radionuclide();
    if (!wr.get_name().empty() && wr.get_name() != "Unknown")
      {
        if (wr.get_name() != rr.get_name())
          strict(ctx, "exam-info:radionuclide-name", "written '" + wr.get_name() + "' read '" + rr.get_name() + "' " + tag.str());
        if (!close_f32(wr.get_half_life(false), rr.get_half_life(false)))
          strict(ctx, "exam-info:radionuclide-half-life",
                 fmt("written %.9g read %.9g ", static_cast<double>(wr.get_half_life(false)), static_cast<double>(rr.get_half_life(false)))
                     + tag.str());
        if (!close_f32(wr.get_branching_ratio(false), rr.get_branching_ratio(false)))
          strict(ctx, "exam-info:radionuclide-branching-ratio",
                 fmt("written %.9g read %.9g ", static_cast<double>(wr.get_branching_ratio(false)),
                     static_cast<double>(rr.get_branching_ratio(false)))
                     + tag.str());
        nf += 3;
        ctx.count("exam_radionuclide_compared", 1);
      }
    else
      ctx.count("exam_radionuclide_unset_not_compared", 1);
  }
  if (w.get_low_energy_thres() > 0 && w.get_high_energy_thres() > 0)
    {
      if (!close_f32(w.get_low_energy_thres(), r.get_low_energy_thres()) || !close_f32(w.get_high_energy_thres(), r.get_high_energy_thres()))
        strict(ctx, "exam-info:energy-window",
               fmt("written [%.9g, %.9g] read [%.9g, %.9g] ", static_cast<double>(w.get_low_energy_thres()),
                   static_cast<double>(w.get_high_energy_thres()), static_cast<double>(r.get_low_energy_thres()),
                   static_cast<double>(r.get_high_energy_thres()))
                   + tag.str());
      ctx.count("exam_energy_window_compared", 1);
    }
  else if (r.get_low_energy_thres() > 0 || r.get_high_energy_thres() > 0)
    strict(ctx, "exam-info:energy-window",
           fmt("none written, read [%.9g, %.9g] ", static_cast<double>(r.get_low_energy_thres()),
               static_cast<double>(r.get_high_energy_thres()))
               + tag.str());
  nf += 2;
  if (w.get_calibration_factor() > 0)
    {
      if (!close_f32(w.get_calibration_factor(), r.get_calibration_factor()))
        strict(ctx, "exam-info:calibration-factor",
               fmt("written %.9g read %.9g ", static_cast<double>(w.get_calibration_factor()), static_cast<double>(r.get_calibration_factor()))
                   + tag.str());
      ctx.count("exam_calibration_compared", 1);
    }
  else if (r.get_calibration_factor() > 0)
    strict(ctx, "exam-info:calibration-factor", fmt("none written, read %.9g ", static_cast<double>(r.get_calibration_factor())) + tag.str());
  ++nf;
  ctx.count("exam_info_fields_compared", nf);
}
static std::vector<std::pair<double, double>>
frames_of(const ExamInfo& e, unsigned max_frames = 1000)
{
  std::vector<std::pair<double, double>> f;
  const TimeFrameDefinitions& t = e.get_time_frame_definitions();
  for (unsigned i = 1; i <= t.get_num_time_frames() && i <= max_frames; ++i)
    f.push_back({ t.get_start_time(i), t.get_duration(i) });
  return f;
}

// ---------------------------------------------------------------------------------------------- output settings
struct Setting
{
  const TypeInfo* t;
  bool little;
  float su;
  std::string mode;
};
static double
max_abs(const std::vector<float>& v)
{
  double m = 0;
  for (float x : v)
    m = std::max(m, static_cast<double>(std::fabs(x)));
  return m;
}
// the scale needed for the (automatic) full-range mapping; > 0 also for empty / zero data
static double
needed_scale(const TypeInfo& t, const std::vector<float>& v)
{
  const double m = max_abs(v);
  if (!t.is_int)
    return m > 0 ? m : 1.;
  return m > 0 ? m / t.tmax * 1.02 : 1.;
}
// user scale for mode "auto" | "too-small" | "larger" | "larger-nice" | "one"
static float
pick_scale(vf::Rng& r, const TypeInfo& t, const std::vector<float>& v, const std::string& mode)
{
  if (mode == "auto")
    return 0.f;
  if (mode == "one")
    return 1.f;
  const double need = needed_scale(t, v);
  if (mode == "too-small")
    {
      const float s = static_cast<float>(need / 1.02 * std::pow(10., -r.uniform(0.5, 4.)));
      return s > 0 ? s : 0.f;
    }
  if (mode == "larger")
    {
      const float s = static_cast<float>(need * std::pow(10., r.uniform(0.05, 2.5)));
      return std::isfinite(s) && s > 0 ? s : static_cast<float>(need);
    }
  // larger-nice
  const float s = nice_float_at_least(r, need * std::pow(10., r.uniform(0.01, 2.)));
  return s;
}
static std::string
pick_mode(vf::Rng& r, const TypeInfo& t, bool allow_auto)
{
  const bool no_auto = !allow_auto;
  const double u = r.u01();
  if (t.id == NumericType::DOUBLE && u >= 0.55 && u < 0.65)
    return "one";
  if (!no_auto && u < 0.45)
    return "auto";
  if (!no_auto && u < 0.55)
    return "too-small";
  return u < 0.8 ? "larger" : "larger-nice";
}

static std::string
base_name(Ctx& ctx, int& counter)
{
  std::string dir = ctx.tmpdir;
  if (dir.empty())
    {
      const char* t = std::getenv("TMPDIR");
      dir = t ? t : ".";
    }
  return dir + "/c10_" + std::to_string(ctx.idx) + "_" + std::to_string(counter++);
}
static void
remove_files(const std::string& base)
{
  if (std::getenv("VERIF_C10_KEEP"))
    return;
  for (const char* e : { ".hv", ".v", ".ahv", ".txt" })
    ::unlink((base + e).c_str());
}
static std::string
what_of()
{
  try
    {
      throw;
    }
  catch (const std::exception& e)
    {
      return e.what();
    }
  catch (const std::string& s)
    {
      return s;
    }
  catch (...)
    {
      return "unknown exception";
    }
}
// Classification of a failed read-back only (defect fixed in convert_range.inl: "find_scale_factor must ignore negative data
// for unsigned output types"): unsigned output of an image without positive values with automatic scaling gave a global
// scale factor <= 0; an x-row whose voxels are all negative then made write_data() fail, but write_basic_interfile ignores
// write_data()'s result.  nx = length of the innermost (x) dimension.
static bool
unsigned_autoscale_write_breaks(const TypeInfo& t, float su, const std::vector<float>& v, int nx)
{
  if (!t.is_int || t.is_signed || su != 0.f || v.empty() || nx <= 0)
    return false;
  for (float x : v)
    if (x > 0)
      return false;
  for (size_t r0 = 0; r0 + nx <= v.size(); r0 += nx)
    {
      bool allneg = true;
      for (int i = 0; i < nx; ++i)
        allneg &= v[r0 + i] < 0;
      if (allneg)
        return true;
    }
  return false;
}

// one single-image round trip with all oracles
static void
roundtrip_single(Ctx& ctx, std::set<std::string>& seen, const Image& im, const std::vector<float>& v, const Setting& s, int& counter,
                 bool check_exam, const std::string& container = "single")
{
  const TypeInfo& t = *s.t;
  Tag tag;
  tag.container = container;
  tag.type = t.name;
  tag.byte_order = s.little ? "little-endian" : "big-endian";
  tag.su = s.su;
  tag.scale_mode = s.mode;
  const std::string base = base_name(ctx, counter);
  std::string fn = base;
  tag.file = base;
  InterfileOutputFileFormat f;
  if (f.set_type_of_numbers(NumericType(t.id)) != NumericType(t.id))
    throw vf::Skip("type not accepted");
  const ByteOrder bo = s.little ? ByteOrder::little_endian : ByteOrder::big_endian;
  if (f.set_byte_order(bo) != bo)
    throw vf::Skip("byte order not accepted");
  f.set_scale_to_write_data(s.su);
  const float S = lib_scale(im, t.id, s.su);
  if (f.write_to_file(fn, im) != Succeeded::yes)
    strict(ctx, "write-to-file-failed:" + std::string(t.name), tag.str());
  ctx.count("images_written", 1);
  ctx.count(std::string("type_") + t.name, 1);
  ctx.count(s.little ? "byte_order_little" : "byte_order_big", 1);
  ctx.count("scale_mode_" + s.mode, 1);
  // fn is now the name "such that the file can be read back using this string" (OutputFileFormat::write_to_file)

  unique_ptr<DiscretisedDensity<3, float>> rd;
  std::string why;
  try
    {
      rd = read_from_file<DiscretisedDensity<3, float>>(fn);
    }
  catch (...)
    {
      why = what_of();
    }
  const bool k4 = unsigned_autoscale_write_breaks(t, s.su, v, im.get_x_size());
  if (!rd)
    {
      const std::string w = fmt("write_to_file reported success but the file cannot be read back (%s); data file has %ld bytes, %zu expected; "
                                "values e.g. %.9g ",
                                why.c_str(), file_size(base + ".v"), v.size() * t.bytes, v.empty() ? 0. : static_cast<double>(v[0]))
                            + tag.str();
      strict(ctx, std::string(k4 ? "read-back-failed:unsigned-output-of-image-without-positive-values:" : "read-back-failed:") + t.name, w);
    }
  const Image* rim = dynamic_cast<const Image*>(rd.get());
  if (!rim)
    strict(ctx, "read-back-not-voxels-on-cartesian-grid", tag.str());

  check_geometry(ctx, im, *rim, tag);

  // independent decoding of header text and data file (diagnostic: stored numbers in the witnesses, order / sign of stored integers)
  const Hdr h = parse_header(fn);
  if (!h.ok)
    throw std::runtime_error("harness: cannot re-open header " + fn);
  std::vector<unsigned char> raw;
  std::vector<double> st;
  if (!slurp(dir_of(fn) + "/" + h.data_file, raw) || !decode_raw(raw, h.get_offset(1), v.size(), t, s.little, st))
    st.clear();
  else
    ctx.count("data_files_decoded_independently", 1);
  std::vector<float> r;
  get_values(*rim, r);
  check_values(ctx, seen, t, v, r, st, S, h.get_scale(1), tag);
  if (check_exam)
    {
      std::vector<std::pair<double, double>> fr = frames_of(im.get_exam_info(), 1);
      check_exam_info(ctx, im.get_exam_info(), rim->get_exam_info(), fr, tag);
    }
  remove_files(base);
}

// ---------------------------------------------------------------------------------------------- cases
static void
case_single(Ctx& ctx)
{
  vf::Rng& rng = ctx.rng;
  const Geo g = gen_geo(rng, 12, 1728);
  ExamSpec ex = gen_exam(rng, -1);
  shared_ptr<Image> im = make_image(g, ex.ei);
  vf::Desc vd;
  const int dist = pick_dist(rng);
  fill_values(*im, rng, dist, vd);
  std::vector<float> v;
  get_values(*im, v);
  ctx.desc.add("kind", "single").add("geometry", g.desc()).add("exam", ex.d).add("data", vd);
  ctx.nontrivial = v.size() >= 2 && non_constant(v);
  ctx.heartbeat("single");
  std::set<std::string> seen;
  int counter = 0;
  ctx.count("single_cases", 1);
  ctx.count(std::string("dist_") + DIST_NAMES[dist], 1);
  if (g.mn[0] != 0 || g.mn[1] != -(g.n[1] / 2) || g.mn[2] != -(g.n[2] / 2))
    ctx.count("geometry_nonstandard_index_range", 1);
  if (g.mn[0] < 0 || g.mn[1] < 0 || g.mn[2] < 0)
    ctx.count("geometry_negative_min_index", 1);

  bool first = true;
  for (int ti = 0; ti < NUM_TYPES; ++ti)
    {
      const TypeInfo& t = TYPES[ti];
      const bool little0 = rng.coin(0.5);
      for (int rep = 0; rep < 2; ++rep)
        {
          Setting s;
          s.t = &t;
          s.little = rep == 0 ? little0 : !little0;
          // automatic scaling (scale_to_write_data = 0, the default) once for every type
          s.mode = rep == 0 ? "auto" : pick_mode(rng, t, true);
          s.su = pick_scale(rng, t, v, s.mode);
          if (s.mode == "auto" && (t.wide || t.id == NumericType::DOUBLE))
            ctx.count(std::string("autoscale_") + t.name, 1);
          roundtrip_single(ctx, seen, *im, v, s, counter, first || rng.coin(0.15));
          first = false;
        }
    }
}

// settings usable for the containers
static Setting
container_setting(vf::Rng& rng, const std::vector<float>& all_values)
{
  Setting s;
  s.t = &TYPES[rng.range(0, NUM_TYPES - 1)];
  s.little = true; // set by the caller
  s.mode = pick_mode(rng, *s.t, true);
  s.su = pick_scale(rng, *s.t, all_values, s.mode);
  return s;
}
static bool
native_is_little()
{
  return ByteOrder(ByteOrder::little_endian).is_native_order();
}
// text for OutputFileFormat::parse() of the Multi formats
static std::string
multi_par_text(const Setting& s)
{
  std::ostringstream o;
  o << "Multi Output File Format Parameters:=\n"
    << "individual output file format type := Interfile\n"
    << "Interfile Output File Format Parameters:=\n"
    << "number format := " << (s.t->is_int ? (s.t->is_signed ? "signed integer" : "unsigned integer") : "float") << "\n"
    << "number_of_bytes_per_pixel := " << s.t->bytes << "\n"
    << "byte order := " << (s.little ? "LITTLEENDIAN" : "BIGENDIAN") << "\n"
    << "scale_to_write_data := " << std::setprecision(9) << s.su << "\n"
    << "End Interfile Output File Format Parameters:=\n"
    << "End Multi Output File Format Parameters:=\n";
  return o.str();
}

// compare one part (frame / parameter image) of a container.  nm_single_file: Interfile container (one data file with
// offsets) of modality NM, for which the reader does not register the "data offset in bytes" key
static void
check_part(Ctx& ctx, std::set<std::string>& seen, const Image& o, const Image& r, const Setting& s, const std::string& hv, int hdr_index,
           Tag tag, int part, bool nm_single_file)
{
  tag.part = part;
  check_geometry(ctx, o, r, tag);
  std::vector<float> v, rv;
  get_values(o, v);
  get_values(r, rv);
  const Hdr h = parse_header(hv);
  if (!h.ok)
    throw std::runtime_error("harness: cannot re-open header " + hv);
  std::vector<unsigned char> raw;
  std::vector<double> st;
  if (!slurp(dir_of(hv) + "/" + h.data_file, raw) || !decode_raw(raw, h.get_offset(hdr_index), v.size(), *s.t, s.little, st))
    st.clear();
  else
    ctx.count("data_files_decoded_independently", 1);
  if (nm_single_file && hdr_index >= 2 && rv.size() == v.size() && st.size() == v.size())
    {
      // does the read-back part consist of the numbers stored at offset 0 (times this part's scale factor)?
      std::vector<double> st0;
      if (decode_raw(raw, 0, v.size(), *s.t, s.little, st0))
        {
          const float sc = static_cast<float>(h.get_scale(hdr_index));
          bool same_as_first = true, first_differs = false;
          for (size_t k = 0; k < v.size(); ++k)
            {
              float x = static_cast<float>(st0[k]);
              if (sc != 1.f)
                x *= sc;
              same_as_first &= (x == rv[k]);
              first_differs |= st0[k] != st[k];
            }
          if (same_as_first && first_differs)
            {
              size_t kk = 0;
              for (size_t k = 0; k < v.size(); ++k)
                if (st0[k] != st[k])
                  {
                    kk = k;
                    break;
                  }
              defect(ctx, seen, "interfile-multi-dataset-NM-modality:data-offsets-ignored-on-read",
                     fmt("part %d is stored at byte offset %lu (header key 'data offset in bytes[%d]') but the image read back holds the numbers "
                         "stored at offset 0: voxel %zu written %.9g, stored %.17g at its offset, read back %.9g = (number at offset 0) %.17g x "
                         "scale %.9g; modality NM => '!type of data := Tomographic', for which InterfileHeader::set_type_of_data does not "
                         "register the offset key ",
                         part, h.get_offset(hdr_index), hdr_index, kk, static_cast<double>(v[kk]), st[kk], static_cast<double>(rv[kk]), st0[kk],
                         static_cast<double>(sc))
                         + tag.str());
              return;
            }
        }
    }
  const float S = lib_scale(o, s.t->id, s.su);
  check_values(ctx, seen, *s.t, v, rv, st, S, h.get_scale(hdr_index), tag);
}

static void
case_dynamic(Ctx& ctx, bool multi)
{
  vf::Rng& rng = ctx.rng;
  const Geo g = gen_geo(rng, 10, 600);
  const int F = static_cast<int>(rng.range(1, 4));
  ExamSpec ex = gen_exam(rng, F);
  const TimeFrameDefinitions tdefs = ex.ei->get_time_frame_definitions();
  const double t0 = ex.ei->start_time_in_secs_since_1970;
  shared_ptr<Image> templ = make_image(g, ex.ei);
  shared_ptr<Scanner> scanner(new Scanner(rng.coin(0.5) ? Scanner::Advance : Scanner::E931));
  ctx.desc.add("kind", multi ? "dynamic-multi" : "dynamic-interfile").add("frames", F).add("geometry", g.desc()).add("exam", ex.d);
  ctx.heartbeat("dynamic");
  DynamicDiscretisedDensity dyn(tdefs, t0, scanner, templ);
  std::vector<shared_ptr<Image>> frames;
  std::vector<float> all;
  bool nontriv = false;
  std::vector<std::vector<float>> fv(F);
  vf::Desc dd;
  for (int f = 1; f <= F; ++f)
    {
      ExamInfo ei(*ex.ei);
      ei.set_time_frame_definitions(TimeFrameDefinitions(tdefs, f));
      shared_ptr<Image> im(new Image(shared_ptr<const ExamInfo>(new ExamInfo(ei)), templ->get_index_range(), templ->get_origin(),
                                     templ->get_grid_spacing()));
      vf::Desc vd;
      fill_values(*im, rng, pick_dist(rng), vd);
      dd.add("frame" + std::to_string(f), vd);
      dyn.set_density(*im, f);
      frames.push_back(im);
      get_values(*im, fv[f - 1]);
      all.insert(all.end(), fv[f - 1].begin(), fv[f - 1].end());
      nontriv |= fv[f - 1].size() >= 2 && non_constant(fv[f - 1]);
    }
  ctx.desc.add("data", dd);
  ctx.nontrivial = nontriv;
  Setting s = container_setting(rng, all);
  s.little = native_is_little();
  std::set<std::string> seen;
  int counter = 0;
  const std::string base = base_name(ctx, counter);
  std::string fn = base;
  Tag tag;
  tag.container = multi ? "dynamic-multi" : "dynamic-interfile";
  tag.file = base;
  bool default_individual = false;
  if (!multi)
    {
      InterfileDynamicDiscretisedDensityOutputFileFormat f;
      f.set_type_of_numbers(NumericType(s.t->id));
      // the format documents that it only writes native byte order: ask for the other one in half the cases
      const bool ask_other = rng.coin(0.5);
      const ByteOrder asked = (native_is_little() != ask_other) ? ByteOrder::little_endian : ByteOrder::big_endian;
      const ByteOrder got = f.set_byte_order(asked); // "returns type actually used"
      s.little = got.is_native_order() == native_is_little();
      ctx.count(got.is_native_order() ? "container_byte_order_native" : "container_byte_order_swapped", 1);
      f.set_scale_to_write_data(s.su);
      tag.type = s.t->name;
      tag.byte_order = s.little ? "little-endian" : "big-endian";
      tag.su = s.su;
      tag.scale_mode = s.mode;
      ctx.desc.add("type", s.t->name).add("scale_mode", s.mode).add("scale_to_write_data", s.su);
      if (f.write_to_file(fn, dyn) != Succeeded::yes)
        strict(ctx, "write-to-file-failed:dynamic-interfile", tag.str());
    }
  else
    {
      MultiDynamicDiscretisedDensityOutputFileFormat f;
      default_individual = rng.coin(0.4);
      if (default_individual)
        {
          s.t = &type_info(NumericType::FLOAT);
          s.su = 0.f;
          s.mode = "auto";
          s.little = native_is_little();
        }
      else
        {
          s.little = rng.coin(0.5);
          std::istringstream par(multi_par_text(s));
          if (!f.parse(par))
            throw vf::Skip("Multi output format parameters rejected");
        }
      tag.type = s.t->name;
      tag.byte_order = s.little ? "little-endian" : "big-endian";
      tag.su = s.su;
      tag.scale_mode = s.mode;
      ctx.desc.add("type", s.t->name).add("scale_mode", s.mode).add("scale_to_write_data", s.su).add("default_individual_format",
                                                                                                    default_individual);
      if (f.write_to_file(fn, dyn) != Succeeded::yes)
        strict(ctx, "write-to-file-failed:dynamic-multi", tag.str());
    }
  ctx.count("images_written", F);
  ctx.count(multi ? "dynamic_multi_cases" : "dynamic_interfile_cases", 1);
  ctx.count("dynamic_cases", 1);
  ctx.count(std::string("type_") + s.t->name, F);
  ctx.count("scale_mode_" + s.mode, F);
  ctx.count(s.little ? "byte_order_little" : "byte_order_big", F);

  unique_ptr<DynamicDiscretisedDensity> rd;
  std::string why;
  try
    {
      rd = read_from_file<DynamicDiscretisedDensity>(fn);
    }
  catch (...)
    {
      why = what_of();
    }
  auto cleanup = [&]() {
    remove_files(base);
    for (int f = 1; f <= F; ++f)
      remove_files(base + "_" + std::to_string(f));
  };
  if (!rd)
    {
      const std::string w = "write_to_file reported success but reading back fails (" + why + ") " + tag.str();
      bool k4 = false;
      for (int f = 0; f < F; ++f)
        k4 |= unsigned_autoscale_write_breaks(*s.t, s.su, fv[f], g.n[2]);
      cleanup();
      strict(ctx, std::string(k4 ? "read-back-failed:unsigned-output-of-image-without-positive-values:" : "read-back-failed:") + tag.container, w);
    }
  if (rd->get_num_time_frames() != static_cast<unsigned>(F) || rd->get_densities().size() != static_cast<size_t>(F))
    strict(ctx, "dynamic:number-of-frames",
           fmt("%d written, %u frame definitions / %zu densities read ", F, rd->get_num_time_frames(), rd->get_densities().size()) + tag.str());
  for (int f = 1; f <= F; ++f)
    {
      const Image* rim = dynamic_cast<const Image*>(&rd->get_density(f));
      if (!rim)
        strict(ctx, "read-back-not-voxels-on-cartesian-grid", tag.str());
      const std::string hv = multi ? base + "_" + std::to_string(f) + ".hv" : base + ".hv";
      check_part(ctx, seen, *frames[f - 1], *rim, s, hv, multi ? 1 : f, tag, f,
                 !multi && ex.ei->imaging_modality.get_modality() == ImagingModality::NM);
      // the frame's own time frame
      Tag ft = tag;
      ft.part = f;
      std::vector<std::pair<double, double>> one{ { tdefs.get_start_time(f), tdefs.get_duration(f) } };
      const TimeFrameDefinitions& rtf = rim->get_exam_info().get_time_frame_definitions();
      if (rtf.get_num_time_frames() != 1 || !(std::fabs(one[0].first - rtf.get_start_time(1)) <= 2.3e-16 * std::fabs(one[0].first))
          || !(std::fabs(one[0].second - rtf.get_duration(1)) <= 8 * 2.3e-16 * (std::fabs(rtf.get_start_time(1)) + rtf.get_duration(1))))
        strict(ctx, "dynamic:frame-time-of-density",
               fmt("frame %d: written start %.12g duration %.12g; density read back has %u frames, start %.12g duration %.12g ", f, one[0].first,
                   one[0].second, rtf.get_num_time_frames(), rtf.get_num_time_frames() ? rtf.get_start_time(1) : 0.,
                   rtf.get_num_time_frames() ? rtf.get_duration(1) : 0.)
                   + ft.str());
      ctx.count("exam_info_fields_compared", 2);
    }
  check_exam_info(ctx, dyn.get_exam_info(), rd->get_exam_info(), frames_of(dyn.get_exam_info()), tag);
  cleanup();
}

static void
case_parametric(Ctx& ctx, bool multi)
{
  vf::Rng& rng = ctx.rng;
  const Geo g = gen_geo(rng, 10, 600);
  // Exactly one time frame: Multi writes each parameter as a single image, whose reader documents that only the first time
  // frame is kept; InterfileImageHeader documents "currently, this is only implemented for either multiple time frames OR
  // multiple data types" (a parametric image has 2 data types)
  const int F = 1;
  ExamSpec ex = gen_exam(rng, F);
  shared_ptr<Image> p1 = make_image(g, ex.ei), p2 = make_image(g, ex.ei);
  vf::Desc d1, d2;
  fill_values(*p1, rng, pick_dist(rng), d1);
  fill_values(*p2, rng, pick_dist(rng), d2);
  vf::Desc dd;
  dd.add("param1", d1).add("param2", d2);
  ctx.desc.add("kind", multi ? "parametric-multi" : "parametric-interfile").add("time_frames", F).add("geometry", g.desc()).add("exam", ex.d).add(
      "data", dd);
  ctx.heartbeat("parametric");
  ParametricVoxelsOnCartesianGrid par(*p1);
  par.update_parametric_image(*p1, 1);
  par.update_parametric_image(*p2, 2);
  std::vector<float> v1, v2, all;
  get_values(*p1, v1);
  get_values(*p2, v2);
  all = v1;
  all.insert(all.end(), v2.begin(), v2.end());
  ctx.nontrivial = v1.size() >= 2 && (non_constant(v1) || non_constant(v2));
  Setting s = container_setting(rng, all);
  s.little = native_is_little();
  std::set<std::string> seen;
  int counter = 0;
  const std::string base = base_name(ctx, counter);
  std::string fn = base;
  Tag tag;
  tag.container = multi ? "parametric-multi" : "parametric-interfile";
  tag.file = base;
  if (!multi)
    {
      IParamFmt f;
      f.set_type_of_numbers(NumericType(s.t->id));
      const bool ask_other = rng.coin(0.5);
      const ByteOrder asked = (native_is_little() != ask_other) ? ByteOrder::little_endian : ByteOrder::big_endian;
      const ByteOrder got = f.set_byte_order(asked); // "returns type actually used"
      s.little = got.is_native_order() == native_is_little();
      ctx.count(got.is_native_order() ? "container_byte_order_native" : "container_byte_order_swapped", 1);
      f.set_scale_to_write_data(s.su);
    tag.type = s.t->name;
      tag.byte_order = s.little ? "little-endian" : "big-endian";
      tag.su = s.su;
      tag.scale_mode = s.mode;
      ctx.desc.add("type", s.t->name).add("scale_mode", s.mode).add("scale_to_write_data", s.su);
      if (f.write_to_file(fn, par) != Succeeded::yes)
        strict(ctx, "write-to-file-failed:parametric-interfile", tag.str());
    }
  else
    {
      MParamFmt f;
      const bool default_individual = rng.coin(0.4);
      if (default_individual)
        {
          s.t = &type_info(NumericType::FLOAT);
          s.su = 0.f;
          s.mode = "auto";
          s.little = native_is_little();
        }
      else
        {
          s.little = rng.coin(0.5);
          std::istringstream par_text(multi_par_text(s));
          if (!f.parse(par_text))
            throw vf::Skip("Multi output format parameters rejected");
        }
      tag.type = s.t->name;
      tag.byte_order = s.little ? "little-endian" : "big-endian";
      tag.su = s.su;
      tag.scale_mode = s.mode;
      ctx.desc.add("type", s.t->name).add("scale_mode", s.mode).add("scale_to_write_data", s.su).add("default_individual_format",
                                                                                                    default_individual);
      if (f.write_to_file(fn, par) != Succeeded::yes)
        strict(ctx, "write-to-file-failed:parametric-multi", tag.str());
    }
  ctx.count("images_written", 2);
  ctx.count(multi ? "parametric_multi_cases" : "parametric_interfile_cases", 1);
  ctx.count("parametric_cases", 1);
  ctx.count(std::string("type_") + s.t->name, 2);
  ctx.count("scale_mode_" + s.mode, 2);
  ctx.count(s.little ? "byte_order_little" : "byte_order_big", 2);
  unique_ptr<ParametricVoxelsOnCartesianGrid> rd;
  std::string why;
  try
    {
      rd = read_from_file<ParametricVoxelsOnCartesianGrid>(fn);
    }
  catch (...)
    {
      why = what_of();
    }
  auto cleanup = [&]() {
    remove_files(base);
    for (int f = 1; f <= 2; ++f)
      remove_files(base + "_" + std::to_string(f));
  };
  if (!rd)
    {
      const std::string w = "write_to_file reported success but reading back fails (" + why + ") " + tag.str();
      const bool k4 = unsigned_autoscale_write_breaks(*s.t, s.su, v1, g.n[2]) || unsigned_autoscale_write_breaks(*s.t, s.su, v2, g.n[2]);
      cleanup();
      strict(ctx, std::string(k4 ? "read-back-failed:unsigned-output-of-image-without-positive-values:" : "read-back-failed:") + tag.container, w);
    }
  if (rd->get_num_params() != 2)
    strict(ctx, "parametric:number-of-parameters", tag.str());
  for (int p = 1; p <= 2; ++p)
    {
      const Image rim = rd->construct_single_density(p);
      const std::string hv = multi ? base + "_" + std::to_string(p) + ".hv" : base + ".hv";
      check_part(ctx, seen, p == 1 ? *p1 : *p2, rim, s, hv, multi ? 1 : p, tag, p,
                 !multi && ex.ei->imaging_modality.get_modality() == ImagingModality::NM);
    }
  check_exam_info(ctx, par.get_exam_info(), rd->get_exam_info(), frames_of(par.get_exam_info()), tag);
  cleanup();
}

// truncation sweep: a data file shorter than the header announces must never give an image
static void
case_truncation(Ctx& ctx)
{
  vf::Rng& rng = ctx.rng;
  const bool dynamic = rng.coin(0.25);
  const Geo g = gen_geo(rng, 6, dynamic ? 24 : 64);
  const int F = dynamic ? static_cast<int>(rng.range(2, 3)) : 1;
  ExamSpec ex = gen_exam(rng, F);
  if (dynamic && ex.ei->imaging_modality.get_modality() == ImagingModality::NM)
    {
      // NM multi-dataset files are read from offset 0 for every frame (separately reported defect); keep this clause about truncation
      ex.ei->imaging_modality = ImagingModality(ImagingModality::PT);
      ex.ei->set_radionuclide(Radionuclide());
      ex.d.add("modality_changed_to", "PT");
    }
  static const NumericType::Type TT[] = { NumericType::SCHAR, NumericType::UCHAR, NumericType::SHORT, NumericType::USHORT,
                                          NumericType::INT,   NumericType::FLOAT, NumericType::FLOAT, NumericType::SHORT };
  const TypeInfo& t = type_info(TT[rng.range(0, 7)]);
  const bool little = dynamic ? native_is_little() : rng.coin(0.5);
  ctx.desc.add("kind", dynamic ? "truncation-dynamic" : "truncation-single").add("geometry", g.desc()).add("type", t.name).add("frames", F);
  int counter = 0;
  const std::string base = base_name(ctx, counter);
  std::string fn = base;
  Tag tag;
  tag.container = dynamic ? "dynamic-interfile" : "single";
  tag.type = t.name;
  tag.byte_order = little ? "little-endian" : "big-endian";
  tag.scale_mode = "auto";
  tag.file = base;
  shared_ptr<Image> im = make_image(g, ex.ei);
  vf::Desc vd;
  const int dist = static_cast<int>(rng.range(0, 3)); // positive / mixed / huge / tiny
  ctx.heartbeat("truncation");
  std::function<bool()> read_ok;
  if (!dynamic)
    {
      fill_values(*im, rng, dist, vd);
      InterfileOutputFileFormat f;
      f.set_type_of_numbers(NumericType(t.id));
      f.set_byte_order(little ? ByteOrder::little_endian : ByteOrder::big_endian);
      if (f.write_to_file(fn, *im) != Succeeded::yes)
        strict(ctx, "write-to-file-failed:" + std::string(t.name), tag.str());
      read_ok = [&]() {
        unique_ptr<DiscretisedDensity<3, float>> rd = read_from_file<DiscretisedDensity<3, float>>(fn);
        return static_cast<bool>(rd);
      };
    }
  else
    {
      const TimeFrameDefinitions tdefs = ex.ei->get_time_frame_definitions();
      shared_ptr<Scanner> scanner(new Scanner(Scanner::E931));
      DynamicDiscretisedDensity dyn(tdefs, ex.ei->start_time_in_secs_since_1970, scanner, im);
      for (int f = 1; f <= F; ++f)
        {
          ExamInfo ei(*ex.ei);
          ei.set_time_frame_definitions(TimeFrameDefinitions(tdefs, f));
          Image fr(shared_ptr<const ExamInfo>(new ExamInfo(ei)), im->get_index_range(), im->get_origin(), im->get_grid_spacing());
          vf::Desc d;
          fill_values(fr, rng, dist, d);
          dyn.set_density(fr, f);
        }
      InterfileDynamicDiscretisedDensityOutputFileFormat f;
      f.set_type_of_numbers(NumericType(t.id));
      if (f.write_to_file(fn, dyn) != Succeeded::yes)
        strict(ctx, "write-to-file-failed:dynamic-interfile", tag.str());
      read_ok = [&]() {
        unique_ptr<DynamicDiscretisedDensity> rd = read_from_file<DynamicDiscretisedDensity>(fn);
        return static_cast<bool>(rd);
      };
    }
  ctx.count("images_written", F);
  ctx.count("truncation_cases", 1);
  const std::string data = base + ".v";
  const long full = file_size(data);
  const long expected = g.voxels() * t.bytes * F;
  if (full != expected)
    strict(ctx, "data-file-size-unexpected:" + std::string(t.name), fmt("%ld bytes on disk, %ld expected ", full, expected) + tag.str());
  // the complete file must read
  try
    {
      if (!read_ok())
        strict(ctx, "read-back-failed:" + std::string(t.name), "null for the complete file " + tag.str());
    }
  catch (const EndCase&)
    {
      throw;
    }
  catch (...)
    {
      strict(ctx, "read-back-failed:" + std::string(t.name), what_of() + " " + tag.str());
    }
  // lengths: all of them for small files, else the ends, element boundaries +-1 and a random sample
  std::vector<long> lens;
  if (full <= 160 || (ctx.thorough() && full <= 400))
    for (long L = full - 1; L >= 0; --L)
      lens.push_back(L);
  else
    {
      std::set<long> S{ 0, 1, full - 1, full - 2, full - t.bytes, full - t.bytes - 1, full / 2, full / F, full / F - 1, full / F + 1 };
      while (static_cast<long>(S.size()) < 48)
        S.insert(rng.range(0, full - 1));
      for (auto it = S.rbegin(); it != S.rend(); ++it)
        if (*it >= 0 && *it < full)
          lens.push_back(*it);
    }
  ctx.nontrivial = lens.size() >= 2;
  for (long L : lens)
    {
      if (::truncate(data.c_str(), L) != 0)
        throw std::runtime_error("harness: truncate failed");
      bool got = false;
      try
        {
          got = read_ok();
        }
      catch (...)
        {
          got = false;
        }
      ctx.count("truncation_lengths_tested", 1);
      if (got)
        strict(ctx, "truncated-data-file-returned-image:" + tag.container,
               fmt("data file truncated to %ld of %ld bytes (%d-byte elements, %d frame(s)) but read_from_file returned an image ", L, full,
                   t.bytes, F)
                   + tag.str());
      ctx.count("truncations_rejected", 1);
    }
  // a missing data file is the limit case
  ::unlink(data.c_str());
  bool got = false;
  try
    {
      got = read_ok();
    }
  catch (...)
    {
      got = false;
    }
  ctx.count("truncation_lengths_tested", 1);
  if (got)
    strict(ctx, "missing-data-file-returned-image:" + tag.container, tag.str());
  ctx.count("truncations_rejected", 1);
  remove_files(base);
}

static void
run_case(Ctx& ctx)
{
  const int k = static_cast<int>(ctx.idx % 20);
  try
    {
      if (k == 12)
        case_dynamic(ctx, false);
      else if (k == 13)
        case_dynamic(ctx, true);
      else if (k == 14)
        case_parametric(ctx, false);
      else if (k == 15)
        case_parametric(ctx, true);
      else if (k == 16 || k == 17)
        case_truncation(ctx);
      else
        case_single(ctx);
    }
  catch (const EndCase&)
    {}
}

int
main(int argc, char** argv)
{
  vg::quiet();
  return vf::verif_main(argc, argv, "C10", run_case);
}
