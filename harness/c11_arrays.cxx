// C11: offset vectors / arrays behave as index-range maps under any history and stay in bounds.
// History + executable reference model (DESIGN.md §6 C11).  Bounds are watched by ASan and by
// STIR's own assert()/check_state in the asan flavour, uninitialised reads by memcheck (rel).
//
// A "case" is a block of operation sequences: either a slice of the bounded-exhaustive
// enumeration (all sequences up to length L over the alphabet) or one long random history.
#include "common/verif.h"
#include "stir/VectorWithOffset.h"
#include "stir/NumericVectorWithOffset.h"
#include "stir/Array.h"
#include "stir/IndexRange.h"
#include "stir/BasicCoordinate.h"
#include "stir/shared_ptr.h"
#include "stir/TextWriter.h"
#include <optional>
#include <memory>

using namespace stir;
using vf::Ctx;

static const float UNDEF = -12345.678f; // marker inside the model only

// ------------------------------------------------------------------ 1-D model
struct M1
{
  int min = 0;
  std::vector<float> v;
  std::vector<char> def; // 1 = value is defined
  bool empty() const { return v.empty(); }
  int max() const { return min + static_cast<int>(v.size()) - 1; }
  bool all_defined() const
  {
    for (char c : def)
      if (!c)
        return false;
    return true;
  }
  void make(int mn, int mx, bool zero)
  {
    v.clear();
    def.clear();
    if (mx < mn)
      {
        min = 0;
        return;
      }
    min = mn;
    v.assign(static_cast<size_t>(mx - mn + 1), zero ? 0.f : UNDEF);
    def.assign(v.size(), zero ? 1 : 0);
  }
  // resize semantics: survivors keep values; new ones zero (numeric Array) or undefined
  void resize(int mn, int mx, bool zero_new)
  {
    if (mx < mn)
      {
        v.clear();
        def.clear();
        min = 0;
        return;
      }
    M1 n;
    n.make(mn, mx, zero_new);
    if (!empty())
      for (int i = std::max(mn, min); i <= std::min(mx, max()); ++i)
        {
          n.v[static_cast<size_t>(i - mn)] = v[static_cast<size_t>(i - min)];
          n.def[static_cast<size_t>(i - mn)] = def[static_cast<size_t>(i - min)];
        }
    *this = n;
  }
  bool operator==(const M1& o) const
  {
    if (empty() && o.empty())
      return true;
    return min == o.min && v == o.v;
  }
};

enum Kind
{
  K_VWO = 0,  // VectorWithOffset<float>
  K_NUM = 1,  // NumericVectorWithOffset<float,float>
  K_ARR1 = 2, // Array<1,float>
  K_ARR1_VIEW = 3
};

template <class V>
struct Traits;
template <>
struct Traits<VectorWithOffset<float>>
{
  static const Kind kind = K_VWO;
  static const bool numeric = false;
  static const bool zero_new = false;
  static const char* name() { return "VectorWithOffset<float>"; }
};
template <>
struct Traits<NumericVectorWithOffset<float, float>>
{
  static const Kind kind = K_NUM;
  static const bool numeric = true;
  static const bool zero_new = false;
  static const char* name() { return "NumericVectorWithOffset<float,float>"; }
};
template <>
struct Traits<Array<1, float>>
{
  static const Kind kind = K_ARR1;
  static const bool numeric = true;
  static const bool zero_new = true;
  static const char* name() { return "Array<1,float>"; }
};

struct Fail
{
  std::string key, what;
};

// compare a 1-D STIR object with its model; returns failure description or empty
template <class V>
static std::optional<Fail>
compare1(const V& a, const M1& m, const char* which)
{
  const std::string pre = std::string(Traits<V>::name()) + ":";
  if (a.size() != m.v.size() || static_cast<size_t>(a.get_length()) != m.v.size() || a.empty() != m.empty())
    return Fail{ pre + "size", vf::fmt("%s: size %zu model %zu", which, a.size(), m.v.size()) };
  if (!m.empty())
    {
      if (a.get_min_index() != m.min || a.get_max_index() != m.max())
        return Fail{ pre + "index-range",
                     vf::fmt("%s: range [%d,%d] model [%d,%d]", which, a.get_min_index(), a.get_max_index(), m.min, m.max()) };
      // iteration visits each element exactly once in order
      int i = m.min;
      for (auto it = a.begin(); it != a.end(); ++it, ++i)
        {
          if (i > m.max())
            return Fail{ pre + "iteration-overrun", which };
          if (&*it != &a[i])
            return Fail{ pre + "iteration-order", vf::fmt("%s: iterator element %d is not operator[](%d)", which, i, i) };
          if (m.def[static_cast<size_t>(i - m.min)] && !(*it == m.v[static_cast<size_t>(i - m.min)]))
            return Fail{ pre + "value",
                         vf::fmt("%s: [%d] = %g model %g", which, i, static_cast<double>(*it),
                                 static_cast<double>(m.v[static_cast<size_t>(i - m.min)])) };
        }
      if (i != m.max() + 1)
        return Fail{ pre + "iteration-count", which };
      // capacity contains the range
      if (a.capacity() < a.size() || a.get_capacity_min_index() > a.get_min_index() || a.get_capacity_max_index() < a.get_max_index())
        return Fail{ pre + "capacity", which };
      // at() agrees with operator[] inside, throws outside
      if (&a.at(m.min) != &a[m.min] || &a.at(m.max()) != &a[m.max()])
        return Fail{ pre + "at-inside", which };
    }
  else
    {
      if (a.begin() != a.end())
        return Fail{ pre + "empty-iteration", which };
    }
  for (int out : { (m.empty() ? 0 : m.min - 1), (m.empty() ? -1 : m.max() + 1), (m.empty() ? 1 : m.min - 7) })
    {
      bool threw = false;
      try
        {
          (void)a.at(out);
        }
      catch (const std::out_of_range&)
        {
          threw = true;
        }
      if (!threw)
        return Fail{ pre + "at-outside-not-reported", vf::fmt("%s: at(%d) outside [%d,%d] did not throw", which, out, m.min, m.max()) };
    }
  return std::nullopt;
}

// ------------------------------------------------------------------ 1-D state machine
static const int RANGES[][2] = { { 0, 2 }, { -2, 1 }, { 1, 4 }, { 3, 2 } /*empty*/, { -1, 0 }, { 2, 2 } };
static const int NR = 6;

struct Op
{
  int code; // see apply1
  int p;    // parameter index
};

// alphabet of the bounded-exhaustive enumeration (code, param)
static std::vector<Op>
alphabet1(bool numeric)
{
  std::vector<Op> a;
  for (int r = 0; r < NR; ++r)
    a.push_back({ 0, r }); // A = fresh(range r), filled with unique values
  for (int r = 0; r < NR; ++r)
    a.push_back({ 1, r }); // A.resize(range r)
  for (int r = 0; r < NR; ++r)
    a.push_back({ 2, r }); // B = fresh(range r), filled with unique values
  a.push_back({ 3, 0 });  // A.grow(hull(A,(-3,3)))
  a.push_back({ 3, 1 });  // A.grow(hull(A,(0,5)))
  a.push_back({ 4, 0 });  // A.reserve(-4,6)
  a.push_back({ 4, 1 });  // A.reserve(2u)
  a.push_back({ 5, 0 });  // A.recycle()
  a.push_back({ 6, 0 });  // A.set_offset(-3)
  a.push_back({ 6, 1 });  // A.set_min_index(2)
  a.push_back({ 7, 0 });  // A.fill(unique)
  a.push_back({ 8, 0 });  // A[min] = unique ; A[max] = unique
  a.push_back({ 9, 0 });  // B = copy-constructed from A
  a.push_back({ 10, 0 }); // A = B
  a.push_back({ 11, 0 }); // swap(A,B)
  a.push_back({ 12, 0 }); // A = V(std::move(B)) (move construct)
  a.push_back({ 13, 0 }); // A.resize(unsigned 3)
  a.push_back({ 13, 1 }); // A.resize(unsigned 0)
  a.push_back({ 14, 0 }); // A += B
  a.push_back({ 14, 1 }); // A -= B
  a.push_back({ 14, 2 }); // A *= B
  a.push_back({ 14, 3 }); // A /= B
  a.push_back({ 15, 0 }); // C = A + B (binary), result checked
  if (numeric)
    {
      a.push_back({ 16, 0 }); // A += 2 ; A *= 2
      a.push_back({ 17, 0 }); // A.xapyb(A, 2, B, 3)
    }
  a.push_back({ 18, 0 }); // data pointer round trip
  a.push_back({ 19, 0 }); // thresholds
  return a;
}

template <class V>
struct Machine1
{
  V A, B;
  M1 mA, mB;
  float counter = 1;
  Ctx& ctx;
  std::string trace;
  explicit Machine1(Ctx& c)
      : ctx(c)
  {}
  float uniq() { return counter += 1; }

  static V fresh(int mn, int mx) { return V(mn, mx); }

  void fill_unique(V& a, M1& m)
  {
    if (m.empty())
      return;
    for (int i = m.min; i <= m.max(); ++i)
      {
        float u = uniq();
        a[i] = u;
        m.v[static_cast<size_t>(i - m.min)] = u;
        m.def[static_cast<size_t>(i - m.min)] = 1;
      }
  }

  // returns failure if the step reveals a violation
  std::optional<Fail> apply(const Op& op)
  {
    typedef Traits<V> Tr;
    const std::string pre = std::string(Tr::name()) + ":";
    trace += vf::fmt("%d.%d ", op.code, op.p);
    switch (op.code)
      {
      case 0: {
        const int* r = RANGES[op.p];
        A = fresh(r[0], r[1]);
        mA.make(r[0], r[1], Tr::zero_new);
        if (Tr::zero_new)
          if (auto f = compare1(A, mA, "A after construction (zero)"))
            return f;
        fill_unique(A, mA);
        break;
      }
      case 1: {
        const int* r = RANGES[op.p];
        A.resize(r[0], r[1]);
        mA.resize(r[0], r[1], Tr::zero_new);
        break;
      }
      case 2: {
        const int* r = RANGES[op.p];
        B = fresh(r[0], r[1]);
        mB.make(r[0], r[1], Tr::zero_new);
        fill_unique(B, mB);
        break;
      }
      case 3: {
        int mn = op.p == 0 ? -3 : 0, mx = op.p == 0 ? 3 : 5;
        if (!mA.empty())
          {
            mn = std::min(mn, mA.min);
            mx = std::max(mx, mA.max());
          }
        A.grow(mn, mx);
        mA.resize(mn, mx, Tr::zero_new);
        break;
      }
      case 4:
        if (op.p == 0)
          A.reserve(-4, 6);
        else
          A.reserve(2u);
        break; // no visible change
      case 5:
        A.recycle();
        mA.make(0, -1, false);
        break;
      case 6: {
        const int o = op.p == 0 ? -3 : 2;
        if (op.p == 0)
          A.set_offset(o);
        else
          A.set_min_index(o);
        if (!mA.empty())
          mA.min = o;
        break;
      }
      case 7: {
        float u = uniq();
        A.fill(u);
        std::fill(mA.v.begin(), mA.v.end(), u);
        std::fill(mA.def.begin(), mA.def.end(), 1);
        break;
      }
      case 8:
        if (!mA.empty())
          {
            float u = uniq();
            A[mA.min] = u;
            mA.v.front() = u;
            mA.def.front() = 1;
            u = uniq();
            A.at(mA.max()) = u;
            mA.v.back() = u;
            mA.def.back() = 1;
          }
        break;
      case 9: {
        V tmp(A);
        if (auto f = compare1(tmp, mA, "copy of A"))
          return f;
        B = tmp;
        mB = mA;
        break;
      }
      case 10:
        A = B;
        mA = mB;
        break;
      case 11: {
        using std::swap;
        swap(A, B);
        std::swap(mA, mB);
        break;
      }
      case 12: {
        V tmp(std::move(B));
        if (auto f = compare1(tmp, mB, "move-constructed from B"))
          return f;
        A = tmp;
        mA = mB;
        B = V();
        mB.make(0, -1, false);
        break;
      }
      case 13:
        if (op.p == 0)
          {
            A.resize(3u);
            mA.resize(0, 2, Tr::zero_new);
          }
        else
          {
            A.resize(0u);
            mA.resize(0, -1, Tr::zero_new);
          }
        break;
      case 14:
      case 15: {
        // element-wise arithmetic with B
        const int which = op.code == 15 ? 0 : op.p;
        // numeric classes: "A op= empty" is not pinned down by the documentation (an empty vector reports range (0,-1)) -> not exercised
        if (Tr::numeric && mB.empty() && !mA.empty())
          break;
        M1 expect = mA;
        bool expect_error = false;
        if (Tr::numeric)
          {
            // documented: grows to the hull, new elements initialised with T() first; empty *this: copy (-: negated, * and /: zero)
            if (mA.empty())
              {
                expect = mB;
                for (size_t i = 0; i < expect.v.size(); ++i)
                  if (expect.def[i])
                    expect.v[i] = which == 0 ? expect.v[i] : which == 1 ? -expect.v[i] : 0.f;
              }
            else if (!mB.empty())
              {
                expect.resize(std::min(mA.min, mB.min), std::max(mA.max(), mB.max()), /*zero_new (doc: T())*/ true);
              }
          }
        else
          {
            // base class: operands with incompatible ranges must be reported as an error
            expect_error = !(mA.empty() && mB.empty()) && (mA.empty() || mB.empty() || mA.min != mB.min || mA.max() != mB.max());
          }
        if (!expect_error && !mB.empty() && !(Tr::numeric && mA.empty()))
          for (int i = mB.min; i <= mB.max(); ++i)
            {
              const size_t ie = static_cast<size_t>(i - expect.min), ib = static_cast<size_t>(i - mB.min);
              if (!expect.def[ie] || !mB.def[ib])
                {
                  expect.def[ie] = 0;
                  continue;
                }
              float& e = expect.v[ie];
              const float b = mB.v[ib];
              e = which == 0 ? e + b : which == 1 ? e - b : which == 2 ? e * b : e / b;
              if (!std::isfinite(e) || std::fabs(e) > 1e30f)
                expect.def[ie] = 0;
            }
        bool threw = false;
        V C;
        try
          {
            if (op.code == 15)
              C = A + B;
            else if (which == 0)
              A += B;
            else if (which == 1)
              A -= B;
            else if (which == 2)
              A *= B;
            else
              A /= B;
          }
        catch (const std::exception&)
          {
            threw = true;
          }
        ctx.count(expect_error ? "arith_incompatible" : "arith_compatible");
        if (expect_error && !threw)
          return Fail{ pre + "arith-incompatible-ranges-not-reported",
                       vf::fmt("A[%d,%d] op%d B[%d,%d] (sizes %zu,%zu) did not report an error", mA.min, mA.max(), which, mB.min,
                               mB.max(), mA.v.size(), mB.v.size()) };
        if (!expect_error && threw)
          return Fail{ pre + "arith-compatible-ranges-rejected", vf::fmt("A[%d,%d] B[%d,%d]", mA.min, mA.max(), mB.min, mB.max()) };
        if (op.code == 15)
          {
            if (!threw)
              if (auto f = compare1(C, expect, "A+B"))
                return Fail{ f->key + "(binary+)", f->what };
          }
        else if (!threw)
          mA = expect;
        break;
      }
      case 16:
        if constexpr (Tr::numeric)
          {
            A += 2.f;
            A *= 2.f;
            for (size_t i = 0; i < mA.v.size(); ++i)
              {
                mA.v[i] = (mA.v[i] + 2.f) * 2.f;
                if (!std::isfinite(mA.v[i]) || std::fabs(mA.v[i]) > 1e30f)
                  mA.def[i] = 0;
              }
          }
        break;
      case 17:
        if constexpr (Tr::numeric)
          {
            const bool compatible = (mA.empty() && mB.empty()) || (!mA.empty() && !mB.empty() && mA.min == mB.min && mA.max() == mB.max());
            if (mA.empty() != mB.empty())
              break; // exactly one operand empty: unspecified, not exercised
            bool threw = false;
            try
              {
                A.xapyb(A, 2.f, B, 3.f);
              }
            catch (const std::exception&)
              {
                threw = true;
              }
            ctx.count(compatible ? "xapyb_compatible" : "xapyb_incompatible");
            // empty vs non-empty: STIR compares min/max indices; empty has (0,-1)
            if (!compatible && !threw && !(mA.empty() || mB.empty()))
              return Fail{ pre + "xapyb-incompatible-ranges-not-reported", vf::fmt("A[%d,%d] B[%d,%d]", mA.min, mA.max(), mB.min, mB.max()) };
            if (compatible && threw)
              return Fail{ pre + "xapyb-compatible-rejected", "" };
            if (compatible && !threw)
              for (size_t i = 0; i < mA.v.size(); ++i)
                {
                  if (mA.def[i] && mB.def[i])
                    mA.v[i] = mA.v[i] * 2.f + mB.v[i] * 3.f;
                  else
                    mA.def[i] = 0;
                  if (!std::isfinite(mA.v[i]) || std::fabs(mA.v[i]) > 1e30f)
                    mA.def[i] = 0;
                }
            else if (!compatible && !threw)
              {
                // one of them empty: nothing sensible to model; re-sync model from object (defined values only)
                return std::nullopt;
              }
          }
        break;
      case 18:
        if (!mA.empty())
          {
            float* p = A.get_data_ptr();
            const bool ok = p == &A[mA.min];
            float u = uniq();
            p[mA.v.size() - 1] = u;
            A.release_data_ptr();
            mA.v.back() = u;
            mA.def.back() = 1;
            if (!ok)
              return Fail{ pre + "data-ptr", "get_data_ptr() does not point at the first element" };
          }
        break;
      case 19:
        if (mA.all_defined())
          {
            A.apply_lower_threshold(4.f);
            for (auto& x : mA.v)
              x = std::max(x, 4.f);
            A.apply_upper_threshold(1000.f);
            for (auto& x : mA.v)
              x = std::min(x, 1000.f);
          }
        break;
      }
    if (auto f = compare1(A, mA, "A"))
      return f;
    if (auto f = compare1(B, mB, "B"))
      return f;
    // equality reflects contents (only call when all values are defined: operator== reads them)
    if (mA.all_defined() && mB.all_defined())
      {
        const bool eq = (A == B), neq = (A != B);
        if (eq != (mA == mB) || neq == eq)
          return Fail{ pre + "equality", vf::fmt("A==B is %d, model %d (A size %zu [%d..], B size %zu [%d..])", eq, (mA == mB),
                                                 mA.v.size(), mA.min, mB.v.size(), mB.min) };
      }
    return std::nullopt;
  }
};

template <class V>
static void
run_sequence1(Ctx& ctx, const std::vector<Op>& seq)
{
  Machine1<V> m(ctx);
  for (const Op& op : seq)
    {
      auto f = m.apply(op);
      if (f)
        {
          ctx.violation(f->key, f->what + " | ops(code.param): " + m.trace);
          return;
        }
    }
  ctx.count("ops", static_cast<long>(seq.size()));
}

// ------------------------------------------------------------------ N-D model
template <int N>
struct MN
{
  int min = 0;
  std::vector<MN<N - 1>> v;
  bool empty() const { return v.empty(); }
  int max() const { return min + static_cast<int>(v.size()) - 1; }
  size_t size_all() const
  {
    size_t s = 0;
    for (auto& k : v)
      s += k.size_all();
    return s;
  }
  void flatten(std::vector<float>& out) const
  {
    for (auto& k : v)
      k.flatten(out);
  }
  template <class F>
  void for_each(F f)
  {
    for (auto& k : v)
      k.for_each(f);
  }
  bool same_shape(const MN& o) const
  {
    if (empty() && o.empty())
      return true;
    if (min != o.min || v.size() != o.v.size())
      return false;
    for (size_t i = 0; i < v.size(); ++i)
      if (!v[i].same_shape(o.v[i]))
        return false;
    return true;
  }
};
template <>
struct MN<1>
{
  int min = 0;
  std::vector<float> v;
  bool empty() const { return v.empty(); }
  int max() const { return min + static_cast<int>(v.size()) - 1; }
  size_t size_all() const { return v.size(); }
  void flatten(std::vector<float>& out) const { out.insert(out.end(), v.begin(), v.end()); }
  template <class F>
  void for_each(F f)
  {
    for (auto& x : v)
      f(x);
  }
  bool same_shape(const MN& o) const { return (empty() && o.empty()) || (min == o.min && v.size() == o.v.size()); }
};

// model resize from an IndexRange-like description: build shape then copy survivors
template <int N>
static void
m_make(MN<N>& m, const IndexRange<N>& r)
{
  m.v.clear();
  m.min = 0;
  if (r.get_max_index() < r.get_min_index())
    return;
  m.min = r.get_min_index();
  m.v.resize(static_cast<size_t>(r.get_max_index() - r.get_min_index() + 1));
  for (int i = r.get_min_index(); i <= r.get_max_index(); ++i)
    m_make(m.v[static_cast<size_t>(i - m.min)], r[i]);
}
template <>
void
m_make<1>(MN<1>& m, const IndexRange<1>& r)
{
  m.v.clear();
  m.min = 0;
  if (r.get_max_index() < r.get_min_index())
    return;
  m.min = r.get_min_index();
  m.v.assign(static_cast<size_t>(r.get_max_index() - r.get_min_index() + 1), 0.f);
}
template <int N>
static void
m_copy_overlap(MN<N>& dst, const MN<N>& src)
{
  if (dst.empty() || src.empty())
    return;
  for (int i = std::max(dst.min, src.min); i <= std::min(dst.max(), src.max()); ++i)
    m_copy_overlap(dst.v[static_cast<size_t>(i - dst.min)], src.v[static_cast<size_t>(i - src.min)]);
}
template <>
void
m_copy_overlap<1>(MN<1>& dst, const MN<1>& src)
{
  if (dst.empty() || src.empty())
    return;
  for (int i = std::max(dst.min, src.min); i <= std::min(dst.max(), src.max()); ++i)
    dst.v[static_cast<size_t>(i - dst.min)] = src.v[static_cast<size_t>(i - src.min)];
}
template <int N>
static void
m_resize(MN<N>& m, const IndexRange<N>& r)
{
  MN<N> n;
  m_make(n, r);
  m_copy_overlap(n, m);
  m = n;
}

// documented += semantics for numeric arrays: grow to hull, new elements zero / empty, then recurse
template <int N>
static void
m_arith(MN<N>& a, const MN<N>& b, int which)
{
  if (a.empty())
    {
      a = b;
      a.for_each([which](float& x) { x = which == 0 ? x : which == 1 ? -x : 0.f; });
      return;
    }
  if (b.empty())
    return;
  const int mn = std::min(a.min, b.min), mx = std::max(a.max(), b.max());
  MN<N> n;
  n.min = mn;
  n.v.resize(static_cast<size_t>(mx - mn + 1));
  for (int i = a.min; i <= a.max(); ++i)
    n.v[static_cast<size_t>(i - mn)] = a.v[static_cast<size_t>(i - a.min)];
  for (int i = b.min; i <= b.max(); ++i)
    m_arith(n.v[static_cast<size_t>(i - mn)], b.v[static_cast<size_t>(i - b.min)], which);
  a = n;
}
template <>
void
m_arith<1>(MN<1>& a, const MN<1>& b, int which)
{
  if (a.empty())
    {
      a = b;
      for (auto& x : a.v)
        x = which == 0 ? x : which == 1 ? -x : 0.f;
      return;
    }
  if (b.empty())
    return;
  const int mn = std::min(a.min, b.min), mx = std::max(a.max(), b.max());
  MN<1> n;
  n.min = mn;
  n.v.assign(static_cast<size_t>(mx - mn + 1), 0.f);
  for (int i = a.min; i <= a.max(); ++i)
    n.v[static_cast<size_t>(i - mn)] = a.v[static_cast<size_t>(i - a.min)];
  for (int i = b.min; i <= b.max(); ++i)
    {
      float& e = n.v[static_cast<size_t>(i - mn)];
      const float bb = b.v[static_cast<size_t>(i - b.min)];
      e = which == 0 ? e + bb : which == 1 ? e - bb : which == 2 ? e * bb : e / bb;
    }
  a = n;
}

template <int N>
static std::optional<Fail>
compareN(const Array<N, float>& a, const MN<N>& m, const std::string& where);
template <>
std::optional<Fail>
compareN<1>(const Array<1, float>& a, const MN<1>& m, const std::string& where)
{
  if (a.size() != m.v.size())
    return Fail{ "Array:size", where + vf::fmt(" size %zu model %zu", a.size(), m.v.size()) };
  if (m.empty())
    return std::nullopt;
  if (a.get_min_index() != m.min || a.get_max_index() != m.max())
    return Fail{ "Array:index-range", where + vf::fmt(" [%d,%d] model [%d,%d]", a.get_min_index(), a.get_max_index(), m.min, m.max()) };
  for (int i = m.min; i <= m.max(); ++i)
    if (!(a[i] == m.v[static_cast<size_t>(i - m.min)]))
      return Fail{ "Array:value", where + vf::fmt("[%d] = %g model %g", i, static_cast<double>(a[i]),
                                                  static_cast<double>(m.v[static_cast<size_t>(i - m.min)])) };
  return std::nullopt;
}
template <int N>
static std::optional<Fail>
compareN(const Array<N, float>& a, const MN<N>& m, const std::string& where)
{
  if (a.size() != m.v.size())
    return Fail{ "Array:size", where + vf::fmt(" size %zu model %zu (dim %d)", a.size(), m.v.size(), N) };
  if (m.empty())
    return std::nullopt;
  if (a.get_min_index() != m.min || a.get_max_index() != m.max())
    return Fail{ "Array:index-range", where + vf::fmt(" [%d,%d] model [%d,%d] (dim %d)", a.get_min_index(), a.get_max_index(), m.min, m.max(), N) };
  for (int i = m.min; i <= m.max(); ++i)
    if (auto f = compareN<N - 1>(a[i], m.v[static_cast<size_t>(i - m.min)], where + "[" + std::to_string(i) + "]"))
      return f;
  return std::nullopt;
}

// ---- reference notions for the index range itself: any level empty?  hyper-rectangle?
template <int N>
static bool
m_any_empty(const MN<N>& m)
{
  if (m.empty())
    return true;
  if constexpr (N > 1)
    for (auto& k : m.v)
      if (m_any_empty<N - 1>(k))
        return true;
  return false;
}
template <int N>
static bool
m_box(const MN<N>& m, std::vector<int>& box)
{
  if constexpr (N == 1)
    {
      box = { m.min, m.max() };
      return true;
    }
  else
    {
      std::vector<int> first;
      for (size_t i = 0; i < m.v.size(); ++i)
        {
          std::vector<int> b;
          if (!m_box<N - 1>(m.v[i], b))
            return false;
          if (i == 0)
            first = b;
          else if (b != first)
            return false;
        }
      box = { m.min, m.max() };
      box.insert(box.end(), first.begin(), first.end());
      return true;
    }
}

template <int N>
static std::optional<Fail>
check_full(const Array<N, float>& a, const MN<N>& m, const char* which)
{
  if (auto f = compareN<N>(a, m, which))
    return f;
  std::vector<float> flat;
  m.flatten(flat);
  if (a.size_all() != flat.size())
    return Fail{ "Array:size_all", vf::fmt("%s size_all %zu model %zu", which, a.size_all(), flat.size()) };
  // full iteration: each element exactly once in row-major order
  size_t k = 0;
  bool contiguous_actual = true;
  const float* prev = nullptr;
  for (auto it = a.begin_all_const(); it != a.end_all_const(); ++it, ++k)
    {
      if (k >= flat.size())
        return Fail{ "Array:full-iteration-overrun", which };
      if (!(*it == flat[k]))
        return Fail{ "Array:full-iteration-order", vf::fmt("%s element %zu = %g model %g", which, k, static_cast<double>(*it),
                                                           static_cast<double>(flat[k])) };
      if (prev && &*it != prev + 1)
        contiguous_actual = false;
      prev = &*it;
    }
  if (k != flat.size())
    return Fail{ "Array:full-iteration-count", vf::fmt("%s visited %zu of %zu", which, k, flat.size()) };
  if (!flat.empty())
    {
      // is_contiguous() must agree with the addresses actually used when it says "contiguous"
      // (it may be conservative only in the direction "false")
      if (a.is_contiguous() && !contiguous_actual)
        return Fail{ "Array:is_contiguous-wrong", which };
      // sum / max / min
      double s = 0;
      float mx = flat[0], mn = flat[0];
      for (float x : flat)
        {
          s += x;
          mx = std::max(mx, x);
          mn = std::min(mn, x);
        }
      if (a.find_max() != mx || a.find_min() != mn)
        return Fail{ "Array:find_max_min", which };
      if (std::fabs(static_cast<double>(a.sum()) - s) > 1e-4 * (std::fabs(s) + 1))
        return Fail{ "Array:sum", vf::fmt("%s sum %g model %g", which, static_cast<double>(a.sum()), s) };
    }
  // index range round trip
  IndexRange<N> r = a.get_index_range();
  if (r.size_all() != flat.size())
    return Fail{ "Array:get_index_range", which };
  // the index range as an object of its own: regularity and size must reflect the contents however often and in whatever order
  // they are asked for (the class caches its regularity), for the object, for copies of it, and for an array made from it
  if (!m_any_empty<N>(m))
    {
      std::vector<int> box;
      const bool reg_ref = m_box<N>(m, box);
      IndexRange<N> q = a.get_index_range();
      BasicCoordinate<N, int> qmn, qmx;
      const bool g1 = q.get_regular_range(qmn, qmx);
      const bool i1 = q.is_regular();
      const bool i2 = q.is_regular();
      const bool g2 = q.get_regular_range(qmn, qmx);
      if (g1 != reg_ref || i1 != reg_ref || i2 != reg_ref || g2 != reg_ref)
        return Fail{ "IndexRange:regularity-answer-changes-or-wrong",
                     vf::fmt("%s: hyper-rectangle %d; get_regular_range %d, is_regular %d, is_regular again %d, get_regular_range again %d", which,
                             reg_ref, g1, i1, i2, g2) };
      if (reg_ref)
        for (int d = 1; d <= N; ++d)
          if (qmn[d] != box[static_cast<size_t>(2 * (d - 1))] || qmx[d] != box[static_cast<size_t>(2 * (d - 1) + 1)])
            return Fail{ "IndexRange:get_regular_range-bounds", vf::fmt("%s: dimension %d [%d,%d]", which, d, qmn[d], qmx[d]) };
      if (q.size_all() != flat.size())
        return Fail{ "IndexRange:size_all-after-regularity-query",
                     vf::fmt("%s: size_all %zu after asking for regularity, %zu elements (hyper-rectangle %d)", which, q.size_all(), flat.size(), reg_ref) };
      const IndexRange<N> qc(q);
      if (qc.size_all() != flat.size() || qc.is_regular() != reg_ref || !(qc == q))
        return Fail{ "IndexRange:copy-after-regularity-query", vf::fmt("%s: copy has size_all %zu, %zu elements", which, qc.size_all(), flat.size()) };
      if (flat.size() <= 4096)
        {
          // an array made from the queried range owns exactly that many elements (ASan watches the fill)
          Array<N, float> fresh(qc);
          fresh.fill(1.F);
          if (fresh.size_all() != flat.size() || !(fresh.get_index_range() == q))
            return Fail{ "IndexRange:array-from-queried-range", vf::fmt("%s: array has size_all %zu, %zu elements", which, fresh.size_all(), flat.size()) };
          if (static_cast<size_t>(std::lround(static_cast<double>(fresh.sum()))) != flat.size())
            return Fail{ "IndexRange:array-from-queried-range:sum", vf::fmt("%s: %g ones, %zu elements", which, static_cast<double>(fresh.sum()), flat.size()) };
        }
    }
  return std::nullopt;
}

template <int N>
static IndexRange<N>
make_range(vf::Rng& rng, int shape)
{
  // shape 0: regular, 1: regular with negative mins, 2: irregular, 3: empty, 4: singleton axes
  BasicCoordinate<N, int> mn, mx;
  for (int d = 1; d <= N; ++d)
    {
      mn[d] = shape == 0 ? 0 : static_cast<int>(rng.range(-2, 1));
      mx[d] = mn[d] + (shape == 4 ? 0 : static_cast<int>(rng.range(0, 2)));
    }
  if (shape == 3)
    return IndexRange<N>();
  IndexRange<N> reg(mn, mx);
  if (shape != 2)
    return reg;
  if constexpr (N > 1)
    {
      VectorWithOffset<IndexRange<N - 1>> v(mn[1], mx[1]);
      for (int i = mn[1]; i <= mx[1]; ++i)
        v[i] = make_range<N - 1>(rng, rng.coin(0.3) ? 2 : 1);
      return IndexRange<N>(v);
    }
  else
    return reg;
}

template <int N>
struct MachineN
{
  Array<N, float> A, B;
  MN<N> mA, mB;
  float counter = 1;
  Ctx& ctx;
  std::string trace;
  // memory viewing
  shared_ptr<float[]> block;
  size_t block_len = 0;
  bool A_views = false; // A was constructed on block and not reshaped since
  explicit MachineN(Ctx& c)
      : ctx(c)
  {}
  float uniq() { return counter += 1; }
  void fill_unique(Array<N, float>& a, MN<N>& m)
  {
    std::vector<float> vals;
    m.for_each([&](float& x) {
      x = uniq();
      vals.push_back(x);
    });
    size_t k = 0;
    for (auto it = a.begin_all(); it != a.end_all(); ++it)
      *it = vals[k++];
  }
  template <int K>
  static bool would_create_gap(const MN<K>& a, const MN<K>& b)
  {
    if constexpr (K == 1)
      return false;
    else
      {
        if (a.empty() || b.empty())
          return false;
        if (a.max() + 1 < b.min || b.max() + 1 < a.min)
          return true;
        for (int i = std::max(a.min, b.min); i <= std::min(a.max(), b.max()); ++i)
          if (would_create_gap<K - 1>(a.v[static_cast<size_t>(i - a.min)], b.v[static_cast<size_t>(i - b.min)]))
            return true;
        return false;
      }
  }
  static float max_abs(MN<N>& m)
  {
    float mx = 0;
    m.for_each([&mx](float& x) { mx = std::isfinite(x) ? std::max(mx, std::fabs(x)) : 1e38f; });
    return mx;
  }
  std::optional<Fail> step(vf::Rng& rng)
  {
    int code = static_cast<int>(rng.range(0, 17));
    if (max_abs(mA) > 1e6f)
      code = 5; // keep values exactly representable: refill
    if (max_abs(mB) > 1e6f)
      code = 1;
    if (code >= 11 && code <= 13 && (would_create_gap<N>(mA, mB) || (mB.empty() && !mA.empty())))
      code = 14; // growing over a gap would create empty sub-arrays inside the array (full iteration over those is not supported)
    trace += std::to_string(code) + " ";
    switch (code)
      {
      case 0: { // fresh regular / irregular
        IndexRange<N> r = make_range<N>(rng, static_cast<int>(rng.range(0, 4)));
        A = Array<N, float>(r);
        m_make(mA, r);
        A_views = false;
        if (auto f = check_full<N>(A, mA, "A after construction (must be zero)"))
          return f;
        fill_unique(A, mA);
        break;
      }
      case 1: { // B fresh
        IndexRange<N> r = make_range<N>(rng, static_cast<int>(rng.range(0, 4)));
        B = Array<N, float>(r);
        m_make(mB, r);
        fill_unique(B, mB);
        break;
      }
      case 2: { // A views a shared block
        IndexRange<N> r = make_range<N>(rng, rng.coin() ? 0 : 1);
        block_len = r.size_all();
        block = shared_ptr<float[]>(new float[block_len + 1]);
        for (size_t i = 0; i <= block_len; ++i)
          block[i] = uniq();
        const float sentinel = block[block_len];
        A = Array<N, float>(r, block);
        m_make(mA, r);
        size_t k = 0;
        mA.for_each([&](float& x) { x = block[k++]; });
        A_views = true;
        (void)sentinel;
        break;
      }
      case 3:
      case 4: { // resize / grow
        IndexRange<N> r = make_range<N>(rng, static_cast<int>(rng.range(0, 4)));
        if (code == 3)
          A.resize(r);
        else
          A.grow(r);
        m_resize(mA, r);
        A_views = false;
        break;
      }
      case 5: {
        float u = uniq();
        A.fill(u);
        mA.for_each([u](float& x) { x = u; });
        break;
      }
      case 6: // write first and last element through coordinates
        if (mA.size_all() > 0)
          {
            // find first non-empty path
            BasicCoordinate<N, int> c;
            bool ok = first_coord(A, c);
            if (ok)
              {
                float u = uniq();
                A[c] = u;
                if (&A.at(c) != &A[c])
                  return Fail{ "Array:at-vs-bracket", "" };
                set_model(mA, c, u);
              }
          }
        break;
      case 7:
        B = A;
        mB = mA;
        break;
      case 8:
        A = B;
        mA = mB;
        A_views = false;
        break;
      case 9: {
        using std::swap;
        swap(A, B);
        std::swap(mA, mB);
        A_views = false;
        break;
      }
      case 10: {
        Array<N, float> tmp(std::move(B));
        if (auto f = check_full<N>(tmp, mB, "move-constructed"))
          return f;
        B = Array<N, float>();
        A = tmp;
        mA = mB;
        mB = MN<N>();
        A_views = false;
        break;
      }
      case 11:
      case 12:
      case 13: { // A op= B with possibly different ranges: grows (documented)
        const int which = code - 11;
        // irregular hull growth of sub-arrays is covered by recursion in the model
        if (which == 0)
          A += B;
        else if (which == 1)
          A -= B;
        else
          A *= B;
        m_arith(mA, mB, which);
        A_views = A_views && mA.same_shape(mA);
        A_views = false;
        ctx.count("nd_arith");
        break;
      }
      case 14: {
        A *= 2.f;
        A += 1.f;
        mA.for_each([](float& x) { x = x * 2.f + 1.f; });
        break;
      }
      case 15: { // xapyb: error iff index ranges differ
        const bool same = mA.same_shape(mB);
        bool threw = false;
        try
          {
            A.xapyb(A, 2.f, B, 3.f);
          }
        catch (const std::exception&)
          {
            threw = true;
          }
        ctx.count(same ? "nd_xapyb_compatible" : "nd_xapyb_incompatible");
        if (!same && !threw && mA.size_all() > 0 && mB.size_all() > 0)
          return Fail{ "Array:xapyb-incompatible-ranges-not-reported", "" };
        if (same && threw)
          return Fail{ "Array:xapyb-compatible-rejected", "" };
        if (same && !threw)
          {
            std::vector<float> bv;
            mB.flatten(bv);
            size_t k = 0;
            mA.for_each([&](float& x) { x = x * 2.f + bv[k++] * 3.f; });
          }
        else if (!threw)
          return std::nullopt; // degenerate empty case, stop checking this history here
        break;
      }
      case 16: // checked access outside the range must throw
        {
          BasicCoordinate<N, int> c;
          for (int d = 1; d <= N; ++d)
            c[d] = 40 + d;
          bool threw = false;
          try
            {
              (void)A.at(c);
            }
          catch (const std::out_of_range&)
            {
              threw = true;
            }
          if (!threw)
            return Fail{ "Array:at-outside-not-reported", "" };
          break;
        }
      case 17: // make one sub-array irregular through the public API
        if constexpr (N > 1)
          {
            if (!mA.empty())
              {
                const int i = static_cast<int>(rng.range(mA.min, mA.max()));
                IndexRange<N - 1> r = make_range<N - 1>(rng, static_cast<int>(rng.range(1, 2)));
                A[i].resize(r);
                m_resize(mA.v[static_cast<size_t>(i - mA.min)], r);
                A_views = false;
              }
          }
        break;
      }
    if (auto f = check_full<N>(A, mA, "A"))
      return f;
    if (auto f = check_full<N>(B, mB, "B"))
      return f;
    if (A_views && block_len > 0)
      {
        // aliasing: the array is exactly the block, in row-major order, both directions
        size_t k = 0;
        for (auto it = A.begin_all(); it != A.end_all(); ++it, ++k)
          if (&*it != block.get() + k)
            return Fail{ "Array:view-does-not-alias", vf::fmt("element %zu", k) };
        float u = uniq();
        block[block_len - 1] = u;
        std::vector<float> flat;
        mA.flatten(flat);
        // write into model's last element
        float* last = nullptr;
        mA.for_each([&](float& x) { last = &x; });
        if (last)
          *last = u;
        ctx.count("alias_checks");
        if (auto f = check_full<N>(A, mA, "A (after write through shared block)"))
          return f;
      }
    {
      const bool eq = (A == B);
      std::vector<float> fa, fb;
      mA.flatten(fa);
      mB.flatten(fb);
      const bool meq = mA.same_shape(mB) && fa == fb;
      // equality of arrays with empty sub-arrays is not pinned down by the documentation; only assert on non-degenerate shapes
      if (mA.size_all() > 0 && mB.size_all() > 0 && eq != meq && !has_empty_sub(mA) && !has_empty_sub(mB))
        return Fail{ "Array:equality", vf::fmt("A==B is %d, model %d", eq, meq) };
    }
    return std::nullopt;
  }
  template <int K>
  static bool has_empty_sub(const MN<K>& m)
  {
    if (m.empty())
      return true;
    if constexpr (K > 1)
      for (auto& k : m.v)
        if (has_empty_sub<K - 1>(k))
          return true;
    return false;
  }
  static bool first_coord(const Array<N, float>& a, BasicCoordinate<N, int>& c) { return first_coord_impl<N>(a, c); }
  template <int K>
  static bool first_coord_impl(const Array<K, float>& a, BasicCoordinate<N, int>& c)
  {
    if constexpr (K == 1)
      {
        if (a.size() == 0)
          return false;
        c[N] = a.get_max_index();
        return true;
      }
    else
      {
        for (int i = a.get_min_index(); i <= a.get_max_index(); ++i)
          if (first_coord_impl<K - 1>(a[i], c))
            {
              c[N - K + 1] = i;
              return true;
            }
        return false;
      }
  }
  template <int K>
  static void set_model_impl(MN<K>& m, const BasicCoordinate<N, int>& c, float u)
  {
    const int i = c[N - K + 1];
    if constexpr (K == 1)
      m.v[static_cast<size_t>(i - m.min)] = u;
    else
      set_model_impl<K - 1>(m.v[static_cast<size_t>(i - m.min)], c, u);
  }
  static void set_model(MN<N>& m, const BasicCoordinate<N, int>& c, float u) { set_model_impl<N>(m, c, u); }
};

template <int N>
static void
run_historyN(Ctx& ctx, int steps)
{
  MachineN<N> m(ctx);
  for (int s = 0; s < steps; ++s)
    {
      auto f = m.step(ctx.rng);
      if (f)
        {
          ctx.violation(f->key + vf::fmt("(dim%d)", N), f->what + " | op codes: " + m.trace);
          return;
        }
    }
  ctx.count("ops", steps);
}

// ------------------------------------------------------------------ 1-D view of shared memory (aliasing clause)
static void
run_view1(Ctx& ctx)
{
  vf::Rng& rng = ctx.rng;
  const int len = static_cast<int>(rng.range(1, 8));
  const int mn = static_cast<int>(rng.range(-4, 4));
  shared_ptr<float[]> block(new float[static_cast<size_t>(len)]);
  std::vector<float> shadow(static_cast<size_t>(len));
  float u = 100;
  for (int i = 0; i < len; ++i)
    block[i] = shadow[static_cast<size_t>(i)] = (u += 1);
  Array<1, float> a(IndexRange<1>(mn, mn + len - 1), block);
  M1 m;
  m.make(mn, mn + len - 1, true);
  for (int i = 0; i < len; ++i)
    m.v[static_cast<size_t>(i)] = shadow[static_cast<size_t>(i)];
  bool aliased = true;
  int pos0 = 0; // block index of element m.min
  std::string trace;
  const int steps = static_cast<int>(rng.range(3, 25));
  for (int s = 0; s < steps; ++s)
    {
      const int code = static_cast<int>(rng.range(0, 5));
      trace += std::to_string(code) + " ";
      if (code == 0 && !m.empty())
        {
          const int i = static_cast<int>(rng.range(m.min, m.max()));
          a[i] = (u += 1);
          m.v[static_cast<size_t>(i - m.min)] = u;
          if (aliased)
            shadow[static_cast<size_t>(pos0 + i - m.min)] = u;
        }
      else if (code == 1 && aliased && !m.empty())
        {
          const int i = static_cast<int>(rng.range(m.min, m.max()));
          block[pos0 + i - m.min] = (u += 1);
          shadow[static_cast<size_t>(pos0 + i - m.min)] = u;
          m.v[static_cast<size_t>(i - m.min)] = u;
        }
      else if (code == 2)
        {
          const int o = static_cast<int>(rng.range(-5, 5));
          a.set_offset(o);
          if (!m.empty())
            m.min = o;
        }
      else if (code == 3 && !m.empty())
        {
          // shrink inside the current range: must keep aliasing
          const int nmn = static_cast<int>(rng.range(m.min, m.max()));
          const int nmx = static_cast<int>(rng.range(nmn, m.max()));
          a.resize(nmn, nmx);
          pos0 += nmn - m.min;
          m.resize(nmn, nmx, true);
        }
      else if (code == 4)
        {
          // grow beyond the viewed block: must stop aliasing, never write outside the block
          const int nmn = m.empty() ? 0 : m.min - static_cast<int>(rng.range(0, 2));
          const int nmx = (m.empty() ? 0 : m.max()) + len + static_cast<int>(rng.range(1, 3));
          a.resize(nmn, nmx);
          m.resize(nmn, nmx, true);
          aliased = false;
          ctx.count("view_grown_beyond_block");
        }
      else if (code == 5)
        {
          a.fill(u += 1);
          std::fill(m.v.begin(), m.v.end(), u);
          if (aliased && !m.empty())
            for (size_t i = 0; i < m.v.size(); ++i)
              shadow[static_cast<size_t>(pos0) + i] = u;
        }
      if (auto f = compare1(a, m, "view"))
        {
          ctx.violation("Array1-view:" + f->key, f->what + " | " + trace);
          return;
        }
      // the block holds exactly what the shadow says: nothing else was touched
      for (int i = 0; i < len; ++i)
        if (block[i] != shadow[static_cast<size_t>(i)])
          {
            ctx.violation("Array1-view:block-content", vf::fmt("block[%d]=%g expected %g | %s", i, static_cast<double>(block[i]),
                                                               static_cast<double>(shadow[static_cast<size_t>(i)]), trace.c_str()));
            return;
          }
      if (aliased && !m.empty() && &a[m.min] != block.get() + pos0)
        {
          ctx.violation("Array1-view:lost-aliasing-within-block", trace);
          return;
        }
      if (aliased)
        ctx.count("alias_checks");
    }
  ctx.count("ops", steps);
}

// ------------------------------------------------------------------ case dispatch
static void
decode(long n, const std::vector<Op>& alpha, int len, std::vector<Op>& seq)
{
  seq.clear();
  const long base = static_cast<long>(alpha.size());
  for (int i = 0; i < len; ++i)
    {
      seq.push_back(alpha[static_cast<size_t>(n % base)]);
      n /= base;
    }
}

template <class V>
static void
exhaustive_block(Ctx& ctx, int len, long first, long count)
{
  const std::vector<Op> alpha = alphabet1(Traits<V>::numeric);
  long total = 1;
  for (int i = 0; i < len; ++i)
    total *= static_cast<long>(alpha.size());
  std::vector<Op> seq;
  for (long n = first; n < std::min(total, first + count); ++n)
    {
      decode(n, alpha, len, seq);
      run_sequence1<V>(ctx, seq);
      ctx.sub_eval(static_cast<uint64_t>(n) * 4 + static_cast<uint64_t>(Traits<V>::kind), len >= 2);
      if (ctx.violations)
        return;
    }
}

template <class V>
static void
random_history1(Ctx& ctx, int steps)
{
  const std::vector<Op> alpha = alphabet1(Traits<V>::numeric);
  std::vector<Op> seq;
  for (int i = 0; i < steps; ++i)
    seq.push_back(ctx.rng.pick(alpha));
  run_sequence1<V>(ctx, seq);
}

// Case layout.  mode "exh": case idx = (kind, block) over the enumeration of length L; other cases random.
static void
run_case(Ctx& ctx)
{
  // VERIF_C11_LEN: exhaustive length (default quick 3 + sampled 4; thorough 4 + sampled 5)
  const int L = ctx.thorough() ? 4 : 3;
  const long BLOCK = 4000;
  const long asz[3] = { static_cast<long>(alphabet1(false).size()), static_cast<long>(alphabet1(true).size()),
                        static_cast<long>(alphabet1(true).size()) };
  long nblocks[3], tot = 0;
  for (int k = 0; k < 3; ++k)
    {
      long t = 1;
      for (int i = 0; i < L; ++i)
        t *= asz[k];
      nblocks[k] = (t + BLOCK - 1) / BLOCK;
      tot += nblocks[k];
    }
  long idx = ctx.idx;
  if (std::getenv("VERIF_C11_SKIP_EXH"))
    idx += tot; // memcheck stage: random histories only
  if (idx < tot)
    {
      int k = 0;
      while (idx >= nblocks[k])
        idx -= nblocks[k++];
      ctx.desc.add("mode", "exhaustive").add("type", k == 0 ? "VectorWithOffset" : k == 1 ? "NumericVectorWithOffset" : "Array1").add("len", L).add("first", idx * BLOCK).add("count", BLOCK);
      ctx.heartbeat("exhaustive");
      if (k == 0)
        exhaustive_block<VectorWithOffset<float>>(ctx, L, idx * BLOCK, BLOCK);
      else if (k == 1)
        exhaustive_block<NumericVectorWithOffset<float, float>>(ctx, L, idx * BLOCK, BLOCK);
      else
        exhaustive_block<Array<1, float>>(ctx, L, idx * BLOCK, BLOCK);
      ctx.nontrivial = true;
      ctx.count("exhaustive_blocks");
      return;
    }
  // random part
  const int what = static_cast<int>(ctx.rng.range(0, 7));
  const int steps = static_cast<int>(ctx.rng.range(5, ctx.thorough() ? 500 : 120));
  static const char* names[] = { "VectorWithOffset", "NumericVectorWithOffset", "Array1", "Array2", "Array3", "Array4", "Array1-view", "Array2" };
  ctx.desc.add("mode", "random").add("type", names[what]).add("steps", steps);
  ctx.heartbeat("random");
  ctx.nontrivial = steps >= 5;
  switch (what)
    {
    case 0:
      random_history1<VectorWithOffset<float>>(ctx, steps);
      break;
    case 1:
      random_history1<NumericVectorWithOffset<float, float>>(ctx, steps);
      break;
    case 2:
      random_history1<Array<1, float>>(ctx, steps);
      break;
    case 3:
    case 7:
      run_historyN<2>(ctx, steps);
      break;
    case 4:
      run_historyN<3>(ctx, steps);
      break;
    case 5:
      run_historyN<4>(ctx, std::min(steps, 60));
      break;
    case 6:
      run_view1(ctx);
      break;
    }
  ctx.count("random_histories");
}

struct NullWriter : public stir::aTextWriter
{
  void write(const char*) const override {}
};

int
main(int argc, char** argv)
{
  static NullWriter nw;
  stir::TextWriterHandle h;
  h.set_information_channel(&nw);
  h.set_warning_channel(&nw);
  h.set_error_channel(&nw);
  return vf::verif_main(argc, argv, "C11", run_case);
}
