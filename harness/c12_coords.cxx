// C12: bin coordinates, lines of response and detector positions agree (DESIGN.md §6 C12).
//
// Per generated (scanner, sampling) configuration, for ALL bins (strided when there are more than a budget):
//  (1) round trip  bin -> get_LOR -> get_bin(LOR, delta_time of the bin)   with exactly the rules of the statement;
//  (2) (s, phi, m, tan theta) reported for the bin  vs  the straight line through the physical detector positions,
//      recomputed here in float64 (cylindrical: psi = 2 pi det/N + intrinsic tilt, radius = inner radius + DOI,
//      z = (ring - (rings-1)/2) * ring spacing; blocks/generic: the scanner's detector map), averaged over the
//      contributing detector pairs for compressed bins;
//  (3) antisymmetry / strict monotonicity in each index, uniform tangential sampling of arc-corrected data, TOF distances;
//  (4) ArcCorrection rows against a float64 overlap-interpolation reference (uniform -> uniform, integral over s);
//  (5) the Cartesian-coordinate functions of the detector-based classes (find_cartesian_coordinates_of_detection,
//      find_bin_given_cartesian_coordinates_of_detection, find_{cartesian,scanner}_coordinates_given_{scanner,cartesian}_coordinates),
//      inside their documented domain (no axial compression, no view mashing; z = 0 in the FIRST ring, not the scanner centre):
//      the two points of a bin lie on the line the bin reports (get_s/get_phi/get_m/get_tantheta and get_LOR), are the physical
//      positions of the bin's two detectors, convert back to the bin, and scanner <-> Cartesian coordinates invert each other.
//
// Conventions used by the reference (ProjDataInfo.h, LORCoordinates.h/.inl, ProjDataInfoCylindrical::get_LOR):
//  a detector at angle psi sits at x = R sin(psi), y = -R cos(psi);  a LOR is  X = s cos(phi) + a sin(phi),
//  Y = s sin(phi) - a cos(phi), Z = m - a tan(theta); its first end point (detector 1) is the one with a > 0.
#include "common/verif.h"
#include "common/gen.h"
#include "stir/ProjDataInfoCylindricalNoArcCorr.h"
#include "stir/ProjDataInfoCylindricalArcCorr.h"
#include "stir/ProjDataInfoBlocksOnCylindricalNoArcCorr.h"
#include "stir/ProjDataInfoGenericNoArcCorr.h"
#include "stir/DetectionPositionPair.h"
#include "stir/LORCoordinates.h"
#include "stir/ArcCorrection.h"
#include "stir/Sinogram.h"
#include "stir/Bin.h"
#include <cstdlib>
#include <fstream>
#include <numeric>
#include <typeinfo>

using namespace stir;
using vf::Ctx;
using vf::EPS32;

static const double PI = 3.14159265358979323846;
static const double C_HALF_MM_PER_PS = 0.299792458 / 2; // physical constant: light travels 0.2998 mm/ps

enum Klass
{
  CYL_NOARC,
  CYL_ARC,
  BLOCKS,
  GENERIC
};
static const char*
kname(Klass k)
{
  switch (k)
    {
    case CYL_NOARC:
      return "cyl-noarc";
    case CYL_ARC:
      return "cyl-arc";
    case BLOCKS:
      return "blocks";
    default:
      return "generic";
    }
}

static std::string
bins(const Bin& b)
{
  return vf::fmt("bin(seg%d,ax%d,view%d,tang%d,tof%d)", b.segment_num(), b.axial_pos_num(), b.view_num(), b.tangential_pos_num(),
                 b.timing_pos_num());
}
static double
wrap_pi(double a) // to (-pi, pi]
{
  a = std::fmod(a, 2 * PI);
  if (a > PI)
    a -= 2 * PI;
  if (a <= -PI)
    a += 2 * PI;
  return a;
}

// ------------------------------------------------------------------ independent physical model of the detectors
struct P3
{
  double x, y, z;
};
struct DetModel
{
  const Scanner* sc = nullptr;
  bool from_map = false;
  int N = 0, R = 0;
  double radius = 0, spacing = 0, tilt = 0;
  P3 pos(int det, int ring) const
  {
    if (from_map)
      {
        const CartesianCoordinate3D<float> c = sc->get_coordinate_for_det_pos(DetectionPosition<>(det, ring, 0));
        return P3{ c.x(), c.y(), c.z() };
      }
    const double psi = 2 * PI * det / N + tilt;
    return P3{ radius * std::sin(psi), -radius * std::cos(psi), (ring - (R - 1) / 2.0) * spacing };
  }
};
struct Geo
{
  double s, phi, m, tantheta, L;
};
static Geo
geo_from_points(const P3& p1, const P3& p2)
{
  Geo g;
  const double dx = p1.x - p2.x, dy = p1.y - p2.y;
  g.L = std::hypot(dx, dy);
  g.phi = std::atan2(dx, -dy);
  const double c = -dy / g.L, sn = dx / g.L;
  g.s = p1.x * c + p1.y * sn;
  g.tantheta = (p2.z - p1.z) / g.L;
  const double a1 = p1.x * sn - p1.y * c;
  g.m = p1.z + a1 * g.tantheta;
  return g;
}

// ------------------------------------------------------------------ configuration under test
struct Cfg
{
  Klass klass;
  shared_ptr<Scanner> sc;
  shared_ptr<ProjDataInfo> pdi;
  const ProjDataInfoCylindrical* cyl = nullptr; // all four classes derive from it
  const ProjDataInfoCylindricalNoArcCorr* noarc = nullptr;
  const ProjDataInfoCylindricalArcCorr* arc = nullptr;
  const ProjDataInfoGenericNoArcCorr* gen = nullptr;
  const ProjDataInfoBlocksOnCylindricalNoArcCorr* blk = nullptr;
  DetModel dm;
  int N, R, nviews, mash;
  double Reff, spacing, tilt, scale_r, scale_z;
  bool detector_based() const { return klass != CYL_ARC; }
};

static bool
seg_compressed(const Cfg& c, int seg)
{
  return c.cyl->get_min_ring_difference(seg) != c.cyl->get_max_ring_difference(seg);
}

// nominal (float64) sum of ring numbers of the bin: 2 m / spacing + (R-1), m from the documented centring of the axial positions
static double
nominal_ring_sum(const Cfg& c, int seg, int ax)
{
  const double samp = seg_compressed(c, seg) ? c.spacing / 2 : c.spacing;
  const double m = ax * samp - (c.pdi->get_max_axial_pos_num(seg) + c.pdi->get_min_axial_pos_num(seg)) * samp / 2;
  return 2 * m / c.spacing + (c.R - 1);
}

// "axially compressed bin at the axial edge": the central LOR of the bin (segment-average ring difference) leaves the scanner by
// half a ring or more at one end, or the bin lies inside the margin that STIR's own test skips for the same reason
static bool
at_axial_edge(const Cfg& c, int seg, int ax)
{
  if (!seg_compressed(c, seg))
    return false;
  const double avg = (c.cyl->get_min_ring_difference(seg) + c.cyl->get_max_ring_difference(seg)) / 2.0;
  const double sum = nominal_ring_sum(c, seg, ax);
  const double r1 = (sum - avg) / 2, r2 = (sum + avg) / 2;
  if (std::min(r1, r2) <= -0.5 + 1e-3 || std::max(r1, r2) >= c.R - 0.5 - 1e-3)
    return true;
  const int margin = static_cast<int>(std::max(std::ceil(avg - c.cyl->get_min_ring_difference(seg)), std::ceil(c.cyl->get_max_ring_difference(seg) - avg)));
  return ax < c.pdi->get_min_axial_pos_num(seg) + margin || ax > c.pdi->get_max_axial_pos_num(seg) - margin;
}

// detectors of the central LOR fall half way between two crystals (interleaving): psi1 = (2pi/N)(v mash + (mash-1)/2 + tang/2)
static bool
interleave_ambiguous(const Cfg& c, int tang)
{
  return ((c.mash - 1 + tang) % 2) != 0;
}

// ------------------------------------------------------------------ (1) round trip
enum RT
{
  RT_EXACT,
  RT_NEIGHBOUR,
  RT_WRAP,
  RT_MISS,
  RT_BAD
};
static RT
classify(const Cfg& c, const Bin& o, const Bin& n)
{
  if (n.get_bin_value() <= 0)
    return RT_MISS;
  const int ds = n.segment_num() - o.segment_num(), dv = n.view_num() - o.view_num(), da = n.axial_pos_num() - o.axial_pos_num(),
            dt = n.tangential_pos_num() - o.tangential_pos_num(), dk = n.timing_pos_num() - o.timing_pos_num();
  if (!ds && !dv && !da && !dt && !dk)
    return RT_EXACT;
  if (!c.detector_based())
    return RT_BAD;
  if (std::abs(da) > 1)
    return RT_BAD;
  if (ds == 0 && dk == 0 && std::abs(dv) <= 1 && std::abs(dt) <= 1)
    return RT_NEIGHBOUR;
  const int last = c.pdi->get_max_view_num(), first = c.pdi->get_min_view_num();
  const bool wrap = (o.view_num() == last && n.view_num() == first) || (o.view_num() == first && n.view_num() == last);
  if (wrap && n.segment_num() == -o.segment_num() && n.timing_pos_num() == -o.timing_pos_num()
      && std::abs(n.tangential_pos_num() + o.tangential_pos_num()) <= 1)
    return RT_WRAP;
  return RT_BAD;
}

struct RtStats
{
  long done = 0, exact = 0, neigh = 0, wrap = 0, miss = 0, miss_tang_edge = 0, as2points = 0;
};

// defects of the unchanged tree that were demonstrated with their own witness: reported once per case under a key of their own,
// after which the remaining checks of the configuration go on (so that they do not mask anything else)
static struct Defects
{
  bool generic_badcast, generic_tantheta, arc_view_out_of_range, arccorr_last_bin;
} D;

// returns false after a violation
static bool
check_roundtrip_result(Ctx& ctx, const Cfg& c, const Bin& b, const Bin& nb, const char* lor_kind, RtStats& st, const LOR<float>& lor)
{
  bool arc_view_wrap = false;
  if (c.klass == CYL_ARC)
    {
      if (nb.get_bin_value() > 0)
        arc_view_wrap = nb.view_num() < c.pdi->get_min_view_num() || nb.view_num() > c.pdi->get_max_view_num();
      else
        {
          // diagnosis only: the same wrap also negates the tangential position, which can then fall outside the tangential range
          LORInAxialAndSinogramCoordinates<float> lc;
          if (lor.change_representation(lc, c.cyl->get_ring_radius()) == Succeeded::yes)
            {
              const double x = to_0_2pi(lc.phi() - c.cyl->get_azimuthal_angle_offset()) / c.cyl->get_azimuthal_angle_sampling();
              arc_view_wrap = std::floor(x + 0.5) >= 2 * c.nviews;
            }
        }
    }
  if (arc_view_wrap)
    {
      // phi of the LOR a few float32 ulp below the angle of view 0: to_0_2pi() maps it to just under 2 pi, the view becomes
      // 2*num_views and the single "-= num_views" leaves it at num_views, reported as a valid bin
      ++st.done;
      if (!D.arc_view_out_of_range)
        {
          D.arc_view_out_of_range = true;
          ctx.violation("cyl-arc-get_bin-maps-phi-just-below-first-view-to-view-num_views",
                        bins(b) + " -> get_LOR -> (" + lor_kind + ") get_bin -> " + bins(nb)
                            + vf::fmt(" value %g, views are %d..%d, tangential positions %d..%d", nb.get_bin_value(), c.pdi->get_min_view_num(),
                                      c.pdi->get_max_view_num(), c.pdi->get_min_tangential_pos_num(), c.pdi->get_max_tangential_pos_num()));
        }
      return true;
    }
  const RT r = classify(c, b, nb);
  ++st.done;
  switch (r)
    {
    case RT_EXACT:
      ++st.exact;
      return true;
    case RT_NEIGHBOUR:
      ++st.neigh;
      return true;
    case RT_WRAP:
      ++st.wrap;
      return true;
    case RT_MISS:
      if (c.detector_based() && at_axial_edge(c, b.segment_num(), b.axial_pos_num()))
        {
          ++st.miss;
          return true;
        }
      // the permitted "one step away in tangential position" leaves the (truncated) tangential range of the data: no such bin
      if (c.klass == CYL_NOARC && interleave_ambiguous(c, b.tangential_pos_num())
          && (b.tangential_pos_num() == c.pdi->get_min_tangential_pos_num() || b.tangential_pos_num() == c.pdi->get_max_tangential_pos_num()))
        {
          ++st.miss_tang_edge;
          return true;
        }
      ctx.violation(std::string(kname(c.klass)) + ":roundtrip-" + lor_kind + "-reports-miss-away-from-compressed-axial-edge",
                    bins(b) + " -> get_LOR -> get_bin has value " + vf::fmt("%g", nb.get_bin_value()));
      return false;
    default:
      ctx.violation(std::string(kname(c.klass)) + ":roundtrip-" + lor_kind
                        + (c.detector_based() ? "-more-than-one-step-or-other-segment-or-tof" : "-not-identity"),
                    bins(b) + " -> get_LOR -> get_bin -> " + bins(nb));
      return false;
    }
}

static bool
roundtrip(Ctx& ctx, const Cfg& c, const Bin& b, RtStats& st)
{
  const ProjDataInfo& p = *c.pdi;
  double delta_time = p.get_tof_delta_time(b); // = time difference of get_k(bin)
  if (c.klass == CYL_ARC && delta_time != 0)
    return true; // ProjDataInfoCylindricalArcCorr::get_bin documents "TODO NO TOF YET" (calls error): only the central TOF bin
  if (c.klass == BLOCKS || c.klass == GENERIC)
    {
      // (a) the LOR exactly as get_LOR reports it
      LORInAxialAndNoArcCorrSinogramCoordinates<float> lor;
      p.get_LOR(lor, b);
      if (!D.generic_badcast)
        {
          try
            {
              Bin nb = p.get_bin(lor, delta_time);
              if (!check_roundtrip_result(ctx, c, b, nb, "sinogram-lor", st, lor))
                return false;
            }
          catch (const std::bad_cast&)
            {
              D.generic_badcast = true;
              ctx.violation("generic-get_bin-throws-bad_cast-for-the-LOR-returned-by-its-own-get_LOR",
                            bins(b)
                                + ": ProjDataInfoGenericNoArcCorr::get_bin(lor) with lor from get_LOR(lor,bin) throws std::bad_cast "
                                  "(dynamic_cast<const LORAs2Points<float>&>)");
              // defect-specific: keep checking the rest of this configuration with the representation get_bin accepts
            }
        }
      // (b) the same line as the two physical detector positions (the only representation get_bin accepts)
      DetectionPositionPair<> dp;
      c.gen->get_det_pos_pair_for_bin(dp, b);
      const CartesianCoordinate3D<float> c1 = c.sc->get_coordinate_for_det_pos(DetectionPosition<>(dp.pos1().tangential_coord(), dp.pos1().axial_coord(), 0));
      const CartesianCoordinate3D<float> c2 = c.sc->get_coordinate_for_det_pos(DetectionPosition<>(dp.pos2().tangential_coord(), dp.pos2().axial_coord(), 0));
      LORAs2Points<float> l2(c1, c2);
      Bin nb = p.get_bin(l2, delta_time);
      ++st.as2points;
      return check_roundtrip_result(ctx, c, b, nb, "2points-lor", st, l2);
    }
  LORInAxialAndNoArcCorrSinogramCoordinates<float> lor;
  p.get_LOR(lor, b);
  {
    Bin nb = p.get_bin(lor, delta_time);
    if (!check_roundtrip_result(ctx, c, b, nb, "sinogram-lor", st, lor))
      return false;
  }
  // same line given as two points on the detector cylinder
  {
    LORAs2Points<float> l2;
    if (lor.get_intersections_with_cylinder(l2, lor.radius()) != Succeeded::yes)
      {
        ctx.violation(std::string(kname(c.klass)) + ":lor-of-bin-does-not-intersect-detector-cylinder", bins(b));
        return false;
      }
    Bin nb = p.get_bin(l2, delta_time);
    ++st.as2points;
    if (!check_roundtrip_result(ctx, c, b, nb, "2points-lor", st, l2))
      return false;
  }
  return true;
}

// ------------------------------------------------------------------ (2) geometry from detector positions
struct GeoStats
{
  long checked = 0, pairs = 0, tanth_pairs = 0, tanth_segavg = 0, phi_exact = 0, phi_halfstep = 0, no_contrib = 0;
};

static bool
geo_fail(Ctx& ctx, const Cfg& c, const char* what, const Bin& b, double got, double ref, double band, const std::string& extra = "")
{
  ctx.violation(std::string(kname(c.klass)) + ":" + what + "-disagrees-with-detector-positions",
                bins(b) + vf::fmt(": reported %.9g, from detector positions %.9g (diff %.3g, band %.3g) ", got, ref, got - ref, band) + extra);
  return false;
}

static bool
geometry(Ctx& ctx, const Cfg& c, const Bin& b, GeoStats& st, std::vector<DetectionPositionPair<>>& dps)
{
  const ProjDataInfo& p = *c.pdi;
  const int seg = b.segment_num();
  const float s_f = p.get_s(b), phi_f = p.get_phi(b), m_f = p.get_m(b), tt_f = p.get_tantheta(b);
  const int mind = c.cyl->get_min_ring_difference(seg), maxd = c.cyl->get_max_ring_difference(seg);
  double s_ref = 0, m_ref = 0, tt_ref = 0, dphi = 0, L_ref = 0, tt_diam = 0, rmax_pair = 0;
  bool tt_from_pairs = true;
  size_t npairs = 0;
  bool flipped = false;

  if (c.klass == CYL_ARC)
    {
      // no detector pairs behind an arc-corrected bin: uniform sampling with the scanner's bin size, rings of the contributing ring pairs
      const auto& rps = c.cyl->get_all_ring_pairs_for_segment_axial_pos_num(seg, b.axial_pos_num());
      if (rps.empty())
        {
          ++st.no_contrib;
          return true;
        }
      s_ref = b.tangential_pos_num() * static_cast<double>(c.sc->get_default_bin_size());
      L_ref = 2 * std::sqrt(c.Reff * c.Reff - s_ref * s_ref);
      double sumd = 0;
      for (auto& rp : rps)
        {
          m_ref += ((rp.first + rp.second) / 2.0 - (c.R - 1) / 2.0) * c.spacing;
          sumd += rp.second - rp.first;
        }
      npairs = rps.size();
      m_ref /= npairs;
      int nexp = 0;
      for (int d = mind; d <= maxd; ++d)
        if (((d - (rps[0].first + rps[0].second)) % 2) == 0)
          ++nexp;
      if (static_cast<int>(npairs) == nexp && (mind + maxd) % 2 == 0)
        tt_ref = (sumd / npairs) * c.spacing / L_ref;
      else
        {
          tt_from_pairs = false;
          tt_ref = ((mind + maxd) / 2.0) * c.spacing / L_ref;
        }
      const double phi_ref = 2 * PI / c.N * (b.view_num() * c.mash + (c.mash - 1) / 2.0) + c.tilt;
      dphi = wrap_pi(phi_f - phi_ref);
    }
  else
    {
      const bool uncompressed = c.mash == 1 && mind == maxd;
      if (uncompressed)
        {
          Bin b0 = b;
          b0.timing_pos_num() = 0; // a negative TOF index swaps the detectors in get_det_pos_pair_for_bin (C01's business)
          dps.resize(1);
          if (c.noarc)
            c.noarc->get_det_pos_pair_for_bin(dps[0], b0);
          else
            c.gen->get_det_pos_pair_for_bin(dps[0], b0);
        }
      else
        {
          if (c.noarc)
            c.noarc->get_all_det_pos_pairs_for_bin(dps, b, true);
          else
            c.gen->get_all_det_pos_pairs_for_bin(dps, b);
        }
      if (dps.empty())
        {
          ++st.no_contrib;
          return true;
        }
      npairs = dps.size();
      double sumd = 0;
      std::set<std::pair<int, int>> ringpairs;
      // first pass decides the orientation (generic classes normalise phi to [0,pi) and flip s and theta accordingly)
      for (size_t i = 0; i < npairs; ++i)
        {
          const auto& dp = dps[i];
          const int d1 = dp.pos1().tangential_coord(), r1 = dp.pos1().axial_coord(), d2 = dp.pos2().tangential_coord(), r2 = dp.pos2().axial_coord();
          if (d1 < 0 || d1 >= c.N || d2 < 0 || d2 >= c.N || r1 < 0 || r1 >= c.R || r2 < 0 || r2 >= c.R || d1 == d2)
            {
              ctx.violation(std::string(kname(c.klass)) + ":contributing-detector-pair-outside-scanner", bins(b) + vf::fmt(" (d%d,r%d)-(d%d,r%d)", d1, r1, d2, r2));
              return false;
            }
          const P3 q1 = c.dm.pos(d1, r1), q2 = c.dm.pos(d2, r2);
          const Geo g = geo_from_points(q1, q2);
          {
            // what "delta z between the intersections with the cylinder through the outer detector, divided by its diameter" would give
            const double rc = std::max(std::hypot(q1.x, q1.y), std::hypot(q2.x, q2.y));
            rmax_pair = std::max(rmax_pair, rc);
            tt_diam += g.tantheta * std::sqrt(std::max(0., rc * rc - g.s * g.s)) / rc;
          }
          s_ref += g.s;
          m_ref += g.m;
          tt_ref += g.tantheta;
          L_ref += g.L;
          dphi += wrap_pi(phi_f - g.phi);
          sumd += r2 - r1;
          ringpairs.insert({ r1, r2 });
        }
      s_ref /= npairs;
      m_ref /= npairs;
      tt_ref /= npairs;
      tt_diam /= npairs;
      L_ref /= npairs;
      dphi /= npairs;
      if (c.klass == BLOCKS || c.klass == GENERIC)
        {
          if (std::fabs(dphi) > PI / 2)
            {
              // same line described from the other end
              flipped = true;
              dphi = wrap_pi(dphi - PI);
              s_ref = -s_ref;
              tt_ref = -tt_ref;
              tt_diam = -tt_diam;
            }
        }
      else if (mind != maxd)
        {
          const int sum = dps[0].pos1().axial_coord() + dps[0].pos2().axial_coord();
          int nexp = 0;
          for (int d = mind; d <= maxd; ++d)
            if (((d - sum) % 2) == 0)
              ++nexp;
          if (!(static_cast<int>(ringpairs.size()) == nexp && (mind + maxd) % 2 == 0))
            {
              // incomplete edge bin, or a segment without a central ring difference: the documented model is the segment average
              tt_from_pairs = false;
              tt_ref = ((mind + maxd) / 2.0) * c.spacing / L_ref;
            }
        }
    }
  ++st.checked;
  st.pairs += static_cast<long>(npairs);

  const bool cylclass = c.klass == CYL_NOARC || c.klass == CYL_ARC;
  // bands: a few float32 ulp of the length scale of each quantity (cylindrical: ~6 float operations incl. one sin/sqrt;
  // generic: atan2, sqrt, a quadratic and ~20 operations through LORAs2Points -> cylinder -> sinogram coordinates)
  const double ulps = cylclass ? 16 : 96;
  const double band_s = ulps * EPS32 * c.scale_r;
  const double band_m = ulps * EPS32 * c.scale_z + (cylclass ? 0 : ulps * EPS32 * c.scale_r * std::fabs(tt_ref));
  const double band_phi = ulps * EPS32 * (PI + std::fabs(c.tilt)) + (cylclass ? 0 : band_s / (L_ref / 2));
  const double band_tt = ulps * EPS32 * std::fabs(tt_ref) + (cylclass ? 0 : ulps * EPS32 * c.scale_z / L_ref) + 1e-12;

  if (!(std::fabs(s_f - s_ref) <= band_s))
    return geo_fail(ctx, c, "s", b, s_f, s_ref, band_s, vf::fmt("%zu pairs flipped=%d", npairs, flipped));
  if (!(std::fabs(m_f - m_ref) <= band_m))
    return geo_fail(ctx, c, "m", b, m_f, m_ref, band_m, vf::fmt("%zu pairs", npairs));
  // phi: exact where interleaving plays no role, else within half a view step
  const bool phi_exact = c.klass != CYL_NOARC || (b.tangential_pos_num() % 2) == 0;
  if (phi_exact)
    {
      ++st.phi_exact;
      if (!(std::fabs(dphi) <= band_phi))
        return geo_fail(ctx, c, "phi", b, phi_f, phi_f - dphi, band_phi, "(no interleaving: must agree exactly)");
    }
  else
    {
      ++st.phi_halfstep;
      const double half = PI / c.nviews / 2;
      if (!(std::fabs(dphi) <= half + band_phi))
        return geo_fail(ctx, c, "phi", b, phi_f, phi_f - dphi, half + band_phi, "(interleaved: within half a view step)");
    }
  if (!(std::fabs(tt_f - tt_ref) <= band_tt))
    {
      if (!cylclass)
        {
          // recognise one specific defect: delta z divided by the cylinder diameter instead of the transaxial length of the LOR
          if (std::fabs(tt_f - tt_diam) <= band_tt + 1e-4 * std::fabs(tt_ref) && std::fabs(s_ref) > 1e-3 * rmax_pair)
            {
              if (!D.generic_tantheta)
                {
                  D.generic_tantheta = true;
                  ctx.violation("generic-get_tantheta-divides-by-cylinder-diameter-instead-of-transaxial-LOR-length",
                                bins(b)
                                    + vf::fmt(": get_tantheta %.9g, delta_z/sqrt(dx^2+dy^2) from the detector positions %.9g, "
                                              "delta_z/(2R) %.9g (s=%.6g, R=%.6g)",
                                              tt_f, tt_ref, tt_diam, s_ref, rmax_pair));
                }
              return true; // defect-specific key reported once; keep checking the other quantities of this configuration
            }
        }
      return geo_fail(ctx, c, tt_from_pairs ? "tantheta" : "tantheta-segment-average", b, tt_f, tt_ref, band_tt);
    }
  if (tt_from_pairs)
    ++st.tanth_pairs;
  else
    ++st.tanth_segavg;
  return true;
}

// ------------------------------------------------------------------ (5) Cartesian coordinates of detection
static int coprime_stride(long need, int a, int b, int c);
// Documented for these ("obsolete") functions: the axial coordinate is zero in the FIRST ring, while get_m()/get_LOR() have it
// zero in the centre of the scanner; find_cartesian_coordinates_of_detection goes through get_det_pos_pair_for_bin, i.e. only
// for span 1 and no view mashing.  The order of the two points is not part of the statement (a line): compared as unordered pair.
struct CartStats
{
  long bins = 0, oblique = 0, in_detector_order = 0, swapped_order = 0, swapped_order_tof_nonneg = 0, vs_get_lor = 0, find_exact = 0, find_neigh = 0, find_wrap = 0;
};

static double
z_of_first_ring(const Cfg& c) // in the scanner-centred frame of get_m()/get_LOR(), from the independent detector model
{
  return c.dm.pos(0, 0).z;
}
// error of one reported point: cylindrical = R sin/cos of a float32 angle of magnitude <= 2 pi + |tilt| that went through ~4 float
// operations, plus the multiplication; blocks/generic = the float32 detector map itself
static double
cart_point_band_xy(const Cfg& c)
{
  return c.gen ? 4 * EPS32 * c.scale_r : EPS32 * c.scale_r * (4 * (2 * PI + std::fabs(c.tilt)) + 8);
}
static bool
cart_point_is(const Cfg& c, const CartesianCoordinate3D<float>& p, const P3& q)
{
  const double bxy = cart_point_band_xy(c), bz = 16 * EPS32 * c.scale_z;
  return std::fabs(p.x() - q.x) <= bxy && std::fabs(p.y() - q.y) <= bxy && std::fabs(p.z() + z_of_first_ring(c) - q.z) <= bz;
}
static std::string
p3s(const CartesianCoordinate3D<float>& p)
{
  return vf::fmt("(x%.7g,y%.7g,z%.7g)", p.x(), p.y(), p.z());
}

// the line through two points (g, float64, scanner-centred z) against a reported (s, phi, m, tan theta); either orientation of the
// line is accepted ((s,phi,theta) ~ (-s,phi+pi,-theta)); phi within half a view step where interleaving plays a role
static bool
line_agrees(Ctx& ctx, const Cfg& c, const Bin& b, const char* fn, const char* with, Geo g, double s, double phi, double m, double tt,
            const std::string& pts)
{
  double dphi = wrap_pi(phi - g.phi);
  if (std::fabs(dphi) > PI / 2)
    {
      dphi = wrap_pi(dphi - PI);
      g.s = -g.s;
      g.tantheta = -g.tantheta;
    }
  const bool cylclass = c.klass == CYL_NOARC;
  const double ulps = cylclass ? 16 : 96;
  const double band_s = ulps * EPS32 * c.scale_r + cart_point_band_xy(c);
  const double band_m = ulps * EPS32 * c.scale_z + band_s * std::fabs(g.tantheta);
  const double band_phi = ulps * EPS32 * (PI + std::fabs(c.tilt)) + band_s / (g.L / 2);
  const double band_tt = ulps * EPS32 * std::fabs(g.tantheta) + ulps * EPS32 * c.scale_z / g.L + 2 * band_s * std::fabs(g.tantheta) / g.L + 1e-12;
  const bool phi_exact = c.klass != CYL_NOARC || (b.tangential_pos_num() % 2) == 0;
  const double phi_allow = phi_exact ? band_phi : PI / c.nviews / 2 + band_phi;
  const char* q = nullptr;
  double got = 0, ref = 0, band = 0;
  if (!(std::fabs(g.s - s) <= band_s))
    q = "s", got = g.s, ref = s, band = band_s;
  else if (!(std::fabs(g.m - m) <= band_m))
    q = "m", got = g.m, ref = m, band = band_m;
  else if (!(std::fabs(dphi) <= phi_allow))
    q = "phi", got = phi - dphi, ref = phi, band = phi_allow;
  else if (!(std::fabs(g.tantheta - tt) <= band_tt))
    q = "tantheta", got = g.tantheta, ref = tt, band = band_tt;
  if (!q)
    return true;
  ctx.violation(std::string(kname(c.klass)) + ":" + fn + "-" + q + "-of-the-line-through-the-points-differs-from-" + with,
                bins(b) + ": points " + pts + vf::fmt(" (z from the first ring) give %s = %.9g, %s has %.9g (diff %.3g, band %.3g)", q, got, with, ref, got - ref, band));
  return false;
}

static bool
cartesian_of_bin(Ctx& ctx, const Cfg& c, const Bin& b, CartStats& st)
{
  if (c.klass == CYL_ARC)
    return true;
  const int seg = b.segment_num();
  if (c.mash != 1 || c.cyl->get_min_ring_difference(seg) != c.cyl->get_max_ring_difference(seg))
    return true; // documented: only span 1 and no view mashing
  const ProjDataInfo& p = *c.pdi;
  const std::string K = kname(c.klass);
  CartesianCoordinate3D<float> c1, c2;
  if (c.noarc)
    c.noarc->find_cartesian_coordinates_of_detection(c1, c2, b);
  else
    c.gen->find_cartesian_coordinates_of_detection(c1, c2, b);
  const std::string pts = p3s(c1) + " " + p3s(c2);
  ++st.bins;
  const double z0 = z_of_first_ring(c);
  const P3 q1{ c1.x(), c1.y(), c1.z() + z0 }, q2{ c2.x(), c2.y(), c2.z() + z0 };
  if (!(std::hypot(q1.x - q2.x, q1.y - q2.y) > 1e-3 * c.scale_r))
    {
      ctx.violation(K + ":find_cartesian_coordinates_of_detection-returns-coincident-points", bins(b) + ": " + pts);
      return false;
    }
  const Geo g = geo_from_points(q1, q2);
  // (i) on the line the bin reports
  if (!line_agrees(ctx, c, b, "find_cartesian_coordinates_of_detection", "get_s-get_phi-get_m-get_tantheta", g, p.get_s(b), p.get_phi(b), p.get_m(b),
                   p.get_tantheta(b), pts))
    return false;
  if (g.tantheta != 0)
    ++st.oblique;
  {
    LORInAxialAndNoArcCorrSinogramCoordinates<float> lor;
    p.get_LOR(lor, b);
    LORAs2Points<float> l2;
    if (lor.get_intersections_with_cylinder(l2, lor.radius()) == Succeeded::yes)
      {
        const Geo gl = geo_from_points(P3{ l2.p1().x(), l2.p1().y(), l2.p1().z() }, P3{ l2.p2().x(), l2.p2().y(), l2.p2().z() });
        if (!line_agrees(ctx, c, b, "find_cartesian_coordinates_of_detection", "get_LOR", g, gl.s, gl.phi, gl.m, gl.tantheta, pts))
          return false;
        ++st.vs_get_lor;
      }
  }
  // (ii) the physical positions of the bin's two detectors
  {
    Bin b0 = b;
    b0.timing_pos_num() = 0;
    DetectionPositionPair<> dp;
    if (c.noarc)
      c.noarc->get_det_pos_pair_for_bin(dp, b0);
    else
      c.gen->get_det_pos_pair_for_bin(dp, b0);
    const int d1 = dp.pos1().tangential_coord(), r1 = dp.pos1().axial_coord(), d2 = dp.pos2().tangential_coord(), r2 = dp.pos2().axial_coord();
    if (d1 < 0 || d1 >= c.N || d2 < 0 || d2 >= c.N || r1 < 0 || r1 >= c.R || r2 < 0 || r2 >= c.R)
      return true; // reported by the geometry clause
    const P3 m1 = c.dm.pos(d1, r1), m2 = c.dm.pos(d2, r2);
    if (cart_point_is(c, c1, m1) && cart_point_is(c, c2, m2))
      ++st.in_detector_order;
    else if (cart_point_is(c, c1, m2) && cart_point_is(c, c2, m1))
      {
        ++st.swapped_order; // expected for negative TOF bins (get_det_pos_pair_for_bin swaps the detectors instead of negating the TOF index)
        if (b.timing_pos_num() >= 0)
          ++st.swapped_order_tof_nonneg;
      }
    else
      {
        ctx.violation(K + ":find_cartesian_coordinates_of_detection-differs-from-the-positions-of-the-bins-detectors",
                      bins(b) + ": points " + pts
                          + vf::fmt(" (z from the first ring, which is at %.7g); detectors (d%d,r%d) at (x%.7g,y%.7g,z%.7g), (d%d,r%d) at (x%.7g,y%.7g,z%.7g) "
                                    "(z from the scanner centre); band xy %.3g",
                                    z0, d1, r1, m1.x, m1.y, m1.z, d2, r2, m2.x, m2.y, m2.z, cart_point_band_xy(c)));
        return false;
      }
  }
  // (iii) back to the bin (these functions take no time difference: spatial indices only)
  if (c.noarc || c.blk)
    {
      Bin nb(0, 0, 0, 0, 1.f);
      if (c.noarc)
        c.noarc->find_bin_given_cartesian_coordinates_of_detection(nb, c1, c2);
      else
        c.blk->find_bin_given_cartesian_coordinates_of_detection(nb, c1, c2);
      Bin o = b;
      o.timing_pos_num() = 0;
      Bin n = nb;
      n.timing_pos_num() = 0;
      if (n.get_bin_value() < 0)
        n.set_bin_value(-1.f);
      else
        n.set_bin_value(1.f); // only -1 is documented to mean "no bin"
      switch (classify(c, o, n))
        {
        case RT_EXACT:
          ++st.find_exact;
          break;
        case RT_NEIGHBOUR:
          ++st.find_neigh;
          break;
        case RT_WRAP:
          ++st.find_wrap;
          break;
        case RT_MISS:
          ctx.violation(K + ":find_bin_given_cartesian_coordinates_of_detection-finds-no-bin-for-the-points-of-a-bin", bins(b) + ": points " + pts);
          return false;
        default:
          ctx.violation(K + ":find_bin_given_cartesian_coordinates_of_detection-more-than-one-step-or-other-segment",
                        bins(b) + ": points " + pts + " -> " + bins(nb));
          return false;
        }
    }
  return true;
}

// (iv) scanner coordinates <-> Cartesian coordinates for every (detector, ring), each paired with two partners at least two crystals away
static bool
scanner_coordinate_checks(Ctx& ctx, const Cfg& c)
{
  if (c.klass == CYL_ARC)
    return true;
  vf::Rng& rng = ctx.rng;
  const std::string K = kname(c.klass);
  const long ndet = static_cast<long>(c.N) * c.R;
  const long step = ndet <= 20000 ? 1 : coprime_stride((ndet + 19999) / 20000, c.N, c.R, 1);
  long n_pos = 0, n_inv = 0, n_inv_ordered = 0;
  for (long i = ndet <= 20000 ? 0 : rng.range(0, step - 1); i < ndet; i += step)
    {
      const int d1 = static_cast<int>(i % c.N), r1 = static_cast<int>(i / c.N);
      for (int partner = 0; partner < 2; ++partner)
        {
          const int o = partner == 0 ? 0 : static_cast<int>(rng.range(-(c.N / 2 - 2), c.N / 2 - 2));
          const int d2 = ((d1 + c.N / 2 + o) % c.N + c.N) % c.N;
          const int r2 = partner == 0 ? r1 : static_cast<int>(rng.range(0, c.R - 1));
          const int tpos = c.noarc && c.pdi->is_tof_data() ? static_cast<int>(rng.range(-1, 1)) : 0;
          CartesianCoordinate3D<float> c1, c2;
          if (c.noarc)
            c.noarc->find_cartesian_coordinates_given_scanner_coordinates(c1, c2, r1, r2, d1, d2, tpos);
          else
            c.gen->find_cartesian_coordinates_given_scanner_coordinates(c1, c2, r1, r2, d1, d2);
          const std::string in = vf::fmt("(d%d,r%d)-(d%d,r%d) tof %d", d1, r1, d2, r2, tpos);
          const P3 m1 = c.dm.pos(d1, r1), m2 = c.dm.pos(d2, r2);
          if (!((cart_point_is(c, c1, m1) && cart_point_is(c, c2, m2)) || (cart_point_is(c, c1, m2) && cart_point_is(c, c2, m1))))
            {
              ctx.violation(K + ":find_cartesian_coordinates_given_scanner_coordinates-differs-from-the-detector-positions",
                            in + ": points " + p3s(c1) + " " + p3s(c2)
                                + vf::fmt(" (z from the first ring, which is at %.7g); detectors at (x%.7g,y%.7g,z%.7g), (x%.7g,y%.7g,z%.7g) (z from the "
                                          "scanner centre); band xy %.3g",
                                          z_of_first_ring(c), m1.x, m1.y, m1.z, m2.x, m2.y, m2.z, cart_point_band_xy(c)));
              return false;
            }
          ++n_pos;
          if (!c.noarc && !c.blk)
            continue; // ProjDataInfoGenericNoArcCorr has no inverse
          int e1 = -1, e2 = -1, q1 = -1, q2 = -1;
          const Succeeded ok = c.noarc ? c.noarc->find_scanner_coordinates_given_cartesian_coordinates(e1, e2, q1, q2, c1, c2)
                                       : c.blk->find_scanner_coordinates_given_cartesian_coordinates(e1, e2, q1, q2, c1, c2);
          if (ok != Succeeded::yes)
            {
              ctx.violation(K + ":find_scanner_coordinates_given_cartesian_coordinates-fails-for-two-detector-positions",
                            in + ": points " + p3s(c1) + " " + p3s(c2) + " from find_cartesian_coordinates_given_scanner_coordinates");
              return false;
            }
          const bool ordered = e1 == d1 && q1 == r1 && e2 == d2 && q2 == r2, swapped = e1 == d2 && q1 == r2 && e2 == d1 && q2 == r1;
          if (!ordered && !swapped)
            {
              ctx.violation(K + ":find_scanner_coordinates_given_cartesian_coordinates-does-not-invert-find_cartesian_coordinates_given_scanner_coordinates",
                            in + ": points " + p3s(c1) + " " + p3s(c2) + vf::fmt(" -> (d%d,r%d)-(d%d,r%d)", e1, q1, e2, q2));
              return false;
            }
          ++n_inv;
          n_inv_ordered += ordered;
        }
    }
  ctx.count("cart_scanner_coordinates_vs_detector_positions", n_pos);
  ctx.count("cart_scanner_coordinate_inversions", n_inv);
  ctx.count("cart_scanner_coordinate_inversions_same_order", n_inv_ordered);
  ctx.count(std::string("cart_scanner_coordinate_inversions_") + kname(c.klass), n_inv);
  return true;
}

// ------------------------------------------------------------------ (3) antisymmetry / monotonicity / sampling / TOF
static bool
symmetry_checks(Ctx& ctx, const Cfg& c)
{
  const ProjDataInfo& p = *c.pdi;
  const std::string K = kname(c.klass);
  const int tmin = p.get_min_tangential_pos_num(), tmax = p.get_max_tangential_pos_num();
  const int v0 = p.get_min_view_num();
  const bool cylclass = c.klass == CYL_NOARC || c.klass == CYL_ARC;
  long n = 0;
  if (cylclass)
    {
      // s: odd in the tangential index, strictly increasing
      const int ax0 = p.get_min_axial_pos_num(0);
      for (int t = tmin; t <= tmax; ++t)
        {
          const float s = p.get_s(Bin(0, v0, ax0, t));
          if (-t >= tmin && -t <= tmax)
            {
              const float sm = p.get_s(Bin(0, v0, ax0, -t));
              if (!(std::fabs(static_cast<double>(s) + sm) <= 4 * EPS32 * std::fabs(s)))
                {
                  ctx.violation(K + ":s-not-antisymmetric-in-tangential-position", vf::fmt("tang %d: %.9g, tang %d: %.9g", t, s, -t, sm));
                  return false;
                }
            }
          if (t == 0 && s != 0)
            {
              ctx.violation(K + ":s-nonzero-at-central-tangential-position", vf::fmt("%.9g", s));
              return false;
            }
          if (t < tmax)
            {
              const float s1 = p.get_s(Bin(0, v0, ax0, t + 1));
              if (!(s1 > s))
                {
                  ctx.violation(K + ":s-not-strictly-increasing-in-tangential-position", vf::fmt("tang %d: %.9g, tang %d: %.9g", t, s, t + 1, s1));
                  return false;
                }
              if (c.klass == CYL_ARC)
                {
                  const double bs = c.sc->get_default_bin_size();
                  const double band = 8 * EPS32 * (std::fabs(s) + std::fabs(s1) + bs);
                  if (!(std::fabs((static_cast<double>(s1) - s) - bs) <= band))
                    {
                      ctx.violation(K + ":arc-corrected-tangential-sampling-not-uniform",
                                    vf::fmt("s(%d)-s(%d) = %.9g, bin size %.9g", t + 1, t, static_cast<double>(s1) - s, bs));
                      return false;
                    }
                  const float ss = p.get_sampling_in_s(Bin(0, v0, ax0, t));
                  if (!(std::fabs(ss - bs) <= 4 * EPS32 * bs))
                    {
                      ctx.violation(K + ":arc-corrected-sampling-in-s-differs-from-bin-size", vf::fmt("%.9g vs %.9g", ss, bs));
                      return false;
                    }
                }
            }
          ++n;
        }
      // phi: strictly increasing with the view, step pi/num_views
      for (int v = p.get_min_view_num(); v < p.get_max_view_num(); ++v)
        {
          const float a = p.get_phi(Bin(0, v, ax0, 0)), b = p.get_phi(Bin(0, v + 1, ax0, 0));
          const double step = PI / c.nviews;
          if (!(b > a) || !(std::fabs((static_cast<double>(b) - a) - step) <= 16 * EPS32 * (PI + std::fabs(c.tilt))))
            {
              ctx.violation(K + ":phi-not-increasing-by-one-view-step", vf::fmt("view %d: %.9g, view %d: %.9g, step %.9g", v, a, v + 1, b, step));
              return false;
            }
          ++n;
        }
    }
  // m: strictly increasing in the axial position, symmetric range (documented: m(min) == -m(max)) for the cylindrical classes
  const std::vector<int> tangs = { tmin, 0 >= tmin && 0 <= tmax ? 0 : tmin, tmax };
  for (int seg = p.get_min_segment_num(); seg <= p.get_max_segment_num(); ++seg)
    {
      const int a0 = p.get_min_axial_pos_num(seg), a1 = p.get_max_axial_pos_num(seg);
      if (a1 < a0)
        continue;
      for (int ax = a0; ax < a1; ++ax)
        {
          const float m0 = p.get_m(Bin(seg, v0, ax, 0 >= tmin && 0 <= tmax ? 0 : tmin)), m1 = p.get_m(Bin(seg, v0, ax + 1, 0 >= tmin && 0 <= tmax ? 0 : tmin));
          if (!(m1 > m0))
            {
              ctx.violation(K + ":m-not-strictly-increasing-in-axial-position", vf::fmt("seg %d ax %d: %.9g, ax %d: %.9g", seg, ax, m0, ax + 1, m1));
              return false;
            }
          ++n;
        }
      if (cylclass)
        {
          const float ma = p.get_m(Bin(seg, v0, a0, 0)), mb = p.get_m(Bin(seg, v0, a1, 0));
          if (!(std::fabs(static_cast<double>(ma) + mb) <= 16 * EPS32 * c.scale_z))
            {
              ctx.violation(K + ":axial-positions-not-centred-on-the-scanner", vf::fmt("seg %d: m(min ax) %.9g, m(max ax) %.9g", seg, ma, mb));
              return false;
            }
        }
      // opposite segments: opposite obliqueness; obliqueness strictly increasing with the segment number
      if (seg > 0 && -seg >= p.get_min_segment_num() && c.cyl->get_min_ring_difference(-seg) == -c.cyl->get_max_ring_difference(seg)
          && c.cyl->get_max_ring_difference(-seg) == -c.cyl->get_min_ring_difference(seg) && p.get_min_axial_pos_num(-seg) == a0)
        for (int t : tangs)
          {
            const float tp = p.get_tantheta(Bin(seg, v0, a0, t)), tm = p.get_tantheta(Bin(-seg, v0, a0, t));
            const double band = (cylclass ? 4 : 96) * EPS32 * std::fabs(tp) + (cylclass ? 0 : 96 * EPS32 * c.scale_z / c.scale_r);
            if (!(std::fabs(static_cast<double>(tp) + tm) <= band))
              {
                ctx.violation(K + ":opposite-segments-not-opposite-tantheta", vf::fmt("seg %d tang %d: %.9g, seg %d: %.9g", seg, t, tp, -seg, tm));
                return false;
              }
            ++n;
          }
      if (cylclass && seg < p.get_max_segment_num() && p.get_max_axial_pos_num(seg + 1) >= p.get_min_axial_pos_num(seg + 1))
        for (int t : tangs)
          {
            const float ta = p.get_tantheta(Bin(seg, v0, a0, t)), tb = p.get_tantheta(Bin(seg + 1, v0, p.get_min_axial_pos_num(seg + 1), t));
            if (!(tb > ta))
              {
                ctx.violation(K + ":tantheta-not-strictly-increasing-in-segment", vf::fmt("seg %d tang %d: %.9g, seg %d: %.9g", seg, t, ta, seg + 1, tb));
                return false;
              }
            ++n;
          }
    }
  // TOF: k odd and strictly increasing in the TOF index, equal to index * mash * timing-bin size * c/2, bins centred on k
  if (p.is_tof_data())
    {
      const double w_ps = static_cast<double>(p.get_tof_mash_factor()) * c.sc->get_size_of_timing_pos();
      const double w_mm = w_ps * C_HALF_MM_PER_PS;
      for (int k = p.get_min_tof_pos_num(); k <= p.get_max_tof_pos_num(); ++k)
        {
          Bin b(0, v0, p.get_min_axial_pos_num(0), 0);
          b.timing_pos_num() = k;
          const float kk = p.get_k(b);
          Bin bm = b;
          bm.timing_pos_num() = -k;
          if (-k >= p.get_min_tof_pos_num() && -k <= p.get_max_tof_pos_num())
            {
              const float km = p.get_k(bm);
              if (!(std::fabs(static_cast<double>(kk) + km) <= 4 * EPS32 * std::fabs(kk)))
                {
                  ctx.violation(K + ":tof-distance-not-antisymmetric", vf::fmt("tof %d: %.9g, tof %d: %.9g", k, kk, -k, km));
                  return false;
                }
            }
          else
            {
              ctx.violation(K + ":tof-index-range-not-symmetric", vf::fmt("tof %d has no opposite bin", k));
              return false;
            }
          if (!(std::fabs(kk - k * w_mm) <= 16 * EPS32 * (std::fabs(k * w_mm) + w_mm)))
            {
              ctx.violation(K + ":tof-distance-differs-from-index-times-bin-width", vf::fmt("tof %d: get_k %.9g, expected %.9g mm", k, kk, k * w_mm));
              return false;
            }
          if (k < p.get_max_tof_pos_num())
            {
              Bin b1 = b;
              b1.timing_pos_num() = k + 1;
              if (!(p.get_k(b1) > kk))
                {
                  ctx.violation(K + ":tof-distance-not-strictly-increasing", vf::fmt("tof %d: %.9g, tof %d: %.9g", k, kk, k + 1, p.get_k(b1)));
                  return false;
                }
            }
          const float sk = p.get_sampling_in_k(b);
          if (!(std::fabs(sk - w_mm) <= 16 * EPS32 * (std::fabs(k * w_mm) + w_mm)))
            {
              ctx.violation(K + ":tof-sampling-differs-from-bin-width", vf::fmt("tof %d: %.9g vs %.9g", k, sk, w_mm));
              return false;
            }
          // a time difference clearly nearer to this bin's centre than to any other belongs to this bin
          const double t_c = p.get_tof_delta_time(b);
          for (double off : { -0.25, 0.0, 0.25 })
            {
              const int got = p.get_tof_bin(t_c + off * w_ps);
              if (got != k)
                {
                  ctx.violation(K + ":tof-bin-of-time-near-bin-centre-is-another-bin",
                                vf::fmt("tof %d centre %.9g ps, offset %+.2f bin widths (%.6g ps) -> get_tof_bin %d", k, t_c, off, w_ps, got));
                  return false;
                }
            }
          ++n;
          ctx.count("tof_bins_checked");
        }
    }
  ctx.count("symmetry_relations_checked", n);
  return true;
}

// ------------------------------------------------------------------ (4) arc correction
static bool
arc_correction_checks(Ctx& ctx, const Cfg& c)
{
  vf::Rng& rng = ctx.rng;
  const ProjDataInfoCylindricalNoArcCorr& p = *c.noarc;
  ArcCorrection ac;
  const double default_bs = c.sc->get_default_bin_size();
  const int mode = static_cast<int>(rng.range(0, 2));
  double ts = default_bs;
  Succeeded ok = Succeeded::no;
  if (mode == 0)
    ok = ac.set_up(c.pdi->create_shared_clone());
  else if (mode == 1)
    ok = ac.set_up(c.pdi->create_shared_clone(), static_cast<int>(rng.range(1, 2 * p.get_num_tangential_poss() + 3)));
  else
    {
      ts = static_cast<float>(default_bs * rng.uniform(0.5, 2.2));
      ok = ac.set_up(c.pdi->create_shared_clone(), static_cast<int>(rng.range(1, 2 * p.get_num_tangential_poss() + 3)), static_cast<float>(ts));
    }
  if (ok != Succeeded::yes)
    {
      ctx.violation("arc-correction-set_up-refuses-non-arc-corrected-cylindrical-data", vf::fmt("mode %d", mode));
      return false;
    }
  const ProjDataInfoCylindricalArcCorr& pa = ac.get_arc_corrected_proj_data_info();
  if (!(std::fabs(pa.get_tangential_sampling() - ts) <= 2 * EPS32 * ts))
    {
      ctx.violation("arc-correction-output-sampling-differs-from-request", vf::fmt("%.9g vs %.9g", pa.get_tangential_sampling(), ts));
      return false;
    }
  const int imin = p.get_min_tangential_pos_num(), imax = p.get_max_tangential_pos_num();
  const int omin = pa.get_min_tangential_pos_num(), omax = pa.get_max_tangential_pos_num();
  // bin edges in float64 from the physical model: non-arc-corrected bin j spans R sin((j -+ 1/2) pi/N), arc-corrected bin i spans (i -+ 1/2) ts
  std::vector<double> be(imax - imin + 2), ae(omax - omin + 2);
  for (int j = imin; j <= imax + 1; ++j)
    be[j - imin] = c.Reff * std::sin((j - 0.5) * PI / c.N);
  for (int i = omin; i <= omax + 1; ++i)
    ae[i - omin] = (i - 0.5) * ts;
  const double avg_in = (be.back() - be.front()) / (be.size() - 1), avg_out = (ae.back() - ae.front()) / (ae.size() - 1);
  const double eps_drop = std::min(avg_in, avg_out) / 10000 * 1.01; // overlap_interpolate ignores overlaps below this (its "epsilon")
  const double edge_err = 8 * EPS32 * c.Reff;                       // float32 evaluation of the edges

  const int seg = 0, ax = p.get_min_axial_pos_num(0);
  Sinogram<float> in = p.get_empty_sinogram(ax, seg, false, 0);
  const int nrows = p.get_num_views();
  std::vector<int> kind(nrows);
  std::vector<double> cval(nrows);
  for (int v = 0; v < nrows; ++v)
    {
      kind[v] = v % 3 == 0 ? 0 : 1; // 0: constant row, 1: random row
      cval[v] = rng.uniform(0.1, 50.);
      for (int j = imin; j <= imax; ++j)
        in[v + p.get_min_view_num()][j] = static_cast<float>(kind[v] == 0 ? cval[v] : (rng.coin(0.15) ? 0. : rng.uniform(0., 20.)));
    }
  Sinogram<float> out = ac.do_arc_correction(in);
  if (out.get_min_tangential_pos_num() != omin || out.get_max_tangential_pos_num() != omax || out.get_num_views() != nrows)
    {
      ctx.violation("arc-correction-output-has-unexpected-index-range", "");
      return false;
    }
  for (int v = 0; v < nrows; ++v)
    {
      const auto& rin = in[v + p.get_min_view_num()];
      const auto& rout = out[v + pa.get_min_view_num()];
      // float64 overlap interpolation of this row onto [a0,a1], with the band of a float32 evaluation of the same sum
      auto reference = [&](double a0, double a1, double& ref, double& band, int& nt) {
        double A = 0, slack = 0;
        ref = 0;
        nt = 0;
        for (int j = imin; j <= imax; ++j)
          {
            const double b0 = be[j - imin], b1 = be[j - imin + 1];
            const double ov = std::min(a1, b1) - std::max(a0, b0);
            const double v_in = rin[j];
            if (ov > -2 * edge_err)
              {
                // touches (within the float32 uncertainty of the edges)
                ++nt;
                slack += std::fabs(v_in) * 2 * edge_err;
                if (ov > 0)
                  {
                    ref += v_in * ov;
                    A += std::fabs(v_in) * ov;
                    if (ov <= 2 * eps_drop)
                      slack += std::fabs(v_in) * ov; // may be dropped by the documented epsilon rule of overlap_interpolate
                  }
              }
          }
        ref /= ts;
        band = vf::band32(nt + 2, A / ts) + slack / ts + 4 * EPS32 * std::fabs(ref);
      };
      double integral_got = 0, integral_band = 0;
      bool row_hit_by_defect = false;
      for (int i = omin; i <= omax; ++i)
        {
          const double a0 = ae[i - omin], a1 = ae[i - omin + 1];
          double ref, band;
          int nt;
          reference(a0, a1, ref, band, nt);
          const bool fully_covered = a0 >= be.front() + edge_err && a1 <= be.back() - edge_err;
          const double got = rout[i];
          if (!(std::fabs(got - ref) <= band))
            {
              if (i == omax)
                {
                  // one specific defect: the right edge of the last arc-corrected bin is placed at (max+1.5)*ts, one bin too far
                  double ref2, band2;
                  int nt2;
                  reference(a0, a1 + ts, ref2, band2, nt2);
                  if (std::fabs(got - ref2) <= band2)
                    {
                      if (!D.arccorr_last_bin)
                        {
                          D.arccorr_last_bin = true;
                          ctx.violation("arc-correction-last-output-bin-collects-two-bin-widths",
                                        vf::fmt("view %d (%s row), last arc-corrected bin %d = [%.6g,%.6g] mm: got %.9g, overlap reference %.9g (band %.3g); "
                                                "the value equals the reference for [%.6g,%.6g] (%.9g); input range [%.6g,%.6g], input bins %d..%d, "
                                                "output bins %d..%d, sampling %.6g",
                                                v, kind[v] == 0 ? "constant" : "random", i, a0, a1, got, ref, band, a0, a1 + ts, ref2, be.front(),
                                                be.back(), imin, imax, omin, omax, ts));
                        }
                      row_hit_by_defect = true;
                      continue;
                    }
                }
              ctx.violation(kind[v] == 0 ? "arc-correction-row-differs-from-overlap-reference-constant-row"
                                         : "arc-correction-row-differs-from-overlap-reference",
                            vf::fmt("view %d out tang %d: got %.9g, reference %.9g, band %.3g (ts %.6g, %d in bins touched)", v, i, got, ref, band, ts, nt));
              return false;
            }
          if (kind[v] == 0 && fully_covered && !(std::fabs(got - cval[v]) <= band + 4 * EPS32 * cval[v]))
            {
              ctx.violation("arc-correction-uniform-row-not-uniform-in-the-interior", vf::fmt("view %d out tang %d: %.9g, input constant %.9g", v, i, got, cval[v]));
              return false;
            }
          if (kind[v] == 0 && fully_covered)
            ctx.count("arc_correction_uniform_bins");
          integral_got += got * ts;
          integral_band += band * ts;
        }
      ctx.count("arc_correction_rows");
      if (row_hit_by_defect)
        continue;
      // integral over s: equals the integral of the input over the part of its range that the output covers
      double integral_in = 0;
      for (int j = imin; j <= imax; ++j)
        {
          const double lo = std::max(be[j - imin], ae.front()), hi = std::min(be[j - imin + 1], ae.back());
          if (hi > lo)
            integral_in += rin[j] * (hi - lo);
        }
      if (!(std::fabs(integral_got - integral_in) <= integral_band + 1e-9 * std::fabs(integral_in)))
        {
          ctx.violation("arc-correction-does-not-preserve-the-integral-over-s",
                        vf::fmt("view %d: sum out*ts %.9g, integral of input over covered range %.9g, band %.3g", v, integral_got, integral_in, integral_band));
          return false;
        }
      ctx.count("arc_correction_integrals");
      if (ae.front() <= be.front() && ae.back() >= be.back())
        ctx.count("arc_correction_rows_full_coverage");
    }
  return true;
}

// ------------------------------------------------------------------ generic scanner from a crystal map written here
static shared_ptr<Scanner>
make_generic_scanner(Ctx& ctx, const vg::ScannerSpec& s, std::vector<P3>& written)
{
  if (ctx.tmpdir.empty())
    throw vf::Skip("no tmpdir for the crystal map");
  const std::string fn = ctx.tmpdir + vf::fmt("/c12_map_%ld.txt", ctx.idx);
  const double psi0 = s.tilt; // rotation of the whole ring, baked into the map (a Generic scanner has no intrinsic tilt of its own)
  written.assign(static_cast<size_t>(s.ndet) * s.nrings, P3{ 0, 0, 0 });
  {
    std::ofstream f(fn);
    f.precision(9);
    const int lobes = static_cast<int>(ctx.rng.range(2, 5));
    const double amp = ctx.rng.uniform(0., 0.03);
    for (int r = 0; r < s.nrings; ++r)
      for (int d = 0; d < s.ndet; ++d)
        {
          const double psi = 2 * PI * d / s.ndet + psi0;
          const double rad = (s.radius + s.doi) * (1 + amp * std::sin(lobes * psi));
          const P3 q{ rad * std::sin(psi), -rad * std::cos(psi), (r - (s.nrings - 1) / 2.0) * s.ring_spacing };
          written[static_cast<size_t>(r) * s.ndet + d] = q;
          f << r << "," << d << "," << q.x << "," << q.y << "," << q.z << "\n";
        }
  }
  const int maxbins = std::min(s.ndet / 2 + 1, s.ndet - 1);
  const float trans_spacing = static_cast<float>(2 * PI * s.radius / s.ndet);
  shared_ptr<Scanner> sc(new Scanner(Scanner::User_defined_scanner, std::string("verif_gen_generic"), s.ndet, s.nrings, maxbins, maxbins, s.radius,
                                     s.doi, s.ring_spacing, s.bin_size, 0.f, 1, 1, 1, 1, 1, 1, 1, 0.14f, 511.f, static_cast<short>(-1), -1.f,
                                     -1.f, "Generic", s.ring_spacing, trans_spacing, s.ring_spacing, trans_spacing, fn));
  return sc;
}

// ------------------------------------------------------------------ case
static int
coprime_stride(long need, int a, int b, int c)
{
  long st = std::max<long>(1, need);
  while (std::gcd(st, static_cast<long>(std::max(1, a))) != 1 || std::gcd(st, static_cast<long>(std::max(1, b))) != 1
         || std::gcd(st, static_cast<long>(std::max(1, c))) != 1)
    ++st;
  return static_cast<int>(st);
}

static void
run_case(Ctx& ctx)
{
  vf::Rng& rng = ctx.rng;
  Cfg c;
  // every 4th case on average; drawn from the case's own stream so that the (much larger) predefined scanners are spread evenly
  // over the shards whatever the number of shards is (idx % 4 put all of them into the odd shards)
  const bool predefined = ctx.thorough() && rng.coin(0.25);
  vg::ScannerSpec ss;
  vg::PdiSpec ps;
  std::vector<P3> written;
  if (predefined)
    {
      const int ntypes = static_cast<int>(Scanner::User_defined_scanner);
      const Scanner::Type t = static_cast<Scanner::Type>(rng.range(0, ntypes - 1));
      c.sc.reset(new Scanner(t));
      ctx.desc.add("scanner", c.sc->get_name());
      if (t == Scanner::HiDAC)
        throw vf::Skip("HiDAC: sampling does not correspond to physical rings (documented)");
      if (c.sc->get_num_detectors_per_ring() % 2 || c.sc->get_num_detectors_per_ring() < 4)
        throw vf::Skip("predefined scanner without an even number of detectors per ring");
      ss.ndet = c.sc->get_num_detectors_per_ring();
      ss.nrings = c.sc->get_num_rings();
      ss.geom = c.sc->get_scanner_geometry();
      ss.tof_bins = c.sc->is_tof_ready() ? c.sc->get_max_num_timing_poss() : 0;
    }
  else
    {
      vg::ScannerOpts so;
      so.max_det = ctx.thorough() ? (rng.coin(0.1) ? 320 : 96) : 40;
      so.max_rings = ctx.thorough() ? 8 : 5;
      so.allow_blocks = true;
      so.p_tof = 0.35;
      ss = vg::gen_scanner(rng, so);
      if (ss.geom == "BlocksOnCylindrical" && rng.coin(0.35))
        ss.geom = "Generic";
      if (ss.geom != "Cylindrical")
        ss.tof_bins = 0; // the generic classes have no TOF support (get_bin: "does not support TOF yet")
      ctx.desc.add("scanner", ss.desc());
      try
        {
          if (ss.geom == "Generic")
            c.sc = make_generic_scanner(ctx, ss, written);
          else
            c.sc = vg::make_scanner(ss);
        }
      catch (const vf::Skip&)
        {
          throw;
        }
      catch (const std::exception& e)
        {
          throw vf::Skip(std::string("scanner rejected: ") + e.what());
        }
    }
  vg::PdiOpts po;
  po.allow_arccorr = true;
  ps = vg::gen_pdi(rng, ss, po);
  if (predefined)
    {
      const int maxt = ps.arccorr ? std::min(c.sc->get_default_num_arccorrected_bins(),
                                             static_cast<int>(2 * 0.9 * c.sc->get_effective_ring_radius() / c.sc->get_default_bin_size()))
                                  : c.sc->get_max_num_non_arccorrected_bins();
      ps.num_tang = rng.coin(0.3) ? static_cast<int>(rng.range(1, maxt)) : maxt;
      if (ss.tof_bins > 0)
        {
          // a TOF mashing factor giving an odd number of TOF bins (the library requires it), kept small for the big scanners
          std::vector<int> okm;
          for (int m = 1; m <= ss.tof_bins; ++m)
            if ((ss.tof_bins / m) % 2 == 1 && ss.tof_bins / m <= 13)
              okm.push_back(m);
          ps.tof_mash = okm.empty() || rng.coin(0.2) ? 0 : rng.pick(okm);
        }
    }
  if (ss.geom != "Cylindrical")
    {
      // ProjDataInfoGeneric documents: span=1 only, no view mashing, no arc-correction, no TOF
      ps.ge_mixed = false;
      ps.span = 1;
      ps.max_delta = static_cast<int>(rng.range(0, ss.nrings - 1));
      ps.num_views = ss.ndet / 2;
      ps.arccorr = false;
      ps.tof_mash = 0;
    }
  if (ps.arccorr)
    {
      // arc-corrected bins must lie inside the detector ring (get_LOR asserts |s| < R): keep the tangential range inside 0.95 R
      const double bs = c.sc->get_default_bin_size(), rr = c.sc->get_effective_ring_radius();
      while (ps.num_tang > 1 && (ps.num_tang / 2) * bs >= 0.95 * rr)
        --ps.num_tang;
    }
  try
    {
      c.pdi = vg::make_pdi(c.sc, ps, &rng);
    }
  catch (const std::exception& e)
    {
      throw vf::Skip(std::string("pdi rejected: ") + e.what());
    }
  ctx.desc.add("pdi", ps.desc());

  c.cyl = dynamic_cast<const ProjDataInfoCylindrical*>(c.pdi.get());
  c.gen = dynamic_cast<const ProjDataInfoGenericNoArcCorr*>(c.pdi.get());
  c.noarc = dynamic_cast<const ProjDataInfoCylindricalNoArcCorr*>(c.pdi.get());
  c.arc = dynamic_cast<const ProjDataInfoCylindricalArcCorr*>(c.pdi.get());
  c.blk = dynamic_cast<const ProjDataInfoBlocksOnCylindricalNoArcCorr*>(c.pdi.get());
  if (!c.cyl)
    throw vf::Skip("unexpected pdi class");
  if (c.gen)
    c.klass = c.sc->get_scanner_geometry() == "Generic" ? GENERIC : BLOCKS;
  else if (c.arc)
    c.klass = CYL_ARC;
  else if (c.noarc)
    c.klass = CYL_NOARC;
  else
    throw vf::Skip("unexpected pdi class");
  ctx.desc.add("class", kname(c.klass));

  c.N = c.sc->get_num_detectors_per_ring();
  c.R = c.sc->get_num_rings();
  c.nviews = c.pdi->get_num_views();
  c.mash = c.N / 2 / c.nviews;
  c.Reff = static_cast<double>(c.sc->get_inner_ring_radius()) + static_cast<double>(c.sc->get_average_depth_of_interaction());
  c.spacing = c.sc->get_ring_spacing();
  c.tilt = c.sc->get_intrinsic_azimuthal_tilt();
  c.dm.sc = c.sc.get();
  c.dm.from_map = c.gen != nullptr;
  c.dm.N = c.N;
  c.dm.R = c.R;
  c.dm.radius = c.Reff;
  c.dm.spacing = c.spacing;
  c.dm.tilt = c.tilt;
  c.scale_r = c.Reff;
  c.scale_z = c.R * c.spacing;

  const ProjDataInfo& p = *c.pdi;
  const int ntang = p.get_num_tangential_poss(), ntof = p.get_num_tof_poss();
  ctx.heartbeat("detector-map");

  // detector map of the generic classes: what was written is what is reported (3 decimals, documented), rings centred on z = 0
  if (c.gen)
    {
      double rmax = 0;
      for (int r = 0; r < c.R; ++r)
        for (int d = 0; d < c.N; ++d)
          {
            const P3 q = c.dm.pos(d, r);
            rmax = std::max(rmax, std::hypot(q.x, q.y));
            if (c.klass == GENERIC)
              {
                const P3& w = written[static_cast<size_t>(r) * c.N + d];
                const double tol = 0.0005 + 8 * EPS32 * (c.Reff + c.scale_z);
                if (std::fabs(q.x - w.x) > tol || std::fabs(q.y - w.y) > tol || std::fabs(q.z - w.z) > tol)
                  {
                    ctx.violation("generic:detector-map-differs-from-crystal-map-file",
                                  vf::fmt("det %d ring %d: file (%.6f,%.6f,%.6f) map (%.6f,%.6f,%.6f)", d, r, w.x, w.y, w.z, q.x, q.y, q.z));
                    return;
                  }
              }
            const P3 qo = c.dm.pos(d, c.R - 1 - r);
            if (std::fabs(q.z + qo.z) > 0.0011 + 8 * EPS32 * c.scale_z)
              {
                ctx.violation(std::string(kname(c.klass)) + ":detector-map-rings-not-centred-on-z0",
                              vf::fmt("det %d ring %d z %.6f, ring %d z %.6f", d, r, q.z, c.R - 1 - r, qo.z));
                return;
              }
            ctx.count("detector_map_entries_checked");
          }
      c.scale_r = rmax;
    }

  // ---- all bins (strided when there are more than the budget)
  std::vector<std::pair<int, int>> segax;
  for (int seg = p.get_min_segment_num(); seg <= p.get_max_segment_num(); ++seg)
    for (int ax = p.get_min_axial_pos_num(seg); ax <= p.get_max_axial_pos_num(seg); ++ax)
      segax.push_back({ seg, ax });
  const long total = static_cast<long>(segax.size()) * c.nviews * ntang * ntof;
  // bins per configuration before striding; a stage can lower it (the asan flavour is 20-50x slower) through C12_BIN_BUDGET
  long budget = ctx.thorough() ? 250000 : 60000;
  if (const char* e = std::getenv("C12_BIN_BUDGET"))
    if (std::atol(e) > 0)
      budget = std::atol(e);
  if (c.klass != CYL_ARC)
    {
      // the geometry check visits every contributing detector pair of a bin (view mashing x ring pairs of the axial compression:
      // thousands for the large predefined scanners with few views and a large span): bound bins x pairs per configuration.
      // (No effect below 40 detectors x 5 rings, i.e. on the quick tier.)
      long max_ring_diffs = 1;
      for (int seg = p.get_min_segment_num(); seg <= p.get_max_segment_num(); ++seg)
        max_ring_diffs = std::max<long>(max_ring_diffs, c.cyl->get_max_ring_difference(seg) - c.cyl->get_min_ring_difference(seg) + 1);
      const long pairs_per_bin = std::max<long>(1, c.mash) * ((max_ring_diffs + 1) / 2);
      const long pair_budget = 10000000;
      budget = std::min(budget, std::max<long>(2000, pair_budget / pairs_per_bin));
    }
  const int stride = total <= budget ? 1 : coprime_stride((total + budget - 1) / budget, ntof, ntang, c.nviews);
  ctx.desc.add("bins_total", total);
  ctx.desc.add("stride", stride);
  ctx.heartbeat("bins");

  RtStats rs;
  GeoStats gs;
  CartStats cs;
  D = Defects();
  std::vector<DetectionPositionPair<>> dps;
  const long offset = stride > 1 ? rng.range(0, stride - 1) : 0;
  for (long i = offset; i < total; i += stride)
    {
      long r = i;
      const int k = static_cast<int>(r % ntof) + p.get_min_tof_pos_num();
      r /= ntof;
      const int tg = static_cast<int>(r % ntang) + p.get_min_tangential_pos_num();
      r /= ntang;
      const int view = static_cast<int>(r % c.nviews) + p.get_min_view_num();
      r /= c.nviews;
      const auto& sa = segax[static_cast<size_t>(r)];
      Bin b(sa.first, view, sa.second, tg);
      b.timing_pos_num() = k;
      b.set_bin_value(1.f);
      if (!roundtrip(ctx, c, b, rs))
        return;
      if (!geometry(ctx, c, b, gs, dps))
        return;
      if (!cartesian_of_bin(ctx, c, b, cs))
        return;
    }
  ctx.count("bins_roundtripped", rs.done);
  ctx.count("roundtrip_exact", rs.exact);
  ctx.count("roundtrip_neighbour", rs.neigh);
  ctx.count("roundtrip_view_wrap", rs.wrap);
  ctx.count("lor_misses", rs.miss);
  ctx.count("lor_neighbour_outside_tangential_range", rs.miss_tang_edge);
  ctx.count("roundtrips_via_two_points", rs.as2points);
  ctx.count("bins_geometry_checked", gs.checked);
  ctx.count(std::string("bins_geometry_") + kname(c.klass), gs.checked);
  ctx.count("detector_pairs_in_geometry", gs.pairs);
  ctx.count("tantheta_vs_contributing_pairs", gs.tanth_pairs);
  ctx.count("tantheta_vs_segment_average", gs.tanth_segavg);
  ctx.count("phi_exact", gs.phi_exact);
  ctx.count("phi_within_half_view_step", gs.phi_halfstep);
  ctx.count("bins_without_contributors", gs.no_contrib);
  ctx.count("cart_bins_checked", cs.bins);
  ctx.count(std::string("cart_bins_") + kname(c.klass), cs.bins);
  ctx.count("cart_bins_oblique", cs.oblique);
  ctx.count("cart_points_vs_get_LOR", cs.vs_get_lor);
  ctx.count("cart_points_in_detector_order", cs.in_detector_order);
  ctx.count("cart_points_in_swapped_order", cs.swapped_order);
  ctx.count("cart_points_in_swapped_order_with_nonnegative_tof_bin", cs.swapped_order_tof_nonneg);
  ctx.count("cart_find_bin_exact", cs.find_exact);
  ctx.count("cart_find_bin_neighbour", cs.find_neigh);
  ctx.count("cart_find_bin_view_wrap", cs.find_wrap);
  if (cs.bins > 0 && c.tilt != 0)
    ctx.count("cart_cfg_tilt");
  if (cs.bins > 0 && p.is_tof_data())
    ctx.count("cart_cfg_tof");
  ctx.count(std::string("cfg_") + kname(c.klass));
  if (c.tilt != 0 || (c.klass == GENERIC && ss.tilt != 0))
    ctx.count("cfg_tilt");
  if (c.mash > 1)
    ctx.count("cfg_view_mashing");
  bool any_compressed = false;
  for (int seg = p.get_min_segment_num(); seg <= p.get_max_segment_num(); ++seg)
    any_compressed |= seg_compressed(c, seg);
  if (any_compressed)
    ctx.count("cfg_axial_compression");
  if (p.is_tof_data())
    ctx.count(p.get_tof_mash_factor() > 1 ? "cfg_tof_mashed" : "cfg_tof");
  if (predefined)
    ctx.count("cfg_predefined_scanner");
  if (stride > 1)
    ctx.count("cfg_strided");

  ctx.heartbeat("symmetry");
  if (!symmetry_checks(ctx, c))
    return;
  if (c.klass == CYL_NOARC)
    {
      ctx.heartbeat("arc-correction");
      if (!arc_correction_checks(ctx, c))
        return;
    }
  ctx.heartbeat("scanner-coordinates");
  if (!scanner_coordinate_checks(ctx, c))
    return;
  ctx.nontrivial = c.nviews >= 2 && ntang >= 3 && rs.done > 0 && gs.checked > 0;
}

int
main(int argc, char** argv)
{
  vg::quiet();
  return vf::verif_main(argc, argv, "C12", run_case);
}
