// C13: bin normalisation - apply and undo are inverse and match the bin efficiency (DESIGN.md §6 C13).
//
// For every normalisation class that can be constructed without external scanner files
//   Trivial, FromProjData, FromAttenuationImage, PETFromComponents, a harness-side table class derived from
//   BinNormalisationWithCalibration (exercises the BinNormalisation default apply/undo), Chained (1-3 members)
// (genuine defects get their own violation keys, see the "reports-trivial-but-zeroes-bins" and "default-ray-tracing-projector"
// keys below; every other failure keeps a generic <class>:<clause> key).  A chain of one member is built as (a, Trivial) /
// (Trivial, a): ChainedBinNormalisation documents two member objects, a null member is outside its documented use (its
// constructor dereferences both members) and outside the property statement, so it is not exercised.
// the monitor measures e_b := undo(ones)_b and checks
//   - e_b finite, > 0, bit-identical across repeated calls, symmetry groupings and the whole-ProjData overloads
//   - e_b == get_bin_efficiency(b) where the class implements it
//   - undo(x) == x*e, apply(x) == x/e, undo(apply(x)) == x          (float32, (2m+2) half-ulps, m = number of members)
//   - is_trivial() => apply/undo leave the data bit-identical
//   - chain: e == product of the members' e
//   - FromProjData: e == 1/factor, TOF data use the non-TOF factor of the same spatial bin
//   - attenuation: 1/e == exp(sum_v P_bv * mu_v * voxel_x/10)   (tight, same projection-matrix row, float64 + computed band)
//                  1/e in [exp(mu*L_lo/10), exp(mu*L_hi/10)] for a centred uniform cylinder, L = analytic chord of the
//                  cylinder of radius R -/+ half a voxel diagonal (physical, does not use STIR's projector)
#include "common/verif.h"
#include "common/gen.h"
#include "stir/ProjDataInMemory.h"
#include "stir/ExamInfo.h"
#include "stir/RelatedViewgrams.h"
#include "stir/Viewgram.h"
#include "stir/ViewSegmentNumbers.h"
#include "stir/DataSymmetriesForViewSegmentNumbers.h"
#include "stir/TrivialDataSymmetriesForViewSegmentNumbers.h"
#include "stir/recon_buildblock/TrivialDataSymmetriesForBins.h"
#include "stir/recon_buildblock/DataSymmetriesForBins_PET_CartesianGrid.h"
#include "stir/recon_buildblock/BinNormalisation.h"
#include "stir/recon_buildblock/TrivialBinNormalisation.h"
#include "stir/recon_buildblock/BinNormalisationFromProjData.h"
#include "stir/recon_buildblock/BinNormalisationFromAttenuationImage.h"
#include "stir/recon_buildblock/BinNormalisationPETFromComponents.h"
#include "stir/recon_buildblock/BinNormalisationWithCalibration.h"
#include "stir/recon_buildblock/ChainedBinNormalisation.h"
#include "stir/recon_buildblock/ProjMatrixByBinUsingRayTracing.h"
#include "stir/recon_buildblock/ProjMatrixElemsForOneBin.h"
#include "stir/recon_buildblock/ForwardProjectorByBinUsingProjMatrixByBin.h"
#include "stir/recon_buildblock/ForwardProjectorByBinUsingRayTracing.h"
#include "stir/ML_norm.h"
#include <cstring>

using namespace stir;
using vf::Ctx;
typedef shared_ptr<DataSymmetriesForViewSegmentNumbers> SymSptr;

static const double HALF_ULP = 5.9604644775390625e-08; // 2^-24

// ------------------------------------------------------------------------------------------------ bin layout
struct Layout
{
  shared_ptr<const ProjDataInfo> pdi;
  std::vector<Bin> bins; // canonical order: tof, segment, view, axial, tangential
  size_t size() const { return bins.size(); }
};

static Layout
make_layout(const shared_ptr<const ProjDataInfo>& pdi)
{
  Layout L;
  L.pdi = pdi;
  for (int k = pdi->get_min_tof_pos_num(); k <= pdi->get_max_tof_pos_num(); ++k)
    for (int seg = pdi->get_min_segment_num(); seg <= pdi->get_max_segment_num(); ++seg)
      for (int view = pdi->get_min_view_num(); view <= pdi->get_max_view_num(); ++view)
        for (int ax = pdi->get_min_axial_pos_num(seg); ax <= pdi->get_max_axial_pos_num(seg); ++ax)
          for (int tg = pdi->get_min_tangential_pos_num(); tg <= pdi->get_max_tangential_pos_num(); ++tg)
            {
              Bin b(seg, view, ax, tg);
              b.timing_pos_num() = k;
              L.bins.push_back(b);
            }
  return L;
}

static std::vector<float>
flatten(const ProjData& pd)
{
  std::vector<float> v;
  const ProjDataInfo& pdi = *pd.get_proj_data_info_sptr();
  for (int k = pdi.get_min_tof_pos_num(); k <= pdi.get_max_tof_pos_num(); ++k)
    for (int seg = pdi.get_min_segment_num(); seg <= pdi.get_max_segment_num(); ++seg)
      for (int view = pdi.get_min_view_num(); view <= pdi.get_max_view_num(); ++view)
        {
          const Viewgram<float> vg = pd.get_viewgram(view, seg, false, k);
          for (int ax = vg.get_min_axial_pos_num(); ax <= vg.get_max_axial_pos_num(); ++ax)
            for (int tg = vg.get_min_tangential_pos_num(); tg <= vg.get_max_tangential_pos_num(); ++tg)
              v.push_back(vg[ax][tg]);
        }
  return v;
}

static void
fill_from(ProjData& pd, const std::vector<float>& v)
{
  const ProjDataInfo& pdi = *pd.get_proj_data_info_sptr();
  size_t i = 0;
  for (int k = pdi.get_min_tof_pos_num(); k <= pdi.get_max_tof_pos_num(); ++k)
    for (int seg = pdi.get_min_segment_num(); seg <= pdi.get_max_segment_num(); ++seg)
      for (int view = pdi.get_min_view_num(); view <= pdi.get_max_view_num(); ++view)
        {
          Viewgram<float> vg = pd.get_empty_viewgram(view, seg, false, k);
          for (int ax = vg.get_min_axial_pos_num(); ax <= vg.get_max_axial_pos_num(); ++ax)
            for (int tg = vg.get_min_tangential_pos_num(); tg <= vg.get_max_tangential_pos_num(); ++tg)
              vg[ax][tg] = v.at(i++);
          if (pd.set_viewgram(vg) != Succeeded::yes)
            throw std::runtime_error("harness: set_viewgram failed");
        }
  if (i != v.size())
    throw std::runtime_error("harness: layout size mismatch");
}

static std::string
bins(const Bin& b)
{
  return vf::fmt("bin(seg%d,ax%d,view%d,tang%d,tof%d)", b.segment_num(), b.axial_pos_num(), b.view_num(), b.tangential_pos_num(),
                 b.timing_pos_num());
}

// first index at which the two vectors differ bitwise, -1 if none
static long
first_bit_diff(const std::vector<float>& a, const std::vector<float>& b)
{
  if (a.size() != b.size())
    return 0;
  for (size_t i = 0; i < a.size(); ++i)
    if (std::memcmp(&a[i], &b[i], sizeof(float)) != 0)
      return static_cast<long>(i);
  return -1;
}

// ------------------------------------------------------------------------------------------------ routes through the API
enum Op
{
  APPLY,
  UNDO
};

struct GroupingNotPartition : std::runtime_error
{
  explicit GroupingNotPartition(const std::string& s)
      : std::runtime_error(s)
  {}
};

// loop over related viewgrams exactly as utilities/correct_projdata.cxx does
static std::vector<float>
via_viewgrams(
    const BinNormalisation& norm, const Layout& L, const shared_ptr<const ExamInfo>& exam, const std::vector<float>& in, const SymSptr& symm, Op op)
{
  ProjDataInMemory src(exam, L.pdi);
  fill_from(src, in);
  ProjDataInMemory dst(exam, L.pdi);
  std::map<std::tuple<int, int, int>, int> visited;
  for (int k = L.pdi->get_min_tof_pos_num(); k <= L.pdi->get_max_tof_pos_num(); ++k)
    for (int seg = L.pdi->get_min_segment_num(); seg <= L.pdi->get_max_segment_num(); ++seg)
      for (int view = L.pdi->get_min_view_num(); view <= L.pdi->get_max_view_num(); ++view)
        {
          const ViewSegmentNumbers vs(view, seg);
          if (!symm->is_basic(vs))
            continue;
          RelatedViewgrams<float> rv = src.get_related_viewgrams(vs, symm, false, k);
          if (op == APPLY)
            norm.apply(rv);
          else
            norm.undo(rv);
          for (auto it = rv.begin(); it != rv.end(); ++it)
            ++visited[std::make_tuple(it->get_timing_pos_num(), it->get_segment_num(), it->get_view_num())];
          if (dst.set_related_viewgrams(rv) != Succeeded::yes)
            throw std::runtime_error("harness: set_related_viewgrams failed");
        }
  const size_t want = static_cast<size_t>(L.pdi->get_num_tof_poss()) * L.pdi->get_num_segments() * L.pdi->get_num_views();
  bool ok = visited.size() == want;
  for (auto& kv : visited)
    ok = ok && kv.second == 1;
  if (!ok)
    throw GroupingNotPartition(vf::fmt("%zu viewgrams visited, %zu exist", visited.size(), want));
  return flatten(dst);
}

// two symmetry groupings alternating on ONE normalisation object: for every (TOF, segment, view) the related viewgrams of that
// basic view/segment under grouping A are processed, then immediately those under grouping B (an application that serves two
// projectors with different symmetries from one normalisation object does exactly this).  Returns the two complete results.
static std::pair<std::vector<float>, std::vector<float>>
via_viewgrams_alternating(const BinNormalisation& norm, const Layout& L, const shared_ptr<const ExamInfo>& exam, const std::vector<float>& in,
                          const SymSptr& symm_a, const SymSptr& symm_b, Op op, long& same_basic_both)
{
  ProjDataInMemory src(exam, L.pdi);
  fill_from(src, in);
  ProjDataInMemory dst_a(exam, L.pdi), dst_b(exam, L.pdi);
  for (int k = L.pdi->get_min_tof_pos_num(); k <= L.pdi->get_max_tof_pos_num(); ++k)
    for (int seg = L.pdi->get_min_segment_num(); seg <= L.pdi->get_max_segment_num(); ++seg)
      for (int view = L.pdi->get_min_view_num(); view <= L.pdi->get_max_view_num(); ++view)
        {
          const ViewSegmentNumbers vs(view, seg);
          int n = 0;
          for (int which = 0; which < 2; ++which)
            {
              const SymSptr& symm = which == 0 ? symm_a : symm_b;
              if (!symm->is_basic(vs))
                continue;
              ++n;
              RelatedViewgrams<float> rv = src.get_related_viewgrams(vs, symm, false, k);
              if (op == APPLY)
                norm.apply(rv);
              else
                norm.undo(rv);
              if ((which == 0 ? dst_a : dst_b).set_related_viewgrams(rv) != Succeeded::yes)
                throw std::runtime_error("harness: set_related_viewgrams failed");
            }
          if (n == 2)
            ++same_basic_both;
        }
  return std::make_pair(flatten(dst_a), flatten(dst_b));
}

// the whole-ProjData overloads; symm null: the default argument is used
static std::vector<float>
via_projdata(
    const BinNormalisation& norm, const Layout& L, const shared_ptr<const ExamInfo>& exam, const std::vector<float>& in, const SymSptr& symm, Op op)
{
  ProjDataInMemory pd(exam, L.pdi);
  fill_from(pd, in);
  if (op == APPLY)
    {
      if (symm)
        norm.apply(pd, symm);
      else
        norm.apply(pd);
    }
  else
    {
      if (symm)
        norm.undo(pd, symm);
      else
        norm.undo(pd);
    }
  return flatten(pd);
}

// ------------------------------------------------------------------------------------------------ harness-side class
// A table of efficiencies behind BinNormalisationWithCalibration: uses BinNormalisation's default apply()/undo()
// (which are written in terms of get_bin_efficiency) and the calibration division.
class TableNorm : public BinNormalisationWithCalibration
{
public:
  TableNorm(const shared_ptr<ProjDataInMemory>& table_v)
      : table(table_v),
        table_is_tof(table_v->get_proj_data_info_sptr()->is_tof_data())
  {}
  std::string get_registered_name() const override { return "verif table"; }
  float get_uncalibrated_bin_efficiency(const Bin& bin) const override
  {
    Bin c(bin);
    if (!table_is_tof)
      c.timing_pos_num() = 0;
    return table->get_bin_value(c);
  }

private:
  shared_ptr<ProjDataInMemory> table;
  bool table_is_tof;
};

// ------------------------------------------------------------------------------------------------ object under test
struct Nut
{
  shared_ptr<BinNormalisation> norm;
  std::string cls;                // label used in keys and counters
  int members = 1;                // number of rounding members (tolerance)
  std::vector<SymSptr> groupings; // symmetry groupings that may be used with this object; [0] is the primary one
  bool default_symm_ok = true;    // may apply(ProjData&) be called with its default (trivial) symmetries
  bool zero_allowed_outside_fan = false; // PETFromComponents: bins outside the symmetric fan carry efficiency 0
  int half_fan = 0;
  bool any_zero_allowed = false; // PETFromComponents with geometric factors (model does not reach every pair)
};

static double
tol_rel(int members)
{
  return (2 * members + 2) * HALF_ULP;
}

static bool
close_rel(double got, double ref, double rel)
{
  if (std::isnan(got) || std::isnan(ref))
    return false;
  return std::fabs(got - ref) <= rel * std::fabs(ref) + 1e-37;
}

// key for "is_trivial() but the data changed": the component model zeroes the bins outside its symmetric fan
// (even number of tangential positions) even when every factor is 1 - kept apart from any other way of failing
static std::string
trivial_key(const Nut& nut, const Layout& L, const std::vector<float>& got, const std::vector<float>& x, const char* op)
{
  bool only_outside_fan = nut.zero_allowed_outside_fan;
  for (size_t i = 0; only_outside_fan && i < got.size(); ++i)
    if (std::memcmp(&got[i], &x[i], sizeof(float)) != 0
        && !(std::abs(L.bins[i].tangential_pos_num()) > nut.half_fan && (got[i] == 0.F || x[i] == 0.F)))
      only_outside_fan = false;
  if (only_outside_fan)
    return ":reports-trivial-but-zeroes-bins-outside-the-symmetric-fan";
  return std::string(":reports-trivial-but-") + op + "-changes-data";
}

// returns e (undo of ones); empty on violation
static std::vector<float>
check_norm(Ctx& ctx, const Nut& nut, const Layout& L, const shared_ptr<const ExamInfo>& exam, const std::vector<float>& x)
{
  const BinNormalisation& norm = *nut.norm;
  const std::string& c = nut.cls;
  vf::Rng& rng = ctx.rng;
  const size_t n = L.size();
  const std::vector<float> ones(n, 1.F);
  const std::vector<float> none;
  try
    {
      // ---- e := undo(ones), repeatable, independent of the grouping and of the overload
      const std::vector<float> e = via_viewgrams(norm, L, exam, ones, nut.groupings[0], UNDO);
      {
        const std::vector<float> e2 = via_viewgrams(norm, L, exam, ones, nut.groupings[0], UNDO);
        const long d = first_bit_diff(e, e2);
        if (d >= 0)
          {
            ctx.violation(c + ":efficiency-not-identical-across-repeated-calls",
                          bins(L.bins[d]) + vf::fmt(" first %.9g second %.9g", e[d], e2[d]));
            return none;
          }
      }
      for (size_t g = 1; g < nut.groupings.size(); ++g)
        {
          const std::vector<float> eg = via_viewgrams(norm, L, exam, ones, nut.groupings[g], UNDO);
          const long d = first_bit_diff(e, eg);
          ctx.count("symmetry_groupings_compared");
          if (d >= 0)
            {
              ctx.violation(c + ":undo-differs-between-symmetry-groupings",
                            bins(L.bins[d]) + vf::fmt(" grouping0 %.9g grouping%zu %.9g", e[d], g, eg[d]));
              return none;
            }
        }
      if (nut.groupings.size() >= 2)
        {
          size_t ga = static_cast<size_t>(rng.range(0, static_cast<long>(nut.groupings.size()) - 1));
          size_t gb = static_cast<size_t>(rng.range(0, static_cast<long>(nut.groupings.size()) - 2));
          if (gb >= ga)
            ++gb;
          if (nut.groupings.size() >= 4 && rng.coin(0.6))
            {
              // (the two groupings generated last are the complementary minimal pair when there is one)
              ga = nut.groupings.size() - 2;
              gb = nut.groupings.size() - 1;
              if (rng.coin())
                std::swap(ga, gb);
            }
          long both = 0;
          const auto ab = via_viewgrams_alternating(norm, L, exam, ones, nut.groupings[ga], nut.groupings[gb], UNDO, both);
          ctx.count("alternating_symmetry_groupings_runs");
          ctx.count("alternating_symmetry_groupings_same_basic_viewgram_under_both", both);
          for (int which = 0; which < 2; ++which)
            {
              const std::vector<float>& eg = which == 0 ? ab.first : ab.second;
              const long d = first_bit_diff(e, eg);
              if (d >= 0)
                {
                  ctx.violation(c + ":undo-differs-when-two-symmetry-groupings-alternate-on-one-object",
                                bins(L.bins[d]) + vf::fmt(" grouping0 alone %.9g, grouping%zu alternating with grouping%zu %.9g", e[d], which == 0 ? ga : gb,
                                                          which == 0 ? gb : ga, eg[d]));
                  return none;
                }
            }
        }
      {
        const SymSptr gs = nut.default_symm_ok && rng.coin(0.5) ? SymSptr() : rng.pick(nut.groupings);
        const std::vector<float> ep = via_projdata(norm, L, exam, ones, gs, UNDO);
        const long d = first_bit_diff(e, ep);
        ctx.count("projdata_overload_compared");
        if (d >= 0)
          {
            ctx.violation(c + ":undo-projdata-overload-differs-from-viewgrams",
                          bins(L.bins[d]) + vf::fmt(" viewgrams %.9g ProjData %.9g", e[d], ep[d]));
            return none;
          }
      }
      // ---- positive and finite
      long zeros = 0;
      for (size_t i = 0; i < n; ++i)
        {
          const bool outside_fan = nut.zero_allowed_outside_fan && std::abs(L.bins[i].tangential_pos_num()) > nut.half_fan;
          if (e[i] == 0.F && (outside_fan || nut.any_zero_allowed))
            {
              ++zeros;
              continue;
            }
          if (!(e[i] > 0.F) || !std::isfinite(e[i]))
            {
              ctx.violation(c + ":efficiency-not-positive", bins(L.bins[i]) + vf::fmt(" undo(1) = %.9g", e[i]));
              return none;
            }
        }
      if (zeros)
        ctx.count("zero_efficiency_bins_outside_symmetric_fan", zeros);
      // ---- get_bin_efficiency where implemented
      {
        bool implemented = true;
        try
          {
            (void)norm.get_bin_efficiency(L.bins[0]);
          }
        catch (const std::exception& ex)
          {
            if (std::string(ex.what()).find("not implemented") == std::string::npos)
              throw;
            implemented = false;
          }
        if (implemented)
          {
            const double rel = nut.members > 1 ? tol_rel(nut.members) : 0.;
            for (size_t i = 0; i < n; ++i)
              {
                const float g = norm.get_bin_efficiency(L.bins[i]);
                const bool ok = rel == 0. ? std::memcmp(&g, &e[i], sizeof(float)) == 0 || g == e[i] : close_rel(g, e[i], rel);
                if (!ok)
                  {
                    ctx.violation(c + ":get_bin_efficiency-differs-from-undo-of-ones",
                                  bins(L.bins[i]) + vf::fmt(" get_bin_efficiency %.9g undo(1) %.9g", g, e[i]));
                    return none;
                  }
              }
            ctx.count("efficiency_agreements", static_cast<long>(n));
            ctx.count("efficiency_agreements_" + c, static_cast<long>(n));
          }
        else
          ctx.count("efficiency_not_implemented_" + c);
      }
      // ---- undo multiplies by e
      const double rel = tol_rel(nut.members);
      {
        const std::vector<float> v = rng.coin(0.5) ? via_viewgrams(norm, L, exam, x, rng.pick(nut.groupings), UNDO)
                                                    : via_projdata(norm, L, exam, x, rng.pick(nut.groupings), UNDO);
        for (size_t i = 0; i < n; ++i)
          if (!close_rel(v[i], static_cast<double>(x[i]) * e[i], rel))
            {
              ctx.violation(c + ":undo-is-not-multiplication-by-efficiency",
                            bins(L.bins[i]) + vf::fmt(" x %.9g e %.9g undo(x) %.9g expected %.9g", x[i], e[i], v[i], double(x[i]) * e[i]));
              return none;
            }
        if (norm.is_trivial() && first_bit_diff(v, x) >= 0)
          {
            const long d = first_bit_diff(v, x);
            ctx.violation(c + trivial_key(nut, L, v, x, "undo"), bins(L.bins[d]) + vf::fmt(" is_trivial() is true, x %.9g undo(x) %.9g", x[d], v[d]));
            return none;
          }
      }
      // ---- apply divides by e
      const std::vector<float> a = via_viewgrams(norm, L, exam, x, nut.groupings[0], APPLY);
      long nonzero = 0;
      for (size_t i = 0; i < n; ++i)
        {
          if (e[i] == 0.F)
            continue;
          ++nonzero;
          if (!close_rel(a[i], static_cast<double>(x[i]) / e[i], rel))
            {
              ctx.violation(c + ":apply-is-not-division-by-efficiency",
                            bins(L.bins[i]) + vf::fmt(" x %.9g e %.9g apply(x) %.9g expected %.9g", x[i], e[i], a[i], double(x[i]) / e[i]));
              return none;
            }
        }
      if (norm.is_trivial())
        {
          ctx.count("trivial_identity_checks");
          ctx.count("trivial_identity_checks_" + c);
          const long d = first_bit_diff(a, x);
          if (d >= 0)
            {
              ctx.violation(c + trivial_key(nut, L, a, x, "apply"), bins(L.bins[d]) + vf::fmt(" is_trivial() is true, x %.9g apply(x) %.9g", x[d], a[d]));
              return none;
            }
        }
      for (size_t g = 1; g < nut.groupings.size(); ++g)
        {
          const std::vector<float> ag = via_viewgrams(norm, L, exam, x, nut.groupings[g], APPLY);
          const long d = first_bit_diff(a, ag);
          ctx.count("symmetry_groupings_compared");
          if (d >= 0)
            {
              ctx.violation(c + ":apply-differs-between-symmetry-groupings",
                            bins(L.bins[d]) + vf::fmt(" grouping0 %.9g grouping%zu %.9g", a[d], g, ag[d]));
              return none;
            }
        }
      if (nut.groupings.size() >= 2)
        {
          size_t ga = static_cast<size_t>(rng.range(0, static_cast<long>(nut.groupings.size()) - 1));
          size_t gb = static_cast<size_t>(rng.range(0, static_cast<long>(nut.groupings.size()) - 2));
          if (gb >= ga)
            ++gb;
          if (nut.groupings.size() >= 4 && rng.coin(0.6))
            {
              // (the two groupings generated last are the complementary minimal pair when there is one)
              ga = nut.groupings.size() - 2;
              gb = nut.groupings.size() - 1;
              if (rng.coin())
                std::swap(ga, gb);
            }
          long both = 0;
          const auto ab = via_viewgrams_alternating(norm, L, exam, x, nut.groupings[ga], nut.groupings[gb], APPLY, both);
          ctx.count("alternating_symmetry_groupings_runs");
          ctx.count("alternating_symmetry_groupings_same_basic_viewgram_under_both", both);
          for (int which = 0; which < 2; ++which)
            {
              const std::vector<float>& ag = which == 0 ? ab.first : ab.second;
              const long d = first_bit_diff(a, ag);
              if (d >= 0)
                {
                  ctx.violation(c + ":apply-differs-when-two-symmetry-groupings-alternate-on-one-object",
                                bins(L.bins[d]) + vf::fmt(" grouping0 alone %.9g, grouping%zu alternating with grouping%zu %.9g", a[d], which == 0 ? ga : gb,
                                                          which == 0 ? gb : ga, ag[d]));
                  return none;
                }
            }
        }
      {
        const SymSptr gs = nut.default_symm_ok && rng.coin(0.5) ? SymSptr() : rng.pick(nut.groupings);
        const std::vector<float> ap = via_projdata(norm, L, exam, x, gs, APPLY);
        const long d = first_bit_diff(a, ap);
        ctx.count("projdata_overload_compared");
        if (d >= 0)
          {
            ctx.violation(c + ":apply-projdata-overload-differs-from-viewgrams",
                          bins(L.bins[d]) + vf::fmt(" viewgrams %.9g ProjData %.9g", a[d], ap[d]));
            return none;
          }
      }
      // ---- apply followed by undo restores x where e != 0
      {
        const std::vector<float> u = rng.coin(0.5) ? via_viewgrams(norm, L, exam, a, rng.pick(nut.groupings), UNDO)
                                                    : via_projdata(norm, L, exam, a, rng.pick(nut.groupings), UNDO);
        for (size_t i = 0; i < n; ++i)
          {
            if (e[i] == 0.F)
              continue;
            if (!close_rel(u[i], x[i], rel))
              {
                ctx.violation(c + ":undo-after-apply-does-not-restore-data",
                              bins(L.bins[i]) + vf::fmt(" x %.9g e %.9g apply %.9g then undo %.9g", x[i], e[i], a[i], u[i]));
                return none;
              }
          }
        ctx.count("apply_undo_roundtrips", nonzero);
      }
      ctx.count("bins_checked_" + c, static_cast<long>(n));
      ctx.count("bins_checked", static_cast<long>(n));
      return e;
    }
  catch (const GroupingNotPartition& ex)
    {
      ctx.violation(c + ":symmetry-grouping-is-not-a-partition-of-the-viewgrams", ex.what());
      return none;
    }
}

// ------------------------------------------------------------------------------------------------ builders
struct World
{
  vg::ScannerSpec ss;
  vg::PdiSpec ps;
  shared_ptr<Scanner> scanner;
  shared_ptr<ProjDataInfo> pdi; // geometry of the data
  shared_ptr<ExamInfo> exam;
  Layout L;
  std::vector<SymSptr> plain_groupings; // groupings usable with objects that do not project
  shared_ptr<VoxelsOnCartesianGrid<float>> sym_image; // image used for the PET symmetries (may be null)
  bool want_default_projector = false; // attenuation_cylinder: use the class's default on-the-fly ray tracing projector
  float dp_ratio = 1.F;                // ... voxel size ratio (large/small) and half image size chosen with the scanner
  int dp_half = 11;
};

static void
fill_positive(ProjDataInMemory& pd, vf::Rng& rng, double lo, double hi)
{
  const double llo = std::log(lo), lhi = std::log(hi);
  for (auto it = pd.begin_all(); it != pd.end_all(); ++it)
    *it = static_cast<float>(std::exp(rng.uniform(llo, lhi)));
}

struct Leaf
{
  shared_ptr<BinNormalisation> norm;
  std::string cls;
  bool constant = false;                      // all factors equal (trivial class)
  shared_ptr<ForwardProjectorByBin> fwd;      // attenuation only
  std::function<bool(Ctx&, const std::vector<float>&)> extra; // class specific oracle on e; false on violation
  bool zero_outside_fan = false;
  int half_fan = 0;
  bool any_zero = false;
  bool calibrated = false;
};

static Leaf
make_trivial(Ctx& ctx, World&, vf::Desc& d)
{
  Leaf l;
  l.norm.reset(new TrivialBinNormalisation);
  l.cls = "trivial";
  l.constant = true;
  d.add("class", "Trivial");
  l.extra = [](Ctx& ctx, const std::vector<float>& e) {
    for (size_t i = 0; i < e.size(); ++i)
      if (e[i] != 1.F)
        {
          ctx.violation("trivial:efficiency-is-not-one", vf::fmt("index %zu e %.9g", i, e[i]));
          return false;
        }
    return true;
  };
  (void)ctx;
  return l;
}

static Leaf
make_projdata(Ctx& ctx, World& w, vf::Desc& d)
{
  vf::Rng& rng = ctx.rng;
  Leaf l;
  l.cls = "projdata";
  d.add("class", "FromProjData");
  const bool data_tof = w.pdi->is_tof_data();
  const bool norm_tof = data_tof && rng.coin(0.3);
  // optionally the factors cover more segments than the data (documented: data may be "smaller")
  shared_ptr<ProjDataInfo> npdi;
  bool more_segments = false;
  if (w.ps.reduce_segments >= 0 && rng.coin(0.5))
    {
      vg::PdiSpec ps2 = w.ps;
      ps2.reduce_segments = -1;
      npdi = vg::make_pdi(w.scanner, ps2, nullptr);
      more_segments = npdi->get_max_segment_num() > w.pdi->get_max_segment_num();
    }
  else
    npdi = w.pdi->create_shared_clone();
  if (!norm_tof && data_tof)
    npdi = npdi->create_non_tof_clone();
  d.add("factors_tof", norm_tof).add("factors_have_more_segments", more_segments);
  shared_ptr<ProjDataInMemory> factors(new ProjDataInMemory(w.exam, npdi));
  fill_positive(*factors, rng, 0.2, 5.);
  l.norm.reset(new BinNormalisationFromProjData(factors));
  if (data_tof && !norm_tof)
    ctx.count("cfg_tof_data_nontof_factors");
  if (norm_tof)
    ctx.count("cfg_tof_factors");
  if (more_segments)
    ctx.count("cfg_factors_more_segments");
  const Layout* Lp = &w.L;
  const std::string suffix = data_tof && !norm_tof ? "(tof-data-nontof-factors)" : (norm_tof ? "(tof-factors)" : "");
  l.extra = [factors, Lp, norm_tof, suffix](Ctx& ctx, const std::vector<float>& e) {
    for (size_t i = 0; i < e.size(); ++i)
      {
        Bin b = Lp->bins[i];
        if (!norm_tof)
          b.timing_pos_num() = 0;
        const float f = factors->get_bin_value(b);
        const float want = 1.F / f;
        if (e[i] != want)
          {
            ctx.violation("projdata:efficiency-is-not-reciprocal-of-the-factor-of-this-bin" + suffix,
                          bins(Lp->bins[i]) + vf::fmt(" factor %.9g undo(1) %.9g expected %.9g", f, e[i], want));
            return false;
          }
      }
    ctx.count("projdata_factor_agreements", static_cast<long>(e.size()));
    return true;
  };
  return l;
}

static Leaf
make_table(Ctx& ctx, World& w, vf::Desc& d)
{
  vf::Rng& rng = ctx.rng;
  Leaf l;
  l.cls = "calibrated";
  l.calibrated = true;
  d.add("class", "WithCalibration(table)");
  const bool data_tof = w.pdi->is_tof_data();
  const bool table_tof = data_tof && rng.coin(0.4);
  shared_ptr<ProjDataInfo> tpdi = (data_tof && !table_tof) ? w.pdi->create_non_tof_clone() : w.pdi->create_shared_clone();
  shared_ptr<ProjDataInMemory> table(new ProjDataInMemory(w.exam, tpdi));
  fill_positive(*table, rng, 0.2, 5.);
  const float calib = rng.coin(0.25) ? 1.F : static_cast<float>(rng.uniform(0.1, 20.));
  d.add("table_tof", table_tof).add("calibration_factor", calib);
  shared_ptr<TableNorm> t(new TableNorm(table));
  t->set_calibration_factor(calib);
  l.norm = t;
  const Layout* Lp = &w.L;
  l.extra = [table, Lp, table_tof, calib](Ctx& ctx, const std::vector<float>& e) {
    for (size_t i = 0; i < e.size(); ++i)
      {
        Bin b = Lp->bins[i];
        if (!table_tof)
          b.timing_pos_num() = 0;
        const float want = table->get_bin_value(b) / calib;
        if (e[i] != want)
          {
            ctx.violation("calibrated:efficiency-is-not-table-value-over-calibration-factor",
                          bins(Lp->bins[i]) + vf::fmt(" undo(1) %.9g expected %.9g", e[i], want));
            return false;
          }
      }
    return true;
  };
  return l;
}

// can BinNormalisationPETFromComponents model this geometry? (documented: no compression; ML_norm: cylindrical, no TOF)
static bool
components_possible(const World& w)
{
  return w.ss.geom == "Cylindrical" && !w.pdi->is_tof_data() && w.ps.span == 1 && !w.ps.ge_mixed && !w.ps.arccorr
         && w.ps.num_views == w.ss.ndet / 2 && w.ps.num_tang >= 3;
}

static Leaf
make_components(Ctx& ctx, World& w, vf::Desc& d)
{
  vf::Rng& rng = ctx.rng;
  Leaf l;
  l.cls = "components";
  d.add("class", "PETFromComponents");
  const int nblocks_tr = w.ss.ndet / w.ss.trans_per_block;
  bool do_eff = rng.coin(0.8);
  // geometric factors are stored for half a block: needs an even number of crystals per block
  bool do_geo = (w.ss.trans_per_block % 2 == 0) && rng.coin(0.5);
  // block factors: FanProjData needs an even number (>=4) of transaxial blocks
  bool do_block = (nblocks_tr % 2 == 0) && nblocks_tr >= 4 && rng.coin(0.4);
  const bool all_ones = rng.coin(0.1);
  const bool per_block = rng.coin(0.5);
  d.add("do_eff", do_eff).add("do_geo", do_geo).add("do_block", do_block).add("all_ones", all_ones).add("symmetry_per_block", per_block);
  shared_ptr<BinNormalisationPETFromComponents> n(new BinNormalisationPETFromComponents);
  n->allocate(w.pdi, do_eff, do_geo, do_block, per_block);
  // factors are kept away from 1 (is_trivial() documents a tolerance of 1e-4) or are exactly 1
  auto val = [&]() -> float { return all_ones ? 1.F : static_cast<float>(rng.coin(0.5) ? rng.uniform(0.4, 0.9) : rng.uniform(1.1, 2.5)); };
  if (do_eff)
    for (auto it = n->crystal_efficiencies().begin_all(); it != n->crystal_efficiencies().end_all(); ++it)
      *it = val();
  if (do_geo)
    for (auto it = n->geometric_factors().begin_all(); it != n->geometric_factors().end_all(); ++it)
      *it = val();
  if (do_block)
    {
      BlockData3D& bd = n->block_factors();
      for (int ra = bd.get_min_ra(); ra <= bd.get_max_ra(); ++ra)
        for (int a = bd.get_min_a(); a <= bd.get_max_a(); ++a)
          for (int rb = std::max(ra, bd.get_min_rb(ra)); rb <= bd.get_max_rb(ra); ++rb)
            for (int b = bd.get_min_b(a); b <= bd.get_max_b(a); ++b)
              bd(ra, a, rb, b) = val();
    }
  l.norm = n;
  l.constant = all_ones || (!do_eff && !do_geo && !do_block);
  l.zero_outside_fan = true;
  l.half_fan = std::min(w.pdi->get_max_tangential_pos_num(), -w.pdi->get_min_tangential_pos_num());
  l.any_zero = false;
  if (l.constant)
    ctx.count("cfg_components_all_one");
  // independent model for the efficiencies-only case: e = eff(ra,a)*eff(rb,b)
  if (do_eff && !do_geo && !do_block)
    {
      const Layout* Lp = &w.L;
      const int half_fan = l.half_fan;
      l.extra = [n, Lp, half_fan](Ctx& ctx, const std::vector<float>& e) {
        const auto& pdi = dynamic_cast<const ProjDataInfoCylindricalNoArcCorr&>(*Lp->pdi);
        for (size_t i = 0; i < e.size(); ++i)
          {
            const Bin& b = Lp->bins[i];
            if (std::abs(b.tangential_pos_num()) > half_fan)
              continue;
            int a = 0, ra = 0, bb = 0, rb = 0;
            pdi.get_det_pair_for_bin(a, ra, bb, rb, b);
            const double want = static_cast<double>(n->crystal_efficiencies()[ra][a]) * n->crystal_efficiencies()[rb][bb];
            if (!close_rel(e[i], want, 4 * HALF_ULP))
              {
                ctx.violation("components:efficiency-is-not-product-of-crystal-efficiencies",
                              bins(b) + vf::fmt(" undo(1) %.9g eff(%d,%d)*eff(%d,%d) = %.9g", e[i], ra, a, rb, bb, want));
                return false;
              }
          }
        ctx.count("components_model_agreements", static_cast<long>(e.size()));
        return true;
      };
    }
  return l;
}

// ---- attenuation
struct Atten
{
  shared_ptr<VoxelsOnCartesianGrid<float>> mu;
  shared_ptr<ProjMatrixByBinUsingRayTracing> pm;
  shared_ptr<ForwardProjectorByBin> fwd;
  int num_tang_lors = 1;
  // physical phantom
  bool cylinder = false;
  double R = 0, mu0 = 0;
};

static bool
atten_possible(const World& w)
{
  return w.ss.geom == "Cylindrical" && !w.pdi->is_tof_data() && !w.ps.ge_mixed;
}

static Leaf
make_atten(Ctx& ctx, World& w, vf::Desc& d, bool physical)
{
  vf::Rng& rng = ctx.rng;
  Leaf l;
  l.cls = "attenuation";
  d.add("class", "FromAttenuationImage");
  shared_ptr<Atten> at(new Atten);
  // image grid: x/y voxel = bin size / zoom, z voxel = ring spacing / 2 (what the library derives from the data geometry)
  const bool dp = physical && w.want_default_projector;
  const bool aniso = dp ? w.dp_ratio > 1.F : rng.coin(0.5);
  const float ratio = dp ? w.dp_ratio : (aniso ? static_cast<float>(rng.uniform(1.4, 1.8)) : 1.F); // larger voxel / smaller voxel
  const bool x_is_large = rng.coin(0.5);
  const float bin = w.scanner->get_default_bin_size();
  const float inner = w.scanner->get_inner_ring_radius();
  float zx, zy;
  int hx, hy;
  if (dp)
    {
      // on-the-fly ray tracing projector: square index range (it addresses the image with x and y exchanged),
      // voxels at least as large as the tangential sampling (the scanner was generated accordingly)
      const float v_small = static_cast<float>(0.9 * inner / w.dp_half * rng.uniform(0.9, 1.));
      const float v_large = v_small * ratio;
      zx = bin / (x_is_large ? v_large : v_small);
      zy = bin / (x_is_large ? v_small : v_large);
      hx = hy = w.dp_half;
    }
  else if (physical)
    {
      // the cylinder needs >= 9 (large) voxels of radius inside the FOV, the FOV stays inside 0.9 * inner ring radius
      const int h_large = static_cast<int>(rng.range(11, ctx.thorough() ? 15 : 13));
      const float v_large = static_cast<float>(0.9 * inner / h_large * rng.uniform(0.75, 1.));
      const float z_large = bin / v_large, z_small = z_large * ratio;
      const int h_small = static_cast<int>(std::floor(h_large * ratio));
      zx = x_is_large ? z_large : z_small;
      zy = x_is_large ? z_small : z_large;
      hx = x_is_large ? h_large : h_small;
      hy = x_is_large ? h_small : h_large;
    }
  else
    {
      const float z_large = static_cast<float>(rng.uniform(0.8, 3.)), z_small = z_large * ratio;
      zx = x_is_large ? z_large : z_small;
      zy = x_is_large ? z_small : z_large;
      const float vx0 = bin / zx, vy0 = bin / zy;
      hx = static_cast<int>(std::floor(0.9 * inner / vx0));
      hy = static_cast<int>(std::floor(0.9 * inner / vy0));
      const int cap = ctx.thorough() ? 20 : 14;
      hx = std::min(hx, cap);
      hy = std::min(hy, cap);
      if (hx < 2 || hy < 2)
        throw vf::Skip("image does not fit inside the scanner");
      hx = static_cast<int>(rng.range(2, hx));
      hy = rng.coin(0.5) ? std::min(hx, hy) : static_cast<int>(rng.range(2, hy));
    }
  const float maxv = std::max(bin / zx, bin / zy);
  // z: default number of planes (+2 for the physical phantom so that every tube of response lies inside the object)
  CartesianCoordinate3D<int> sizes(-1, 2 * hy + 1, 2 * hx + 1);
  {
    VoxelsOnCartesianGrid<float> probe(w.exam, *w.pdi, CartesianCoordinate3D<float>(1.F, zy, zx), CartesianCoordinate3D<float>(0.F, 0.F, 0.F),
                                       CartesianCoordinate3D<int>(-1, 3, 3));
    sizes.z() = probe.get_z_size() + (physical ? 2 : (rng.coin(0.3) ? 2 : 0));
  }
  at->mu.reset(new VoxelsOnCartesianGrid<float>(w.exam, *w.pdi, CartesianCoordinate3D<float>(1.F, zy, zx),
                                                CartesianCoordinate3D<float>(0.F, 0.F, 0.F), sizes));
  VoxelsOnCartesianGrid<float>& mu = *at->mu;
  const CartesianCoordinate3D<float> vs = mu.get_voxel_size();
  d.add("voxel_x", vs.x()).add("voxel_y", vs.y()).add("voxel_z", vs.z()).add("nx", mu.get_x_size()).add("ny", mu.get_y_size()).add(
      "nz", mu.get_z_size());
  ctx.count(std::fabs(vs.x() - vs.y()) > 1e-3 ? "cfg_anisotropic_grid" : "cfg_isotropic_grid");
  if (physical)
    {
      const double fovrad = std::min(hx * vs.x(), hy * vs.y());
      const double diag = std::sqrt(double(vs.x()) * vs.x() + double(vs.y()) * vs.y());
      const double Rmax = fovrad - diag / 2 - 0.01 * maxv;
      const double Rmin = 9. * maxv;
      if (Rmax < Rmin)
        throw vf::Skip("no room for the cylinder");
      at->cylinder = true;
      at->R = rng.uniform(Rmin, Rmax);
      at->mu0 = rng.uniform(0.03, 0.2);
      const float m = static_cast<float>(at->mu0);
      at->mu0 = m;
      for (int z = mu.get_min_z(); z <= mu.get_max_z(); ++z)
        for (int y = mu.get_min_y(); y <= mu.get_max_y(); ++y)
          for (int x = mu.get_min_x(); x <= mu.get_max_x(); ++x)
            {
              const double px = double(x) * vs.x(), py = double(y) * vs.y();
              mu[z][y][x] = (px * px + py * py <= at->R * at->R) ? m : 0.F;
            }
      d.add("cylinder_radius_mm", at->R).add("cylinder_mu", at->mu0);
    }
  else
    {
      const double pz = rng.uniform(0., 0.5);
      const double hi = rng.uniform(0.05, 0.25);
      for (auto it = mu.begin_all(); it != mu.end_all(); ++it)
        *it = rng.coin(pz) ? 0.F : static_cast<float>(rng.uniform(0., hi));
      d.add("mu_max", hi).add("mu_p_zero", pz);
    }
  // the projector the class uses when none is given (on-the-fly ray tracing): documented restrictions are an even number
  // of views and no view offset; it has no matrix rows, so only the physical oracle applies
  // and x,y voxel sizes at least the tangential sampling (used here on square isotropic grids only)
  const bool default_projector = physical && w.want_default_projector && w.pdi->get_num_views() % 2 == 0
                                 && std::fabs(w.pdi->get_phi(Bin(0, 0, 0, 0))) < 1.E-4F
                                 && w.pdi->get_sampling_in_s(Bin(0, 0, 0, 0)) <= std::min(vs.x(), vs.y()) && hx == hy;
  d.add("projector", default_projector ? "ForwardProjectorByBinUsingRayTracing" : "ForwardProjectorByBinUsingProjMatrixByBin(RayTracing)");
  if (default_projector)
    {
      ctx.count("cfg_default_ray_tracing_projector");
      at->fwd.reset(new ForwardProjectorByBinUsingRayTracing);
    }
  else
    {
  at->pm.reset(new ProjMatrixByBinUsingRayTracing);
  const bool s90 = rng.coin(0.6), s180 = rng.coin(0.7), sseg = rng.coin(0.7), ss_ = rng.coin(0.7), sz = rng.coin(0.7);
  at->pm->set_do_symmetry_90degrees_min_phi(s90);
  at->pm->set_do_symmetry_180degrees_min_phi(s180);
  at->pm->set_do_symmetry_swap_segment(sseg);
  at->pm->set_do_symmetry_swap_s(ss_);
  at->pm->set_do_symmetry_shift_z(sz);
  at->num_tang_lors = rng.coin(0.6) ? 1 : static_cast<int>(rng.range(2, 3));
  at->pm->set_num_tangential_LORs(at->num_tang_lors);
  const bool cylfov = rng.coin(0.75);
  at->pm->set_restrict_to_cylindrical_FOV(cylfov);
  const bool cache = rng.coin(0.7), basic_only = rng.coin(0.5);
  at->pm->enable_cache(cache);
  at->pm->store_only_basic_bins_in_cache(basic_only);
  d.add("sym90", s90).add("sym180", s180).add("sym_swap_segment", sseg).add("sym_swap_s", ss_).add("sym_shift_z", sz);
  d.add("num_tangential_LORs", at->num_tang_lors).add("cylindrical_FOV", cylfov).add("cache", cache).add("cache_basic_only", basic_only);
  at->fwd.reset(new ForwardProjectorByBinUsingProjMatrixByBin(at->pm));
    }
  l.norm.reset(new BinNormalisationFromAttenuationImage(at->mu, at->fwd));
  l.fwd = at->fwd;
  const Layout* Lp = &w.L;
  l.extra = [at, Lp](Ctx& ctx, const std::vector<float>& e) {
    const VoxelsOnCartesianGrid<float>& mu = *at->mu;
    const CartesianCoordinate3D<float> vs = mu.get_voxel_size();
    const float rescale = vs.x() / 10; // documented: cm^-1 -> (x-)pixel units, the projectors work in pixel units
    ProjMatrixElemsForOneBin row;
    long tight = 0, phys = 0, phys_nonzero = 0;
    bool last_plane_defect_reported = false, view_3n4_defect_reported = false;
    // validation aid only (planted-bug runs): lets the physical oracle be exercised on its own
    static const bool skip_tight = getenv("C13_SKIP_TIGHT") != nullptr;
    const double diag = std::sqrt(double(vs.x()) * vs.x() + double(vs.y()) * vs.y());
    for (size_t i = 0; i < e.size(); ++i)
      {
        const Bin& b = Lp->bins[i];
        const double acf = 1. / static_cast<double>(e[i]);
        if (at->pm && !skip_tight)
          {
        at->pm->get_proj_matrix_elems_for_one_bin(row, b);
        double Lsum = 0, A = 0;
        long nel = 0;
        for (auto it = row.begin(); it != row.end(); ++it)
          {
            const int z = it->coord1(), y = it->coord2(), x = it->coord3();
            if (z < mu.get_min_z() || z > mu.get_max_z())
              continue; // the forward projector skips planes outside the image
            if (y < mu.get_min_y() || y > mu.get_max_y() || x < mu.get_min_x() || x > mu.get_max_x())
              {
                ctx.violation("attenuation:matrix-row-leaves-the-image-in-plane", bins(b) + vf::fmt(" voxel (%d,%d,%d)", z, y, x));
                return false;
              }
            const double term = static_cast<double>(it->get_value()) * static_cast<double>(mu[z][y][x]) * static_cast<double>(rescale);
            Lsum += term;
            A += std::fabs(term);
            ++nel;
          }
        const double band = vf::band32(static_cast<double>(nel) + 2, A);
        const double ref = std::exp(Lsum);
        if (!(std::fabs(acf - ref) <= ref * (std::expm1(band) + 8 * vf::EPS32)))
          {
            ctx.violation("attenuation:factor-is-not-exp-of-line-integral(tight)",
                          bins(b) + vf::fmt(" 1/undo(1) %.9g exp(sum P*mu*vx/10) %.9g line integral %.9g band %.3g elements %ld", acf, ref,
                                            Lsum, band, nel));
            return false;
          }
        ++tight;
          }
        if (at->cylinder)
          {
            // analytic chord of the centred cylinder; voxelised disc lies between the discs of radius R -/+ diag/2
            const double s = std::fabs(static_cast<double>(Lp->pdi->get_s(b)));
            const double tanth = Lp->pdi->get_tantheta(b);
            const double inv_cos = std::sqrt(1 + tanth * tanth);
            const double ds = at->num_tang_lors > 1
                                  ? 0.5 * Lp->pdi->get_sampling_in_s(b) * (at->num_tang_lors - 1) / double(at->num_tang_lors) * 1.0001 + 1e-4
                                  : 1e-4 * (1 + s);
            const double s_lo = std::max(0., s - ds), s_hi = s + ds;
            const double Rlo = at->R - diag / 2, Rhi = at->R + diag / 2;
            const double L_lo = Rlo > s_hi ? 2 * std::sqrt(Rlo * Rlo - s_hi * s_hi) * inv_cos : 0.;
            const double L_hi = Rhi > s_lo ? 2 * std::sqrt(Rhi * Rhi - s_lo * s_lo) * inv_cos : 0.;
            const double x_lo = at->mu0 * L_lo / 10, x_hi = at->mu0 * L_hi / 10;
            const double slack = std::expm1(vf::band32(2. * (mu.get_x_size() + mu.get_y_size() + mu.get_z_size()), x_hi)) + 8 * vf::EPS32;
            if (!(acf >= std::exp(x_lo) * (1 - slack) && acf <= std::exp(x_hi) * (1 + slack)))
              {
                // second defect of that projector with its own key: unequal x/y voxel sizes (no 90-degree symmetry), number
                // of views a multiple of 4: view 3n/4 is never written (factor exactly 1 for a line through the cylinder)
                const int nv = Lp->pdi->get_num_views();
                if (!at->pm && std::fabs(vs.x() - vs.y()) > 2.E-3F && nv % 4 == 0 && b.view_num() == 3 * nv / 4 && e[i] == 1.F && L_lo > 0)
                  {
                    if (!view_3n4_defect_reported)
                      ctx.violation("attenuation:default-ray-tracing-projector-leaves-view-3n/4-zero-on-unequal-xy-voxels",
                                    bins(b)
                                        + vf::fmt(" s %.6g mm: 1/undo(1) %.9g, analytic chord in [%.6g, %.6g] mm -> factor in [%.9g, %.9g]; "
                                                  "voxel %g x %g mm, %d views",
                                                  s, acf, L_lo, L_hi, std::exp(x_lo), std::exp(x_hi), vs.x(), vs.y(), nv));
                    view_3n4_defect_reported = true;
                    continue;
                  }
                // one defect of the on-the-fly ray tracing projector gets its own key (and does not stop the sweep):
                // direct sinogram, last axial position, central tangential position (views handled by its "general phi" branch)
                if (!at->pm && tanth == 0 && b.tangential_pos_num() == 0 && b.axial_pos_num() == Lp->pdi->get_max_axial_pos_num(b.segment_num())
                    && b.view_num() != 0 && acf < std::exp(x_lo))
                  {
                    if (!last_plane_defect_reported)
                      ctx.violation("attenuation:default-ray-tracing-projector-loses-the-plane-after-the-last-direct-sinogram(tang0)",
                                    bins(b)
                                        + vf::fmt(" s %.6g mm: 1/undo(1) %.9g, analytic chord in [%.6g, %.6g] mm -> factor in [%.9g, %.9g]; "
                                                  "ln ratio %.3f (image has %d planes)",
                                                  s, acf, L_lo, L_hi, std::exp(x_lo), std::exp(x_hi), std::log(acf) / (0.5 * (x_lo + x_hi)),
                                                  mu.get_z_size()));
                    last_plane_defect_reported = true;
                    continue;
                  }
                ctx.violation(
                    "attenuation:factor-outside-analytic-cylinder-bounds(physical)",
                    bins(b)
                        + vf::fmt(" s %.6g mm tan(theta) %.6g: 1/undo(1) %.9g, analytic chord in [%.6g, %.6g] mm -> factor in [%.9g, %.9g]",
                                  s, tanth, acf, L_lo, L_hi, std::exp(x_lo), std::exp(x_hi)));
                return false;
              }
            ++phys;
            if (L_lo > 0)
              ++phys_nonzero;
          }
      }
    if (last_plane_defect_reported || view_3n4_defect_reported)
      return false;
    ctx.count("attenuation_tight_bins", tight);
    if (at->cylinder)
      {
        ctx.count("attenuation_physical_bins", phys);
        ctx.count("attenuation_physical_bins_through_cylinder", phys_nonzero);
      }
    return true;
  };
  return l;
}

// ------------------------------------------------------------------------------------------------ case
static SymSptr
pet_symmetries(Ctx& ctx, World& w, bool s90, bool s180, bool sseg, bool ss_, bool sz)
{
  if (w.ss.geom != "Cylindrical" || !w.sym_image)
    return SymSptr();
  try
    {
      return SymSptr(new DataSymmetriesForBins_PET_CartesianGrid(w.pdi, w.sym_image, s90, s180, sseg, ss_, sz));
    }
  catch (const std::exception&)
    {
      ctx.count("pet_symmetries_rejected");
      return SymSptr();
    }
}

static void
run_case(Ctx& ctx)
{
  vf::Rng& rng = ctx.rng;
  World w;
  // ---- kind
  static const std::vector<std::pair<std::string, double>> kinds
      = { { "trivial", 0.06 }, { "projdata", 0.22 }, { "calibrated", 0.10 }, { "components", 0.14 },
          { "attenuation", 0.16 }, { "attenuation_cylinder", 0.12 }, { "chain", 0.20 } };
  std::string kind;
  {
    double u = rng.u01(), acc = 0;
    for (auto& k : kinds)
      {
        acc += k.second;
        kind = k.first;
        if (u < acc)
          break;
      }
  }
  ctx.desc.add("kind", kind);
  int chain_len = 0;
  std::vector<std::string> member_kinds;
  if (kind == "chain")
    {
      chain_len = static_cast<int>(rng.range(1, 3));
      static const std::vector<std::string> mk = { "projdata", "projdata", "calibrated", "components", "attenuation", "trivial" };
      bool have_atten = false, have_cal = false;
      for (int i = 0; i < chain_len; ++i)
        {
          std::string m = rng.pick(mk);
          if ((m == "attenuation" && have_atten) || (m == "calibrated" && have_cal))
            m = "projdata";
          have_atten = have_atten || m == "attenuation";
          have_cal = have_cal || m == "calibrated";
          member_kinds.push_back(m);
        }
      ctx.desc.add("chain_length", chain_len).add("members", member_kinds);
    }
  auto wants = [&](const std::string& k) {
    if (kind == k || (k == "attenuation" && kind == "attenuation_cylinder"))
      return true;
    return std::find(member_kinds.begin(), member_kinds.end(), k) != member_kinds.end();
  };
  const bool need_components = wants("components");
  const bool need_atten = wants("attenuation");

  // ---- geometry
  vg::ScannerOpts so;
  so.min_det = 8;
  so.max_det = ctx.thorough() ? 48 : 32;
  so.max_rings = ctx.thorough() ? 5 : 4;
  so.p_tof = (need_components || need_atten) ? 0. : 0.45;
  so.allow_blocks = !(need_components || need_atten);
  w.ss = vg::gen_scanner(rng, so);
  if (w.ss.geom != "Cylindrical")
    w.ss.tof_bins = 0; // Scanner::check_consistency reads max_FOV_radius before it is initialised for TOF block scanners (not C13's subject)
  if (need_components)
    {
      // component model: block structure must divide the rings/detectors; prefer an even number of crystals per block
      std::vector<int> even;
      for (int dv : vg::divisors(w.ss.ndet))
        if (dv % 2 == 0 && dv < w.ss.ndet)
          even.push_back(dv);
      if (!even.empty() && rng.coin(0.8))
        w.ss.trans_per_block = rng.pick(even);
    }
  if (kind == "attenuation_cylinder")
    {
      // room for a cylinder of >= 9 voxels radius: enough tangential bins
      w.ss.ndet = std::max(w.ss.ndet, 24);
      w.want_default_projector = rng.coin(0.35);
      if (w.want_default_projector)
        {
          // that projector wants voxels at least as large as the tangential sampling: many detectors, no tilt (view offset)
          w.dp_ratio = rng.coin(0.3) ? static_cast<float>(rng.uniform(1.4, 1.8)) : 1.F;
          w.dp_half = static_cast<int>(std::ceil(9. * w.dp_ratio + std::sqrt(1. + double(w.dp_ratio) * w.dp_ratio) / 2 + 0.3)) + static_cast<int>(rng.range(0, 2));
          const int ndet_min = static_cast<int>(std::ceil(3.14159265 * (w.ss.radius + w.ss.doi) * w.dp_half / (0.81 * w.ss.radius)));
          w.ss.ndet = 2 * ((ndet_min + 1) / 2) + 2 * static_cast<int>(rng.range(1, 4));
          w.ss.tilt = 0.F;
          w.ss.nrings = std::min(w.ss.nrings, 3);
          w.ss.axial_per_block = 1;
        }
      w.ss.trans_per_block = 1;
      w.ss.bin_size = static_cast<float>(3.14159265 * w.ss.radius / w.ss.ndet * rng.uniform(0.8, 1.1));
    }
  try
    {
      w.scanner = vg::make_scanner(w.ss);
    }
  catch (const std::exception& e)
    {
      if (w.ss.geom == "Cylindrical")
        {
          ctx.desc.add("scanner", w.ss.desc());
          throw vf::Skip(std::string("scanner rejected: ") + e.what());
        }
      // the block layout of the generated scanner is not accepted: use the same numbers on a cylinder
      w.ss.geom = "Cylindrical";
      ctx.count("blocks_scanner_rejected_fell_back_to_cylindrical");
      try
        {
          w.scanner = vg::make_scanner(w.ss);
        }
      catch (const std::exception& e2)
        {
          ctx.desc.add("scanner", w.ss.desc());
          throw vf::Skip(std::string("scanner rejected: ") + e2.what());
        }
    }
  ctx.desc.add("scanner", w.ss.desc());
  vg::PdiOpts po;
  po.allow_view_mash = w.ss.geom == "Cylindrical";
  po.allow_arccorr = w.ss.geom == "Cylindrical" && !need_components;
  po.allow_ge = !need_components && !need_atten;
  w.ps = vg::gen_pdi(rng, w.ss, po);
  if (w.ss.geom != "Cylindrical")
    {
      w.ps.ge_mixed = false;
      w.ps.span = 1;
      w.ps.arccorr = false;
      w.ps.max_delta = static_cast<int>(rng.range(0, w.ss.nrings - 1));
    }
  if (need_components)
    {
      w.ps.span = 1;
      w.ps.ge_mixed = false;
      w.ps.arccorr = false;
      w.ps.num_views = w.ss.ndet / 2;
      w.ps.max_delta = static_cast<int>(rng.range(0, w.ss.nrings - 1));
      w.ps.num_tang = std::max(w.ps.num_tang, 3);
    }
  if (w.ps.arccorr)
    {
      // arc-corrected bins are equidistant in s: keep every line of response inside the detector ring
      const int maxt = static_cast<int>(std::floor(0.95 * (w.ss.radius + w.ss.doi) / w.ss.bin_size));
      w.ps.num_tang = std::max(1, std::min(w.ps.num_tang, 2 * maxt + 1));
      if (need_components)
        w.ps.arccorr = false;
    }
  if (need_atten && w.ps.span % 2 == 0)
    w.ps.span = 1, w.ps.max_delta = static_cast<int>(rng.range(0, w.ss.nrings - 1));
  try
    {
      w.pdi = vg::make_pdi(w.scanner, w.ps, &rng);
    }
  catch (const std::exception& e)
    {
      throw vf::Skip(std::string("pdi rejected: ") + e.what());
    }
  ctx.desc.add("pdi", w.ps.desc());
  w.exam.reset(new ExamInfo(ImagingModality::PT));
  w.L = make_layout(w.pdi);
  ctx.desc.add("num_bins", static_cast<long>(w.L.size()));
  if (w.L.size() > (ctx.thorough() ? 400000u : 150000u))
    throw vf::Skip("too many bins for this tier");
  ctx.count(w.pdi->is_tof_data() ? "cfg_tof_data" : "cfg_nontof_data");
  ctx.heartbeat("build");

  // ---- symmetry groupings for objects that do not project
  w.plain_groupings.push_back(SymSptr(new TrivialDataSymmetriesForViewSegmentNumbers));
  if (rng.coin(0.5))
    w.plain_groupings.push_back(SymSptr(new TrivialDataSymmetriesForBins(w.pdi)));
  if (w.ss.geom == "Cylindrical" && !w.ps.ge_mixed && w.ps.span % 2 == 1)
    {
      try
        {
          w.sym_image.reset(new VoxelsOnCartesianGrid<float>(w.exam, *w.pdi, 1.F, CartesianCoordinate3D<float>(0.F, 0.F, 0.F),
                                                             CartesianCoordinate3D<int>(-1, 5, 5)));
        }
      catch (const std::exception&)
        {
          w.sym_image.reset();
        }
      SymSptr s = pet_symmetries(ctx, w, rng.coin(0.7), rng.coin(0.8), rng.coin(0.8), rng.coin(0.8), rng.coin(0.8));
      if (s)
        {
          w.plain_groupings.push_back(s);
          ctx.count("cfg_pet_symmetry_grouping");
        }
      // a second PET grouping with other switches (related sets of the same size around the same basic view/segment but with other
      // members: swap-segment only against 180 degrees only ...)
      if (s && rng.coin(0.5))
        {
          // the complementary minimal pair: swap-segment only {(v,s),(v,-s)} and 180 degrees only {(v,s),(n-v,-s)}
          const bool sz = rng.coin();
          SymSptr sa = pet_symmetries(ctx, w, false, false, true, false, sz);
          SymSptr sb = pet_symmetries(ctx, w, false, true, false, false, sz);
          if (sa && sb)
            {
              w.plain_groupings.push_back(sa);
              w.plain_groupings.push_back(sb);
              ctx.count("cfg_complementary_minimal_pet_symmetry_groupings");
            }
        }
      else if (s && rng.coin(0.7))
        {
          const int pick = static_cast<int>(rng.range(0, 3));
          SymSptr s2 = pick == 0   ? pet_symmetries(ctx, w, false, false, true, false, rng.coin())
                       : pick == 1 ? pet_symmetries(ctx, w, false, true, false, false, rng.coin())
                       : pick == 2 ? pet_symmetries(ctx, w, false, true, true, false, rng.coin())
                                   : pet_symmetries(ctx, w, rng.coin(), rng.coin(), rng.coin(), rng.coin(), rng.coin());
          if (s2)
            {
              w.plain_groupings.push_back(s2);
              ctx.count("cfg_second_pet_symmetry_grouping");
            }
        }
    }

  // ---- data
  std::vector<float> x(w.L.size());
  for (auto& v : x)
    {
      const double u = rng.u01();
      v = u < 0.04 ? 0.F : (u < 0.08 ? -static_cast<float>(rng.uniform(0.1, 10.)) : static_cast<float>(std::exp(rng.uniform(-2.3, 4.6))));
    }

  // ---- objects
  auto build_leaf = [&](const std::string& k, vf::Desc& d) -> Leaf {
    if (k == "trivial")
      return make_trivial(ctx, w, d);
    if (k == "projdata")
      return make_projdata(ctx, w, d);
    if (k == "calibrated")
      return make_table(ctx, w, d);
    if (k == "components")
      {
        if (!components_possible(w))
          throw vf::Skip("geometry not supported by the component model");
        return make_components(ctx, w, d);
      }
    if (k == "attenuation" || k == "attenuation_cylinder")
      {
        if (!atten_possible(w))
          throw vf::Skip("geometry not supported by attenuation normalisation");
        return make_atten(ctx, w, d, k == "attenuation_cylinder");
      }
    throw std::runtime_error("harness: unknown kind");
  };
  auto set_up = [&](BinNormalisation& n, const std::string& what) {
    Succeeded ok = Succeeded::no;
    try
      {
        ok = n.set_up(w.exam, w.pdi);
      }
    catch (const std::exception& e)
      {
        throw vf::Skip("set_up of " + what + " rejected: " + e.what());
      }
    if (ok != Succeeded::yes)
      throw vf::Skip("set_up of " + what + " returned no");
  };
  auto groupings_for = [&](const Leaf& l) -> std::vector<SymSptr> {
    if (!l.fwd)
      return w.plain_groupings;
    // an object that forward projects can only be handed viewgrams grouped by the projector's own symmetries
    std::vector<SymSptr> g;
    g.push_back(SymSptr(l.fwd->get_symmetries_used()->clone()));
    g.push_back(SymSptr(l.fwd->get_symmetries_used()->clone()));
    return g;
  };
  auto nut_for = [&](const Leaf& l) {
    Nut nut;
    nut.norm = l.norm;
    nut.cls = l.cls;
    nut.members = 1;
    nut.groupings = groupings_for(l);
    nut.default_symm_ok = !l.fwd;
    nut.zero_allowed_outside_fan = l.zero_outside_fan;
    nut.half_fan = l.half_fan;
    nut.any_zero_allowed = l.any_zero;
    return nut;
  };

  bool nonconstant = false;
  if (kind != "chain")
    {
      vf::Desc d;
      Leaf l;
      try
        {
          l = build_leaf(kind, d);
        }
      catch (const vf::Skip&)
        {
          throw;
        }
      catch (const std::exception& e)
        {
          ctx.desc.add("object", d);
          throw vf::Skip(std::string("construction rejected: ") + e.what());
        }
      ctx.desc.add("object", d);
      set_up(*l.norm, l.cls);
      ctx.heartbeat("check " + l.cls);
      const std::vector<float> e = check_norm(ctx, nut_for(l), w.L, w.exam, x);
      if (e.empty())
        return;
      if (l.extra && !l.extra(ctx, e))
        return;
      // "one fixed positive factor": a second set_up() of the same object for the same data (what an objective function that is
      // set up twice, or a chain built around an object that was used alone before, does) must leave every efficiency what it was
      if (ctx.rng.coin(0.35))
        {
          set_up(*l.norm, l.cls + " (second set_up)");
          ctx.heartbeat("check " + l.cls + " after a second set_up");
          const std::vector<float> e2 = check_norm(ctx, nut_for(l), w.L, w.exam, x);
          if (e2.empty())
            return;
          for (size_t b = 0; b < e.size(); ++b)
            if (!(e2[b] == e[b]))
              {
                ctx.violation(l.cls + ":efficiency-changes-after-a-second-set_up",
                              vf::fmt("bin %zu: efficiency %.9g after the first set_up(), %.9g after the second", b, e[b], e2[b]));
                return;
              }
          ctx.count("objects_checked_again_after_a_second_set_up");
          ctx.count("objects_checked_again_after_a_second_set_up_" + l.cls);
        }
      nonconstant = !l.constant && *std::min_element(e.begin(), e.end()) != *std::max_element(e.begin(), e.end());
      ctx.count("objects_" + l.cls);
    }
  else
    {
      std::vector<Leaf> leaves;
      std::vector<vf::Desc> ds;
      for (auto& m : member_kinds)
        {
          vf::Desc d;
          try
            {
              leaves.push_back(build_leaf(m, d));
            }
          catch (const vf::Skip&)
            {
              throw;
            }
          catch (const std::exception& e)
            {
              throw vf::Skip(std::string("construction rejected: ") + e.what());
            }
          ds.push_back(d);
        }
      ctx.desc.add("objects", ds);
        {
          shared_ptr<BinNormalisation> chain;
          std::string shape;
          try
            {
              if (chain_len == 1)
                {
                  shared_ptr<BinNormalisation> triv(new TrivialBinNormalisation);
                  const bool first = rng.coin(0.5);
                  chain.reset(first ? new ChainedBinNormalisation(leaves[0].norm, triv) : new ChainedBinNormalisation(triv, leaves[0].norm));
                  shape = first ? "(a,Trivial)" : "(Trivial,a)";
                }
              else if (chain_len == 2)
                {
                  chain.reset(new ChainedBinNormalisation(leaves[0].norm, leaves[1].norm));
                  shape = "(a,b)";
                }
              else
                {
                  if (rng.coin(0.5))
                    {
                      shared_ptr<BinNormalisation> inner(new ChainedBinNormalisation(leaves[0].norm, leaves[1].norm));
                      chain.reset(new ChainedBinNormalisation(inner, leaves[2].norm));
                      shape = "((a,b),c)";
                    }
                  else
                    {
                      shared_ptr<BinNormalisation> inner(new ChainedBinNormalisation(leaves[1].norm, leaves[2].norm));
                      chain.reset(new ChainedBinNormalisation(leaves[0].norm, inner));
                      shape = "(a,(b,c))";
                    }
                }
            }
          catch (const std::exception& e)
            {
              throw vf::Skip(std::string("chain construction rejected: ") + e.what());
            }
          ctx.desc.add("chain_shape", shape);
          set_up(*chain, "chain");
          Nut nut;
          nut.norm = chain;
          nut.cls = "chained";
          nut.members = chain_len;
          nut.groupings = w.plain_groupings;
          for (auto& l : leaves)
            {
              if (l.fwd)
                {
                  nut.groupings = groupings_for(l);
                  nut.default_symm_ok = false;
                }
              nut.zero_allowed_outside_fan = nut.zero_allowed_outside_fan || l.zero_outside_fan;
              if (l.zero_outside_fan)
                nut.half_fan = l.half_fan;
              nut.any_zero_allowed = nut.any_zero_allowed || l.any_zero;
            }
          ctx.heartbeat("check chain");
          const std::vector<float> e = check_norm(ctx, nut, w.L, w.exam, x);
          if (e.empty())
            return;
          // product of the members' efficiencies, each measured on the member alone
          std::vector<double> prod(e.size(), 1.);
          for (size_t m = 0; m < leaves.size(); ++m)
            {
              Nut mn = nut_for(leaves[m]);
              mn.groupings = nut.groupings;
              if (!leaves[m].fwd)
                mn.default_symm_ok = nut.default_symm_ok || true;
              ctx.heartbeat("check chain member " + leaves[m].cls);
              // the members were set up by the chain
              const std::vector<float> em = via_viewgrams(*leaves[m].norm, w.L, w.exam, std::vector<float>(e.size(), 1.F), mn.groupings[0], UNDO);
              if (leaves[m].extra && !leaves[m].extra(ctx, em))
                return;
              for (size_t i = 0; i < e.size(); ++i)
                prod[i] *= em[i];
              nonconstant = nonconstant || !leaves[m].constant;
            }
          const double rel = tol_rel(chain_len);
          for (size_t i = 0; i < e.size(); ++i)
            if (!close_rel(e[i], prod[i], rel))
              {
                ctx.violation("chained:efficiency-is-not-product-of-members",
                              bins(w.L.bins[i]) + vf::fmt(" chain undo(1) %.9g product of members %.9g (shape %s)", e[i], prod[i], shape.c_str()));
                return;
              }
          ctx.count("chain_product_bins", static_cast<long>(e.size()));
          ctx.count(vf::fmt("chains_len%d", chain_len));
        }
    }
  ctx.nontrivial = w.pdi->get_num_views() >= 2 && nonconstant;
}

int
main(int argc, char** argv)
{
  vg::quiet();
  return vf::verif_main(argc, argv, "C13", run_case);
}
