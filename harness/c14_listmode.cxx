// C14: list-mode histogramming and the list-mode likelihood agree with the event list (DESIGN.md §6 C14).
//
// Workload: a harness-side CListModeData subclass (HListMode) replays a seeded in-memory vector of records: time marks (ms),
// prompt / delayed coincidences given as detector pairs (+ unmashed TOF index), every event with a unique id.  The event class
// derives from CListEventCylindricalScannerWithDiscreteDetectors, so get_bin() goes through the real
// ProjDataInfoCylindricalNoArcCorr::get_bin_for_det_pos_pair.
//
// Part H (histogramming): the real LmToProjData (harness subclass only to reach the protected batching members) is run with
//   generated templates (span, view mashing, TOF mashing, truncated tangential range, reduced segments), frame definitions,
//   store_prompts / store_delayeds, num_events_to_store, every num_segments_in_memory and num_TOF_bins_in_memory.
//   Oracle = independent exactly-once counter:
//     time of an event   = value of the last time mark before it in the stream (0 before the first mark; ListModeData.h usage
//                          example and "assume list mode data starts at time 0" in LmToProjData)
//     event in frame f   = start_f <= time < end_f   (half open: the only convention under which "the frames of a partition add
//                          up to the whole interval" of the statement can hold; it is also what process_data implements)
//     increment          = +1 prompt (if stored), -1 delayed when prompts and delayeds are both stored, +1 delayed when only
//                          delayeds are stored (LmToProjData.h class documentation)
//     bin                = template geometry's get_bin_for_det_pos_pair, in range of the template
//     num_events_to_store= stop as soon as (sum of increments of in-range events) reaches the number ("counts the total of
//                          prompts-delayeds", LmToProjData.h)
//   every bin of the output must equal the count; frames of a partition must add up to the histogram of the whole interval.
// Part G (likelihood): gradient of PoissonLogLikelihoodWithLinearModelForMeanAndListModeDataWithProjMatrixByBin fed with the
//   HListMode object == gradient of PoissonLogLikelihoodWithLinearModelForMeanAndProjData on the histogram that LmToProjData makes
//   of the same events (same matrix settings, additive term, normalisation), both compared with a float64 reference on the rows
//   of an identically configured matrix inside the computed band vf::band32.
#include "common/verif.h"
#include "common/gen.h"
#include "stir/listmode/LmToProjData.h"
#include "stir/listmode/CListModeData.h"
#include "stir/listmode/CListRecord.h"
#include "stir/listmode/CListEventCylindricalScannerWithDiscreteDetectors.h"
#include "stir/ProjDataInfoCylindricalNoArcCorr.h"
#include "stir/ProjDataInMemory.h"
#include "stir/ProjData.h"
#include "stir/SegmentByView.h"
#include "stir/ExamInfo.h"
#include "stir/TimeFrameDefinitions.h"
#include "stir/DetectionPositionPair.h"
#include "stir/DiscretisedDensity.h"
#include "stir/recon_buildblock/PoissonLogLikelihoodWithLinearModelForMeanAndListModeDataWithProjMatrixByBin.h"
#include "stir/recon_buildblock/PoissonLogLikelihoodWithLinearModelForMeanAndProjData.h"
#include "stir/recon_buildblock/ProjMatrixByBinUsingRayTracing.h"
#include "stir/recon_buildblock/ProjectorByBinPairUsingProjMatrixByBin.h"
#include "stir/recon_buildblock/ProjMatrixElemsForOneBin.h"
#include "stir/recon_buildblock/BinNormalisationFromProjData.h"
#include "stir/recon_buildblock/TrivialBinNormalisation.h"
#include <sys/stat.h>
#include <dirent.h>

using namespace stir;
using vf::Ctx;
typedef DiscretisedDensity<3, float> Target;

// ================================================================================================ synthetic list mode
struct Rec
{
  bool is_time = false;
  unsigned long ms = 0;              // time marks
  int d1 = 0, r1 = 0, d2 = 1, r2 = 0; // events
  int tof = 0;                       // unmashed TOF index
  bool prompt = true;
  int id = -1; // unique event id
};

class HEvent : public CListEventCylindricalScannerWithDiscreteDetectors
{
public:
  explicit HEvent(const shared_ptr<const ProjDataInfo>& pdi)
      : CListEventCylindricalScannerWithDiscreteDetectors(pdi)
  {}
  bool is_prompt() const override { return prompt; }
  Succeeded set_prompt(const bool p = true) override
  {
    prompt = p;
    return Succeeded::yes;
  }
  void get_detection_position(DetectionPositionPair<>& d) const override { d = dp; }
  void set_detection_position(const DetectionPositionPair<>& d) override { dp = d; }
  DetectionPositionPair<> dp;
  bool prompt = true;
  int id = -1;
};
class HTime : public ListTime
{
public:
  unsigned long get_time_in_millisecs() const override { return ms; }
  Succeeded set_time_in_millisecs(const unsigned long t) override
  {
    ms = t;
    return Succeeded::yes;
  }
  unsigned long ms = 0;
};
class HRecord : public CListRecord
{
public:
  explicit HRecord(const shared_ptr<const ProjDataInfo>& pdi)
      : ev(pdi)
  {}
  bool is_time() const override { return t; }
  bool is_event() const override { return !t; }
  ListEvent& event() override { return ev; }
  const ListEvent& event() const override { return ev; }
  ListTime& time() override { return tm; }
  const ListTime& time() const override { return tm; }
  HEvent ev;
  HTime tm;
  bool t = false;
};

static DetectionPositionPair<>
det_pair(const Rec& r)
{
  return DetectionPositionPair<>(DetectionPosition<>(r.d1, r.r1, 0), DetectionPosition<>(r.d2, r.r2, 0), r.tof);
}

class HListMode : public CListModeData
{
public:
  HListMode(const shared_ptr<const ExamInfo>& exam, const shared_ptr<const ProjDataInfo>& pdi, const std::vector<Rec>& recs,
            bool has_delayeds)
      : recs(recs),
        delayeds(has_delayeds)
  {
    this->exam_info_sptr = exam;
    this->set_proj_data_info_sptr(pdi);
  }
  std::string get_name() const override { return "verif-synthetic-listmode"; }
  shared_ptr<CListRecord> get_empty_record_sptr() const override
  {
    return shared_ptr<CListRecord>(new HRecord(this->get_proj_data_info_sptr()));
  }
  Succeeded get_next_record(CListRecord& rec) const override
  {
    if (pos >= recs.size())
      return Succeeded::no;
    HRecord& h = dynamic_cast<HRecord&>(rec);
    const Rec& r = recs[pos++];
    ++delivered;
    h.t = r.is_time;
    if (r.is_time)
      h.tm.ms = r.ms;
    else
      {
        h.ev.dp = det_pair(r);
        h.ev.prompt = r.prompt;
        h.ev.id = r.id;
      }
    return Succeeded::yes;
  }
  Succeeded reset() override
  {
    pos = 0;
    ++resets;
    return Succeeded::yes;
  }
  SavedPosition save_get_position() override
  {
    saved.push_back(pos);
    return static_cast<SavedPosition>(saved.size() - 1);
  }
  Succeeded set_get_position(const SavedPosition& p) override
  {
    if (p >= saved.size())
      {
        ++bad_rewinds;
        return Succeeded::no;
      }
    pos = saved[p];
    ++rewinds;
    return Succeeded::yes;
  }
  bool has_delayeds() const override { return delayeds; }
  unsigned long int get_total_number_of_events() const override
  {
    unsigned long n = 0;
    for (const Rec& r : recs)
      n += r.is_time ? 0 : 1;
    return n;
  }
  std::vector<Rec> recs;
  bool delayeds;
  mutable size_t pos = 0;
  mutable long delivered = 0;
  long resets = 0, rewinds = 0, bad_rewinds = 0;
  std::vector<size_t> saved;
};

// access to the protected members that have no public setter
class HLmToProjData : public LmToProjData
{
public:
  void set_num_tof_bins_in_memory(int v) { num_timing_poss_in_memory = v; }
  void set_max_segment_num_to_process(int v) { max_segment_num_to_process = v; }
  void set_lm_pointer(const shared_ptr<ListModeData>& p) { lm_data_ptr = p; }
};

// ================================================================================================ dense bin index
struct Geo
{
  shared_ptr<const ProjDataInfoCylindricalNoArcCorr> pdi;
  int min_seg = 0, max_seg = 0, min_tof = 0, max_tof = 0, min_view = 0, nviews = 0, min_tang = 0, ntang = 0, ntof = 1;
  std::vector<int> seg_off, min_ax, nax;
  int nbins = 0;
  void init(const shared_ptr<const ProjDataInfo>& p0)
  {
    pdi = dynamic_pointer_cast<const ProjDataInfoCylindricalNoArcCorr>(p0);
    if (!pdi)
      throw vf::Skip("template is not ProjDataInfoCylindricalNoArcCorr");
    const ProjDataInfo& p = *p0;
    min_seg = p.get_min_segment_num();
    max_seg = p.get_max_segment_num();
    min_tof = p.get_min_tof_pos_num();
    max_tof = p.get_max_tof_pos_num();
    ntof = max_tof - min_tof + 1;
    min_view = p.get_min_view_num();
    nviews = p.get_num_views();
    min_tang = p.get_min_tangential_pos_num();
    ntang = p.get_num_tangential_poss();
    nbins = 0;
    seg_off.clear(), min_ax.clear(), nax.clear();
    for (int s = min_seg; s <= max_seg; ++s)
      {
        seg_off.push_back(nbins);
        min_ax.push_back(p.get_min_axial_pos_num(s));
        nax.push_back(p.get_num_axial_poss(s));
        nbins += ntof * nviews * nax.back() * ntang;
      }
  }
  int index(int seg, int tof, int view, int ax, int tang) const
  {
    const int si = seg - min_seg;
    return seg_off[si] + (((tof - min_tof) * nviews + (view - min_view)) * nax[si] + (ax - min_ax[si])) * ntang + (tang - min_tang);
  }
  // the independent "in range of the template" test + the geometry's detector-pair map; -1 = no bin
  int bin_of(const Rec& r, Bin* out = nullptr) const
  {
    Bin b;
    if (pdi->get_bin_for_det_pos_pair(b, det_pair(r)) != Succeeded::yes)
      return -1;
    if (b.segment_num() < min_seg || b.segment_num() > max_seg)
      return -1;
    const int si = b.segment_num() - min_seg;
    if (b.axial_pos_num() < min_ax[si] || b.axial_pos_num() >= min_ax[si] + nax[si])
      return -1;
    if (b.view_num() < min_view || b.view_num() >= min_view + nviews)
      return -1;
    if (b.tangential_pos_num() < min_tang || b.tangential_pos_num() >= min_tang + ntang)
      return -1;
    if (b.timing_pos_num() < min_tof || b.timing_pos_num() > max_tof)
      return -1;
    if (out)
      *out = b;
    return index(b.segment_num(), b.timing_pos_num(), b.view_num(), b.axial_pos_num(), b.tangential_pos_num());
  }
};
static std::string
bin_name(const Geo& g, int idx)
{
  for (int s = g.min_seg; s <= g.max_seg; ++s)
    {
      const int si = s - g.min_seg;
      const int n = g.ntof * g.nviews * g.nax[si] * g.ntang;
      if (idx >= g.seg_off[si] && idx < g.seg_off[si] + n)
        {
          int r = idx - g.seg_off[si];
          const int tang = r % g.ntang + g.min_tang;
          r /= g.ntang;
          const int ax = r % g.nax[si] + g.min_ax[si];
          r /= g.nax[si];
          const int view = r % g.nviews + g.min_view;
          r /= g.nviews;
          const int tof = r + g.min_tof;
          return vf::fmt("bin(seg%d,ax%d,view%d,tang%d,tof%d)", s, ax, view, tang, tof);
        }
    }
  return "bin(?)";
}

// ================================================================================================ the model (oracle)
struct Frame
{
  unsigned long s = 0, e = 0; // ms, half open [s,e)
};
struct Sel // which events are to be histogrammed
{
  bool use_frame = false;
  Frame f;
  bool store_prompts = true, store_delayeds = true;
  long cutoff = 0; // num_events_to_store (0: none)
};
struct Expect
{
  std::vector<int> counts;
  long in_frame = 0, in_range = 0, out_of_range = 0, stored = 0, distinct_bins = 0;
  long at_frame_start = 0, at_frame_end = 0, delayeds_stored = 0, cut_off_reached = 0, cut_off_not_reached = 0; // evidence only
};
static void
count_expect(Ctx& ctx, const Expect& x)
{
  ctx.count("events_in_frames", x.in_frame);
  ctx.count("events_out_of_range", x.out_of_range);
  ctx.count("events_with_time_equal_to_frame_start", x.at_frame_start);
  ctx.count("events_with_time_equal_to_frame_end", x.at_frame_end);
  ctx.count("delayed_events_counted", x.delayeds_stored);
  ctx.count("cut_offs_reached", x.cut_off_reached);
  ctx.count("cut_offs_beyond_end_of_stream", x.cut_off_not_reached);
}
static int
increment_of(const Rec& r, const Sel& s)
{
  if (r.prompt)
    return s.store_prompts ? 1 : 0;
  if (s.store_prompts)
    return s.store_delayeds ? -1 : 0;
  return s.store_delayeds ? 1 : 0;
}
static Expect
model(const std::vector<Rec>& recs, const std::vector<int>& ev_bin, const Geo& g, const Sel& sel)
{
  Expect x;
  x.counts.assign(static_cast<size_t>(g.nbins), 0);
  std::vector<char> touched(static_cast<size_t>(g.nbins), 0);
  unsigned long cur = 0;
  long running = sel.cutoff;
  for (size_t i = 0; i < recs.size(); ++i)
    {
      const Rec& r = recs[i];
      if (r.is_time)
        {
          cur = r.ms;
          continue;
        }
      if (sel.use_frame && cur == sel.f.e)
        ++x.at_frame_end;
      if (sel.use_frame && !(sel.f.s <= cur && cur < sel.f.e))
        continue;
      if (sel.use_frame && cur == sel.f.s)
        ++x.at_frame_start;
      ++x.in_frame;
      const int b = ev_bin[i];
      if (b < 0)
        {
          ++x.out_of_range;
          continue;
        }
      ++x.in_range;
      const int inc = increment_of(r, sel);
      if (inc == 0)
        continue;
      x.counts[static_cast<size_t>(b)] += inc;
      ++x.stored;
      if (!r.prompt)
        ++x.delayeds_stored;
      if (!touched[static_cast<size_t>(b)])
        {
          touched[static_cast<size_t>(b)] = 1;
          ++x.distinct_bins;
        }
      if (sel.cutoff > 0)
        {
          running -= inc;
          if (running == 0)
            {
              x.cut_off_reached = 1;
              break;
            }
        }
    }
  if (sel.cutoff > 0 && !x.cut_off_reached)
    x.cut_off_not_reached = 1;
  return x;
}

// ================================================================================================ stream generator
struct StreamSpec
{
  std::vector<Rec> recs;
  std::vector<unsigned long> marks;
  bool has_delayeds = true;
  int n_events = 0;
};

static void
gen_events_after_mark(vf::Rng& rng, std::vector<Rec>& recs, int n, const vg::ScannerSpec& ss, const Geo& bias, bool has_delayeds,
                      double p_delayed, int& next_id)
{
  const int tmax = ss.tof_bins > 0 ? ss.tof_bins / 2 : 0;
  for (int k = 0; k < n; ++k)
    {
      Rec r;
      for (int attempt = 0; attempt < 12; ++attempt)
        {
          r.d1 = static_cast<int>(rng.range(0, ss.ndet - 1));
          do
            r.d2 = static_cast<int>(rng.range(0, ss.ndet - 1));
          while (r.d2 == r.d1);
          r.r1 = static_cast<int>(rng.range(0, ss.nrings - 1));
          r.r2 = static_cast<int>(rng.range(0, ss.nrings - 1));
          r.tof = tmax > 0 ? static_cast<int>(rng.range(-tmax, tmax)) : 0;
          if (bias.bin_of(r) >= 0 || rng.coin(0.12))
            break; // keep most events in range of the template, some outside (rings, tangential range, TOF)
        }
      r.prompt = !(has_delayeds && rng.coin(p_delayed));
      r.id = next_id++;
      recs.push_back(r);
    }
}

// marks: sorted (non-decreasing) time marks; events are placed before the first mark (time 0) and after every mark
static StreamSpec
gen_stream(vf::Rng& rng, const std::vector<unsigned long>& marks, const vg::ScannerSpec& ss, const Geo& bias, bool has_delayeds,
           int target_events)
{
  StreamSpec st;
  st.marks = marks;
  st.has_delayeds = has_delayeds;
  const double p_delayed = rng.uniform(0.1, 0.45);
  const double per_gap = static_cast<double>(target_events) / static_cast<double>(marks.size() + 1);
  int next_id = 0;
  if (marks.empty() || rng.coin(0.6))
    gen_events_after_mark(rng, st.recs, static_cast<int>(rng.poisson(per_gap)), ss, bias, has_delayeds, p_delayed, next_id);
  for (unsigned long m : marks)
    {
      Rec t;
      t.is_time = true;
      t.ms = m;
      st.recs.push_back(t);
      const int n = rng.coin(0.12) ? 0 : static_cast<int>(rng.poisson(per_gap));
      gen_events_after_mark(rng, st.recs, n, ss, bias, has_delayeds, p_delayed, next_id);
    }
  st.n_events = next_id;
  return st;
}

// ================================================================================================ running LmToProjData
struct RunOpts
{
  int nseg_mem = -1, ntof_mem = -1;
  bool store_prompts = true, store_delayeds = true;
  long cutoff = 0;
  std::vector<Frame> frames; // empty: no frame definitions given
  int max_seg_to_process = -1;
  bool pointer_direct = false;
};

static TimeFrameDefinitions
frame_defs_of(const std::vector<Frame>& fr)
{
  std::vector<std::pair<double, double>> v;
  for (const Frame& f : fr)
    v.push_back(std::make_pair(f.s / 1000., f.e / 1000.)); // same expression as ListTime::get_time_in_secs()
  return TimeFrameDefinitions(v);
}

static void
configure(HLmToProjData& lm2p, const shared_ptr<HListMode>& lm, const shared_ptr<const ProjDataInfo>& tpl, const RunOpts& o,
          const std::string& prefix)
{
  try
    {
      if (o.pointer_direct)
        lm2p.set_lm_pointer(lm);
      else
        lm2p.set_input_data(lm);
      lm2p.set_template_proj_data_info_sptr(tpl);
      lm2p.set_output_filename_prefix(prefix);
      lm2p.set_store_prompts(o.store_prompts);
      lm2p.set_store_delayeds(o.store_delayeds);
      lm2p.set_num_events_to_store(o.cutoff);
      if (!o.frames.empty())
        lm2p.set_time_frame_definitions(frame_defs_of(o.frames));
      lm2p.set_num_segments_in_memory(o.nseg_mem);
      lm2p.set_num_tof_bins_in_memory(o.ntof_mem);
      if (o.max_seg_to_process >= 0)
        lm2p.set_max_segment_num_to_process(o.max_seg_to_process);
      if (lm2p.set_up() != Succeeded::yes)
        throw vf::Skip("LmToProjData::set_up returned no");
    }
  catch (const vf::Skip&)
    {
      throw;
    }
  catch (const std::exception& e)
    {
      throw vf::Skip(std::string("LmToProjData configuration rejected: ") + e.what());
    }
}

// read every bin of a ProjData into the dense layout
static std::vector<float>
dense_of(const ProjData& pd, const Geo& g)
{
  std::vector<float> v(static_cast<size_t>(g.nbins), 0.f);
  for (int s = g.min_seg; s <= g.max_seg; ++s)
    for (int k = g.min_tof; k <= g.max_tof; ++k)
      {
        const SegmentByView<float> seg = pd.get_segment_by_view(s, k);
        const int si = s - g.min_seg;
        for (int vw = g.min_view; vw < g.min_view + g.nviews; ++vw)
          for (int a = g.min_ax[si]; a < g.min_ax[si] + g.nax[si]; ++a)
            for (int t = g.min_tang; t < g.min_tang + g.ntang; ++t)
              v[static_cast<size_t>(g.index(s, k, vw, a, t))] = seg[vw][a][t];
      }
  return v;
}

static std::string
opts_text(const RunOpts& o)
{
  std::string s = vf::fmt("segments_in_memory=%d TOF_bins_in_memory=%d store_prompts=%d store_delayeds=%d num_events_to_store=%ld", o.nseg_mem,
                          o.ntof_mem, o.store_prompts, o.store_delayeds, o.cutoff);
  if (o.max_seg_to_process >= 0)
    s += vf::fmt(" max_segment_to_process=%d", o.max_seg_to_process);
  s += " frames(ms)=";
  for (const Frame& f : o.frames)
    s += vf::fmt("[%lu,%lu)", f.s, f.e);
  return s;
}

// describe the events that the model maps into bin idx (ids make loss and duplication distinguishable in the witness)
static std::string
events_in_bin(const std::vector<Rec>& recs, const std::vector<int>& ev_bin, int idx, const Sel& sel)
{
  std::string s;
  unsigned long cur = 0;
  int listed = 0;
  for (size_t i = 0; i < recs.size(); ++i)
    {
      if (recs[i].is_time)
        {
          cur = recs[i].ms;
          continue;
        }
      if (ev_bin[i] != idx)
        continue;
      if (listed++ >= 8)
        {
          s += " ...";
          break;
        }
      const bool inf = !sel.use_frame || (sel.f.s <= cur && cur < sel.f.e);
      s += vf::fmt(" #%d(%s,t=%lums,%s,inc%+d)", recs[i].id, recs[i].prompt ? "P" : "D", cur, inf ? "in-frame" : "outside",
                   inf ? increment_of(recs[i], sel) : 0);
    }
  return s.empty() ? " (no event maps here)" : s;
}

// compare one output with the model; returns false after reporting a violation
static bool
compare(Ctx& ctx, const std::vector<float>& got, const Expect& x, const Geo& g, const std::vector<Rec>& recs, const std::vector<int>& ev_bin,
        const Sel& sel, const std::string& key, const std::string& what)
{
  long lost = 0, extra = 0;
  int first = -1;
  for (int i = 0; i < g.nbins; ++i)
    {
      const float e = static_cast<float>(x.counts[static_cast<size_t>(i)]);
      if (got[static_cast<size_t>(i)] != e)
        {
          if (first < 0)
            first = i;
          if (got[static_cast<size_t>(i)] < e)
            ++lost;
          else
            ++extra;
        }
    }
  ctx.count("bins_compared", g.nbins);
  if (first < 0)
    return true;
  ctx.violation(key, what + ": " + bin_name(g, first)
                         + vf::fmt(" holds %g, the event list gives %d; %ld bins too low, %ld bins too high; events of this bin:",
                                   got[static_cast<size_t>(first)], x.counts[static_cast<size_t>(first)], lost, extra)
                         + events_in_bin(recs, ev_bin, first, sel));
  return false;
}

static void
remove_frame_files(const std::string& prefix, int nframes)
{
  for (int f = 1; f <= nframes; ++f)
    {
      const std::string base = prefix + vf::fmt("_f%dg1d0b0", f);
      ::unlink((base + ".hs").c_str());
      ::unlink((base + ".s").c_str());
    }
}

static std::string g_own_tmp;
static std::string
tmp_root(Ctx& ctx)
{
  if (!ctx.tmpdir.empty())
    return ctx.tmpdir;
  if (g_own_tmp.empty())
    {
      char t[] = "/var/tmp/c14-XXXXXX";
      const char* d = ::mkdtemp(t);
      g_own_tmp = d ? d : "/var/tmp";
    }
  return g_own_tmp;
}

// ================================================================================================ world of one case
struct World
{
  vg::ScannerSpec ss;
  shared_ptr<Scanner> sc;
  shared_ptr<ProjDataInfo> lm_pdi; // geometry that the list-mode object reports
  shared_ptr<ProjDataInfo> tpl;    // template of the histogram
  Geo g;                           // of tpl
  shared_ptr<ExamInfo> exam;
  StreamSpec st;
  std::vector<int> ev_bin; // per record: dense bin index in tpl (or -1)
  shared_ptr<HListMode> new_lm() const { return shared_ptr<HListMode>(new HListMode(exam, lm_pdi, st.recs, st.has_delayeds)); }
};

// all-in-memory single run, output returned dense; throws Skip on rejected configuration
static std::vector<float>
run_in_memory(Ctx& ctx, const World& w, const Geo& g, const shared_ptr<const ProjDataInfo>& tpl, const RunOpts& o,
              const shared_ptr<HListMode>& lm, long* rewinds = nullptr)
{
  HLmToProjData lm2p;
  configure(lm2p, lm, tpl, o, tmp_root(ctx) + "/c14_unused");
  shared_ptr<ProjData> out(new ProjDataInMemory(w.exam, g.pdi));
  // poison: every bin of every segment must be written by process_data
  out->fill(-77.f);
  lm2p.set_output_projdata_sptr(out);
  const long before = lm->rewinds;
  lm2p.process_data();
  if (rewinds)
    *rewinds = lm->rewinds - before;
  if (lm->bad_rewinds)
    throw std::runtime_error("LmToProjData asked the list-mode data to go to a position that was never saved");
  return dense_of(*out, g);
}

// ================================================================================================ part H
static std::vector<std::pair<int, int>>
batch_settings(vf::Rng& rng, const Geo& g, bool thorough)
{
  const int nseg = g.max_seg - g.min_seg + 1, ntof = g.ntof;
  std::vector<std::pair<int, int>> v;
  v.push_back({ -1, -1 });
  if (static_cast<long>(nseg) * ntof <= (thorough ? 64 : 24))
    {
      for (int a = 1; a <= nseg; ++a)
        for (int b = 1; b <= ntof; ++b)
          v.push_back({ a, b });
    }
  else
    {
      for (int a = 1; a <= nseg; ++a)
        v.push_back({ a, rng.coin(0.7) ? -1 : static_cast<int>(rng.range(1, ntof)) });
      for (int b = 1; b <= ntof; ++b)
        v.push_back({ rng.coin(0.7) ? -1 : static_cast<int>(rng.range(1, nseg)), b });
      for (int k = 0; k < 4; ++k)
        v.push_back({ static_cast<int>(rng.range(1, nseg)), static_cast<int>(rng.range(1, ntof)) });
    }
  // values larger than the number available are documented to be clipped
  v.push_back({ nseg + static_cast<int>(rng.range(1, 3)), ntof + static_cast<int>(rng.range(0, 2)) });
  return v;
}

static bool
frame_has_mark(const std::vector<unsigned long>& marks, const Frame& f)
{
  if (f.s == 0)
    return true; // the stream is documented to start at time 0
  for (unsigned long m : marks)
    if (m >= f.s && m < f.e)
      return true;
  return false;
}
static bool
mark_at_or_after(const std::vector<unsigned long>& marks, unsigned long t)
{
  for (unsigned long m : marks)
    if (m >= t)
      return true;
  return false;
}

static void
gen_world(Ctx& ctx, World& w, bool for_gradient)
{
  vf::Rng& rng = ctx.rng;
  vg::ScannerOpts so;
  so.min_det = 8;
  so.max_det = for_gradient ? (ctx.thorough() ? 28 : 20) : (ctx.thorough() ? 48 : 32);
  so.min_rings = 1;
  so.max_rings = for_gradient ? (ctx.thorough() ? 4 : 3) : (ctx.thorough() ? 6 : 5);
  so.p_tof = for_gradient ? 0. : 0.4;
  so.allow_tilt = !for_gradient;
  so.allow_blocks = false;
  w.ss = vg::gen_scanner(rng, so);
  if (w.ss.nrings == 1 && rng.coin(0.7))
    {
      w.ss.nrings = static_cast<int>(rng.range(2, so.max_rings));
      w.ss.axial_per_block = rng.pick(vg::divisors(w.ss.nrings));
    }
  if (for_gradient && rng.coin(0.35))
    {
      static const std::vector<int> tb = { 3, 5, 9 };
      w.ss.tof_bins = rng.pick(tb);
      const double window_ps = 4. * w.ss.radius / 0.299792458 * rng.uniform(0.8, 1.3);
      w.ss.tof_size = static_cast<float>(window_ps / w.ss.tof_bins);
      w.ss.tof_res = static_cast<float>(w.ss.tof_size * rng.uniform(0.8, 3.));
    }
  try
    {
      w.sc = vg::make_scanner(w.ss);
    }
  catch (const std::exception& e)
    {
      throw vf::Skip(std::string("scanner rejected: ") + e.what());
    }
  w.exam.reset(new ExamInfo(ImagingModality::PT));
}

static shared_ptr<ProjDataInfo>
gen_template(Ctx& ctx, const World& w, vg::PdiSpec& ps, bool for_projector, bool never_single_tof_position = false)
{
  vg::PdiOpts po;
  po.allow_arccorr = false; // list-mode events of discrete detectors: is_valid_template() accepts non-arc-corrected templates only
  po.allow_ge = !for_projector;
  po.allow_even_span = !for_projector;
  ps = vg::gen_pdi(ctx.rng, w.ss, po);
  if (!for_projector && w.ss.tof_bins > 0 && ps.tof_mash > 0)
    {
      // most admissible mashing factors leave a single TOF position: prefer templates with >= 3 TOF positions (otherwise
      // num_TOF_bins_in_memory is hardly exercised).  TOF data mashed to ONE position are never sent through Interfile files:
      // the header is then written with 4 dimensions plus a "matrix axis label [5]" and cannot be read back (an Interfile
      // matter, see DESIGN 9.2 / C02; here files are only the observation channel of the multi-frame runs).
      std::vector<int> multi;
      for (int m = 1; m <= w.ss.tof_bins / 3; ++m)
        if ((w.ss.tof_bins / m) % 2 == 1)
          multi.push_back(m);
      const bool single = w.ss.tof_bins / ps.tof_mash == 1;
      if (single && !multi.empty() && (never_single_tof_position || ctx.rng.coin(0.7)))
        ps.tof_mash = ctx.rng.pick(multi);
    }
  if (for_projector)
    {
      ps.reduce_segments = -1;
      if (w.ss.tof_bins > 0)
        ps.tof_mash = w.ss.tof_bins == 9 ? 3 : 1; // 3 or 5 TOF positions
      const int maxtang = std::min(w.ss.ndet / 2 + 1, w.ss.ndet - 1);
      if (ps.num_tang < 3)
        ps.num_tang = std::min(3, maxtang);
    }
  try
    {
      return vg::make_pdi(w.sc, ps, &ctx.rng);
    }
  catch (const std::exception& e)
    {
      throw vf::Skip(std::string("template rejected: ") + e.what());
    }
}

static void
part_h(Ctx& ctx)
{
  vf::Rng& rng = ctx.rng;
  World w;
  gen_world(ctx, w, false);
  // ---- what to run: 0 all events (no frame definitions), 1 one frame, 2 frames (partition / gaps), 3 num_events_to_store
  const int mode = static_cast<int>(ctx.idx % 4);
  vg::PdiSpec tps, lps;
  w.tpl = gen_template(ctx, w, tps, false, /*never_single_tof_position=*/mode == 1 || mode == 2);
  // the geometry the list-mode object reports is independent of the template (only the scanner has to agree)
  w.lm_pdi = rng.coin(0.5) ? w.tpl->create_shared_clone() : gen_template(ctx, w, lps, false);
  w.g.init(w.tpl);
  const int nseg = w.g.max_seg - w.g.min_seg + 1;

  // frames without a time mark inside [start,end) are a separate input class (sparse time marks / acquisition gaps), keyed separately
  const bool sparse_marks_class = (mode == 1 || mode == 2) && rng.coin(0.2);
  const bool has_delayeds = rng.coin(0.8);
  const int sp_sd = static_cast<int>(rng.range(0, 5));
  RunOpts base;
  base.store_prompts = sp_sd != 5;             // 0..3: both, 4: prompts only, 5: delayeds only
  base.store_delayeds = sp_sd != 4;
  base.pointer_direct = rng.coin(0.3);

  // ---- time marks and frames
  const unsigned long T = static_cast<unsigned long>(rng.range(200, 4000));
  std::vector<unsigned long> marks;
  {
    const int K = static_cast<int>(rng.range(mode == 0 || mode == 3 ? 0 : 2, 24));
    std::set<unsigned long> ms;
    if (rng.coin(0.5))
      ms.insert(0);
    for (int k = 0; k < K; ++k)
      ms.insert(static_cast<unsigned long>(rng.range(0, static_cast<long>(T))));
    marks.assign(ms.begin(), ms.end());
  }
  std::vector<Frame> partition; // consecutive frames
  if (mode == 1 || mode == 2)
    {
      const int nfr = mode == 1 ? static_cast<int>(rng.range(1, 2)) : static_cast<int>(rng.range(2, 5));
      std::set<unsigned long> bs;
      int guard = 0;
      while (static_cast<int>(bs.size()) < nfr + 1 && guard++ < 200)
        {
          unsigned long b;
          const double u = rng.u01();
          if (u < 0.55 && !marks.empty())
            b = rng.pick(marks); // a time mark exactly on a frame boundary
          else if (u < 0.7 && !marks.empty())
            b = rng.pick(marks) + (rng.coin() ? 1 : 0) - (rng.coin() ? 1 : 0);
          else if (u < 0.8)
            b = 0;
          else
            b = static_cast<unsigned long>(rng.range(0, static_cast<long>(T) + 60));
          if (b > T + 1000)
            b = 0; // wrapped below zero
          bs.insert(b);
        }
      std::vector<unsigned long> b(bs.begin(), bs.end());
      for (size_t i = 0; i + 1 < b.size(); ++i)
        {
          Frame f;
          f.s = b[i];
          f.e = b[i + 1];
          // process_data ignores time marks for frames ending before 0.01 s ("end_time > 0.01"): keep ends well above
          if (f.e < 20)
            continue;
          if (!partition.empty() && partition.back().e != f.s)
            continue;
          partition.push_back(f);
        }
      if (partition.empty())
        throw vf::Skip("no usable frame generated");
      if (!sparse_marks_class)
        {
          // make sure every frame contains a time mark (one per millisecond in real data)
          std::set<unsigned long> ms(marks.begin(), marks.end());
          for (const Frame& f : partition)
            if (!frame_has_mark(marks, f))
              ms.insert(rng.coin(0.6) ? f.s : static_cast<unsigned long>(rng.range(static_cast<long>(f.s), static_cast<long>(f.e) - 1)));
          marks.assign(ms.begin(), ms.end());
        }
    }
  // occasionally the same time mark twice in a row
  if (!marks.empty() && rng.coin(0.2))
    {
      const size_t i = static_cast<size_t>(rng.range(0, static_cast<long>(marks.size()) - 1));
      marks.insert(marks.begin() + static_cast<long>(i), marks[i]);
    }
  bool some_frame_without_mark = false;
  for (const Frame& f : partition)
    if (!frame_has_mark(marks, f) && mark_at_or_after(marks, f.s))
      some_frame_without_mark = true;

  const int target = static_cast<int>(rng.range(60, ctx.thorough() ? 900 : 400));
  w.st = gen_stream(rng, marks, w.ss, w.g, has_delayeds, target);
  w.ev_bin.assign(w.st.recs.size(), -1);
  for (size_t i = 0; i < w.st.recs.size(); ++i)
    if (!w.st.recs[i].is_time)
      w.ev_bin[i] = w.g.bin_of(w.st.recs[i]);

  static const char* mode_names[] = { "all-events", "single-frame", "multi-frame", "num_events_to_store" };
  ctx.desc.add("part", "H").add("mode", mode_names[mode]).add("scanner", w.ss.desc()).add("template", tps.desc());
  ctx.desc.add("lm_geometry_is_template", lps.num_views == 0).add("has_delayeds", has_delayeds);
  ctx.desc.add("store_prompts", base.store_prompts).add("store_delayeds", base.store_delayeds);
  ctx.desc.add("num_records", static_cast<long>(w.st.recs.size())).add("num_events", w.st.n_events);
  {
    std::vector<long> m(marks.begin(), marks.end());
    ctx.desc.add("time_marks_ms", m);
    std::vector<long> fb;
    for (const Frame& f : partition)
      fb.push_back(static_cast<long>(f.s));
    if (!partition.empty())
      fb.push_back(static_cast<long>(partition.back().e));
    ctx.desc.add("frame_boundaries_ms", fb);
  }
  ctx.desc.add("frame_without_time_mark", some_frame_without_mark);
  ctx.heartbeat("partH");
  ctx.count("events_generated", w.st.n_events);
  const std::string kclass = some_frame_without_mark ? ":frame-without-time-mark" : "";

  const std::vector<std::pair<int, int>> batches = batch_settings(rng, w.g, ctx.thorough());
  auto pass_tag = [&](const RunOpts& o) {
    const bool multi = (o.nseg_mem > 0 && o.nseg_mem < nseg) || (o.ntof_mem > 0 && o.ntof_mem < w.g.ntof);
    return std::string(multi ? ":multi-pass" : ":single-pass");
  };
  long in_range_max = 0, distinct_max = 0;
  auto note = [&](const Expect& x) {
    in_range_max = std::max(in_range_max, x.stored);
    distinct_max = std::max(distinct_max, x.distinct_bins);
  };
  shared_ptr<HListMode> shared_lm = w.new_lm();

  // one single-frame-like selection through every batching setting, in memory
  auto sweep = [&](const Sel& sel, const std::vector<Frame>& frames, long cutoff, const std::string& mode_name) -> bool {
    const Expect x = model(w.st.recs, w.ev_bin, w.g, sel);
    note(x);
    count_expect(ctx, x);
    std::vector<float> first;
    for (size_t bi = 0; bi < batches.size(); ++bi)
      {
        RunOpts o = base;
        o.nseg_mem = batches[bi].first;
        o.ntof_mem = batches[bi].second;
        o.frames = frames;
        o.cutoff = cutoff;
        // either a fresh list-mode object or the same one after reset()
        shared_ptr<HListMode> lm = (bi % 2 == 0) ? w.new_lm() : shared_lm;
        lm->reset();
        long rew = 0;
        std::vector<float> got;
        try
          {
            got = run_in_memory(ctx, w, w.g, w.tpl, o, lm, &rew);
          }
        catch (const vf::Skip&)
          {
            throw;
          }
        catch (const std::exception& e)
          {
            ctx.violation("process_data-failed:" + mode_name + pass_tag(o) + kclass, opts_text(o) + ": " + e.what());
            return false;
          }
        ctx.count("passes_rewound", rew);
        ctx.count(pass_tag(o) == ":multi-pass" ? "runs_multi_pass" : "runs_single_pass");
        if (!compare(ctx, got, x, w.g, w.st.recs, w.ev_bin, sel, "histogram-differs-from-event-count:" + mode_name + pass_tag(o) + kclass,
                     opts_text(o)))
          return false;
        if (bi == 0)
          first = got;
        else if (got != first)
          {
            ctx.violation("histogram-depends-on-batching:" + mode_name + kclass, opts_text(o));
            return false;
          }
        ctx.count("batching_settings_compared");
        ctx.sub_eval(vf::mix3(static_cast<uint64_t>(bi), static_cast<uint64_t>(o.nseg_mem + 7), static_cast<uint64_t>(o.ntof_mem + 7)),
                     x.stored >= 20 && x.distinct_bins >= 2);
      }
    return true;
  };

  if (mode == 0)
    {
      Sel sel;
      sel.store_prompts = base.store_prompts;
      sel.store_delayeds = base.store_delayeds;
      if (!sweep(sel, {}, 0, "all-events"))
        return;
    }
  else if (mode == 3)
    {
      Sel sel;
      sel.store_prompts = base.store_prompts;
      sel.store_delayeds = base.store_delayeds;
      const Expect all = model(w.st.recs, w.ev_bin, w.g, sel);
      long net = 0;
      for (int c : all.counts)
        net += c;
      // cut-offs: inside the stream, the exact total, beyond the end (early EOF)
      std::vector<long> cuts;
      if (net >= 2)
        cuts.push_back(rng.range(1, net - 1));
      cuts.push_back(1);
      if (net >= 1)
        cuts.push_back(net);
      cuts.push_back(std::max<long>(net, 0) + rng.range(1, 50));
      const int ncuts = ctx.thorough() ? static_cast<int>(cuts.size()) : std::min<int>(2, static_cast<int>(cuts.size()));
      rng.shuffle(cuts);
      for (int k = 0; k < ncuts; ++k)
        {
          sel.cutoff = cuts[static_cast<size_t>(k)];
          if (!sweep(sel, {}, sel.cutoff, "num_events_to_store"))
            return;
          ctx.count("cutoff_cases");
        }
    }
  else
    {
      // ---- single frames in memory (every frame of the partition for mode 1; a random one for mode 2)
      Sel sel;
      sel.store_prompts = base.store_prompts;
      sel.store_delayeds = base.store_delayeds;
      sel.use_frame = true;
      if (mode == 1)
        {
          for (const Frame& f : partition)
            {
              sel.f = f;
              if (!sweep(sel, { f }, 0, "single-frame"))
                return;
            }
        }
      // ---- the partition through per-frame Interfile output, the whole interval in memory
      if (partition.size() >= 2)
        {
          Frame whole;
          whole.s = partition.front().s;
          whole.e = partition.back().e;
          // optionally drop frames (gaps): then no add-up clause, only the per-frame oracle
          std::vector<Frame> frames = partition;
          bool is_partition = true;
          if (rng.coin(0.3) && frames.size() >= 3)
            {
              frames.erase(frames.begin() + rng.range(1, static_cast<long>(frames.size()) - 2));
              is_partition = false;
            }
          RunOpts o = base;
          const std::pair<int, int> b = rng.pick(batches);
          o.nseg_mem = b.first;
          o.ntof_mem = b.second;
          o.frames = frames;
          const bool reduce = rng.coin(0.25) && w.g.max_seg > 0;
          Geo gr = w.g;
          shared_ptr<ProjDataInfo> tpl_r = w.tpl;
          std::vector<int> ev_bin_r = w.ev_bin;
          if (reduce)
            {
              o.max_seg_to_process = static_cast<int>(rng.range(0, w.g.max_seg - 1));
              tpl_r = w.tpl->create_shared_clone();
              tpl_r->reduce_segment_range(-o.max_seg_to_process, o.max_seg_to_process);
              gr.init(tpl_r);
              for (size_t i = 0; i < w.st.recs.size(); ++i)
                if (!w.st.recs[i].is_time)
                  ev_bin_r[i] = gr.bin_of(w.st.recs[i]);
            }
          const std::string prefix = tmp_root(ctx) + vf::fmt("/c14_%ld", ctx.idx);
          remove_frame_files(prefix, static_cast<int>(frames.size()));
          HLmToProjData lm2p;
          shared_ptr<HListMode> lm = w.new_lm();
          configure(lm2p, lm, w.tpl, o, prefix);
          ctx.heartbeat("partH-multi-frame-files");
          try
            {
              lm2p.process_data();
            }
          catch (const std::exception& e)
            {
              ctx.violation("process_data-failed:multi-frame-file" + pass_tag(o) + kclass, opts_text(o) + ": " + e.what());
              remove_frame_files(prefix, static_cast<int>(frames.size()));
              return;
            }
          std::vector<double> sum(static_cast<size_t>(gr.nbins), 0.);
          for (size_t fi = 0; fi < frames.size(); ++fi)
            {
              sel.f = frames[fi];
              const Expect x = model(w.st.recs, ev_bin_r, gr, sel);
              note(x);
              count_expect(ctx, x);
              std::vector<float> got;
              try
                {
                  const shared_ptr<ProjData> pd = ProjData::read_from_file(prefix + vf::fmt("_f%dg1d0b0.hs", static_cast<int>(fi) + 1));
                  if (*pd->get_proj_data_info_sptr() != *tpl_r)
                    {
                      ctx.violation("frame-output-geometry-differs-from-template" + kclass, opts_text(o));
                      remove_frame_files(prefix, static_cast<int>(frames.size()));
                      return;
                    }
                  got = dense_of(*pd, gr);
                }
              catch (const std::exception& e)
                {
                  ctx.violation("frame-output-unreadable" + kclass, opts_text(o) + vf::fmt(" frame %d: ", static_cast<int>(fi) + 1) + e.what());
                  remove_frame_files(prefix, static_cast<int>(frames.size()));
                  return;
                }
              for (int i = 0; i < gr.nbins; ++i)
                sum[static_cast<size_t>(i)] += got[static_cast<size_t>(i)];
              if (!compare(ctx, got, x, gr, w.st.recs, ev_bin_r, sel,
                           "histogram-differs-from-event-count:multi-frame-file" + pass_tag(o) + kclass,
                           opts_text(o) + vf::fmt(" frame %d of %d", static_cast<int>(fi) + 1, static_cast<int>(frames.size()))))
                {
                  remove_frame_files(prefix, static_cast<int>(frames.size()));
                  return;
                }
              ctx.sub_eval(vf::mix3(900 + fi, static_cast<uint64_t>(o.nseg_mem + 7), static_cast<uint64_t>(o.ntof_mem + 7)),
                           x.stored >= 20 && x.distinct_bins >= 2);
            }
          remove_frame_files(prefix, static_cast<int>(frames.size()));
          ctx.count("multi_frame_file_runs");
          // documented for set_output_projdata_sptr: "will only store data from the last defined time frame"
          {
            RunOpts om = o;
            om.max_seg_to_process = -1;
            sel.f = frames.back();
            const Expect x = model(w.st.recs, w.ev_bin, w.g, sel);
            std::vector<float> got;
            try
              {
                got = run_in_memory(ctx, w, w.g, w.tpl, om, w.new_lm());
              }
            catch (const vf::Skip&)
              {
                throw;
              }
            catch (const std::exception& e)
              {
                ctx.violation("process_data-failed:multi-frame-in-memory" + pass_tag(om) + kclass, opts_text(om) + ": " + e.what());
                return;
              }
            if (!compare(ctx, got, x, w.g, w.st.recs, w.ev_bin, sel,
                         "histogram-differs-from-event-count:multi-frame-in-memory-last-frame" + pass_tag(om) + kclass, opts_text(om)))
              return;
          }
          if (is_partition)
            {
              // whole interval as one frame (in memory, other batching) == sum of the frames
              RunOpts ow = base;
              const std::pair<int, int> b2 = rng.pick(batches);
              ow.nseg_mem = b2.first;
              ow.ntof_mem = b2.second;
              ow.frames = { whole };
              ow.max_seg_to_process = -1;
              sel.f = whole;
              const Expect xw = model(w.st.recs, w.ev_bin, w.g, sel);
              note(xw);
              std::vector<float> gw;
              try
                {
                  gw = run_in_memory(ctx, w, w.g, w.tpl, ow, w.new_lm());
                }
              catch (const vf::Skip&)
                {
                  throw;
                }
              catch (const std::exception& e)
                {
                  ctx.violation("process_data-failed:single-frame" + pass_tag(ow) + kclass, opts_text(ow) + ": " + e.what());
                  return;
                }
              if (!compare(ctx, gw, xw, w.g, w.st.recs, w.ev_bin, sel,
                           "histogram-differs-from-event-count:single-frame" + pass_tag(ow) + kclass, opts_text(ow) + " (whole interval)"))
                return;
              // add-up clause, STIR against STIR (on the segments that the per-frame run kept)
              for (int s = gr.min_seg; s <= gr.max_seg; ++s)
                for (int k = gr.min_tof; k <= gr.max_tof; ++k)
                  for (int vw = gr.min_view; vw < gr.min_view + gr.nviews; ++vw)
                    for (int a = gr.min_ax[s - gr.min_seg]; a < gr.min_ax[s - gr.min_seg] + gr.nax[s - gr.min_seg]; ++a)
                      for (int t = gr.min_tang; t < gr.min_tang + gr.ntang; ++t)
                        {
                          const double fs = sum[static_cast<size_t>(gr.index(s, k, vw, a, t))];
                          const double wh = gw[static_cast<size_t>(w.g.index(s, k, vw, a, t))];
                          if (fs != wh)
                            {
                              ctx.violation("partition-frames-do-not-add-up-to-whole-interval" + kclass,
                                            opts_text(o) + ": " + bin_name(gr, gr.index(s, k, vw, a, t))
                                                + vf::fmt(" sum of frames %g, whole interval [%lu,%lu) ms %g", fs, whole.s, whole.e, wh));
                              return;
                            }
                        }
              ctx.count("frame_partitions");
              ctx.count("bins_compared", gr.nbins);
            }
        }
    }
  ctx.nontrivial = in_range_max >= 20 && distinct_max >= 2;
  ctx.count(w.g.ntof > 1 ? (tps.tof_mash > 1 ? "cfg_tof_mashed" : "cfg_tof") : "cfg_nontof");
  if (tps.span > 1 || tps.ge_mixed)
    ctx.count("cfg_axial_compression");
  if (tps.num_views < w.ss.ndet / 2)
    ctx.count("cfg_view_mashing");
  if (tps.num_tang < std::min(w.ss.ndet / 2 + 1, w.ss.ndet - 1))
    ctx.count("cfg_tangential_truncation");
  if (some_frame_without_mark)
    ctx.count("cfg_frame_without_time_mark");
  ctx.count(std::string("mode_") + mode_names[mode]);
  ctx.count(sp_sd <= 3 ? "cfg_prompts_minus_delayeds" : (sp_sd == 4 ? "cfg_prompts_only" : "cfg_delayeds_only"));
}

// ================================================================================================ part G
class HLMObj : public PoissonLogLikelihoodWithLinearModelForMeanAndListModeDataWithProjMatrixByBin<Target>
{
public:
  void set_frame_num(unsigned v) { current_frame_num = v; }
  void set_num_events_to_use(long v) { num_events_to_use = v; }
};
typedef PoissonLogLikelihoodWithLinearModelForMeanAndProjData<Target> PDObj;

struct MatrixCfg
{
  bool cache_disabled = false, basic_only = false, sym90 = true, sym180 = true, swap_seg = true, swap_s = true, shift_z = true;
  bool restrict_fov = true;
  int tang_lors = 1;
  vf::Desc desc() const
  {
    vf::Desc d;
    d.add("cache_disabled", cache_disabled).add("basic_only", basic_only).add("sym90", sym90).add("sym180", sym180);
    d.add("swap_seg", swap_seg).add("swap_s", swap_s).add("shift_z", shift_z).add("restrict_fov", restrict_fov).add("tang_lors", tang_lors);
    return d;
  }
};
static shared_ptr<ProjMatrixByBinUsingRayTracing>
make_matrix(const MatrixCfg& c)
{
  shared_ptr<ProjMatrixByBinUsingRayTracing> m(new ProjMatrixByBinUsingRayTracing());
  m->set_num_tangential_LORs(c.tang_lors);
  m->set_restrict_to_cylindrical_FOV(c.restrict_fov);
  m->set_do_symmetry_90degrees_min_phi(c.sym90);
  m->set_do_symmetry_180degrees_min_phi(c.sym180);
  m->set_do_symmetry_swap_segment(c.swap_seg);
  m->set_do_symmetry_swap_s(c.swap_s);
  m->set_do_symmetry_shift_z(c.shift_z);
  m->enable_cache(!c.cache_disabled);
  m->store_only_basic_bins_in_cache(c.basic_only);
  return m;
}

static shared_ptr<ProjDataInMemory>
random_projdata(vf::Rng& rng, const shared_ptr<const ExamInfo>& exam, const shared_ptr<const ProjDataInfo>& pdi, double lo, double hi)
{
  shared_ptr<ProjDataInMemory> pd(new ProjDataInMemory(exam, pdi));
  for (auto it = pd->begin_all(); it != pd->end_all(); ++it)
    *it = static_cast<float>(rng.uniform(lo, hi));
  return pd;
}

static std::vector<float>
flat(const Target& t)
{
  return std::vector<float>(t.begin_all_const(), t.end_all_const());
}

static void
make_dir(const std::string& d)
{
  ::mkdir(d.c_str(), 0755);
}
static void
remove_dir(const std::string& d)
{
  if (DIR* dir = ::opendir(d.c_str()))
    {
      while (struct dirent* e = ::readdir(dir))
        {
          const std::string n = e->d_name;
          if (n != "." && n != "..")
            ::unlink((d + "/" + n).c_str());
        }
      ::closedir(dir);
    }
  ::rmdir(d.c_str());
}

static void
part_g(Ctx& ctx)
{
  vf::Rng& rng = ctx.rng;
  World w;
  gen_world(ctx, w, true);
  vg::PdiSpec lps;
  w.lm_pdi = gen_template(ctx, w, lps, true);
  const bool tof = w.lm_pdi->is_tof_data();
  const int pmaxseg = w.lm_pdi->get_max_segment_num();
  const int max_seg = rng.coin(0.3) ? static_cast<int>(rng.range(0, pmaxseg)) : -1;
  // geometry actually used by both objective functions
  w.tpl = w.lm_pdi->create_shared_clone();
  if (max_seg >= 0)
    w.tpl->reduce_segment_range(-max_seg, max_seg);
  w.g.init(w.tpl);

  MatrixCfg mc;
  mc.cache_disabled = rng.coin(0.25);
  mc.basic_only = rng.coin(0.3);
  mc.sym90 = rng.coin(0.75);
  mc.sym180 = rng.coin(0.75);
  mc.swap_seg = rng.coin(0.75);
  mc.swap_s = rng.coin(0.75);
  mc.shift_z = rng.coin(0.75);
  mc.restrict_fov = rng.coin(0.8);
  static const std::vector<int> tl = { 1, 1, 2 };
  mc.tang_lors = rng.pick(tl);
  const bool additive = rng.coin(0.65);
  const bool norm_projdata = !tof && rng.coin(0.5);
  const int nviews = w.tpl->get_num_views();
  int S = rng.coin(0.3) ? 1 : rng.pick(vg::divisors(nviews));
  const int sel_mode = static_cast<int>(rng.range(0, 2)); // 0 all events, 1 frame, 2 num events
  // cache: 0 = read the list-mode object on every call (no files); otherwise record cache files under the temp directory
  const int cache_kind = static_cast<int>(rng.range(0, 2)); // 0 none, 1 small (several batches), 2 large
  const int nxy = 2 * static_cast<int>(rng.range(1, ctx.thorough() ? 5 : 4)) + 1;
  const float zoom = static_cast<float>(std::min(1., nxy / (rng.uniform(0.6, 1.2) * lps.num_tang)));

  // ---- stream
  const unsigned long T = static_cast<unsigned long>(rng.range(200, 3000));
  std::vector<unsigned long> marks;
  {
    std::set<unsigned long> ms;
    if (rng.coin(0.5))
      ms.insert(0);
    const int K = static_cast<int>(rng.range(2, 16));
    for (int k = 0; k < K; ++k)
      ms.insert(static_cast<unsigned long>(rng.range(0, static_cast<long>(T))));
    marks.assign(ms.begin(), ms.end());
  }
  std::vector<Frame> frames;
  unsigned frame_num = 1;
  if (sel_mode == 1)
    {
      // 1..3 consecutive frames with boundaries on time marks where possible; every frame contains a mark
      std::set<unsigned long> bs;
      const int nfr = static_cast<int>(rng.range(1, 3));
      int guard = 0;
      while (static_cast<int>(bs.size()) < nfr + 1 && guard++ < 100)
        bs.insert(rng.coin(0.7) ? rng.pick(marks) : static_cast<unsigned long>(rng.range(0, static_cast<long>(T) + 50)));
      std::vector<unsigned long> b(bs.begin(), bs.end());
      for (size_t i = 0; i + 1 < b.size(); ++i)
        {
          Frame f;
          f.s = b[i], f.e = b[i + 1];
          if (f.e < 20)
            continue;
          frames.push_back(f);
        }
      if (frames.empty())
        throw vf::Skip("no usable frame generated");
      std::set<unsigned long> ms(marks.begin(), marks.end());
      for (const Frame& f : frames)
        if (!frame_has_mark(marks, f))
          ms.insert(f.s);
      marks.assign(ms.begin(), ms.end());
      frame_num = static_cast<unsigned>(rng.range(1, static_cast<long>(frames.size())));
    }
  w.st = gen_stream(rng, marks, w.ss, w.g, rng.coin(0.7), static_cast<int>(rng.range(60, ctx.thorough() ? 500 : 250)));
  w.ev_bin.assign(w.st.recs.size(), -1);
  for (size_t i = 0; i < w.st.recs.size(); ++i)
    if (!w.st.recs[i].is_time)
      w.ev_bin[i] = w.g.bin_of(w.st.recs[i]);

  Sel sel;
  sel.store_prompts = true;
  sel.store_delayeds = false;
  if (sel_mode == 1)
    {
      sel.use_frame = true;
      sel.f = frames[frame_num - 1];
    }
  Expect x = model(w.st.recs, w.ev_bin, w.g, sel);
  long num_events_to_use = 0;
  unsigned long cache_size = 0;
  if (cache_kind == 1)
    cache_size = static_cast<unsigned long>(rng.range(3, 40));
  if (sel_mode == 2)
    {
      if (x.stored < 2)
        throw vf::Skip("too few events for a cut-off");
      // num_events_to_use is only exercised where all events used fit into one batch of the record cache: the class counts
      // the events per batch, so with a cache smaller than the number it uses every event of the stream; neither the property
      // statement nor the documentation says what the number means across batches (see the builder's report)
      num_events_to_use = rng.range(1, cache_kind == 1 ? std::min<long>(x.stored, static_cast<long>(cache_size) - 1) : x.stored);
      sel.cutoff = num_events_to_use;
      x = model(w.st.recs, w.ev_bin, w.g, sel);
    }
  const long n_used = x.stored;
  if (cache_kind == 1)
    {
      // an exactly full last batch leaves an empty batch behind, which LM_distributable_computation asserts against (debug builds)
      while (n_used > 0 && n_used % static_cast<long>(cache_size) == 0)
        ++cache_size;
    }
  else if (cache_kind == 2)
    cache_size = 100000;

  ctx.desc.add("part", "G").add("scanner", w.ss.desc()).add("lm_geometry", lps.desc()).add("max_segment_num_to_process", max_seg);
  ctx.desc.add("matrix", mc.desc()).add("additive", additive).add("norm_projdata", norm_projdata).add("num_subsets", S);
  ctx.desc.add("selection", sel_mode == 0 ? "all-events" : (sel_mode == 1 ? "frame" : "num_events_to_use"));
  ctx.desc.add("frame_num", static_cast<int>(frame_num)).add("num_events_to_use", num_events_to_use);
  ctx.desc.add("cache_size", static_cast<long>(cache_size)).add("nxy", nxy).add("zoom", zoom).add("events_used", n_used);
  {
    std::vector<long> m(marks.begin(), marks.end());
    ctx.desc.add("time_marks_ms", m);
    std::vector<long> fb;
    for (const Frame& f : frames)
      fb.push_back(static_cast<long>(f.s)), fb.push_back(static_cast<long>(f.e));
    ctx.desc.add("frames_ms", fb);
  }
  ctx.heartbeat("partG-setup");
  ctx.count("events_generated", w.st.n_events);
  if (n_used < 1)
    throw vf::Skip("no prompt event in range (the list-mode objective function asserts a non-empty batch)");

  // ---- image and model terms
  shared_ptr<VoxelsOnCartesianGrid<float>> image;
  try
    {
      image.reset(new VoxelsOnCartesianGrid<float>(w.exam, *w.tpl, zoom, CartesianCoordinate3D<float>(0.F, 0.F, 0.F),
                                                    CartesianCoordinate3D<int>(-1, nxy, nxy)));
    }
  catch (const std::exception& e)
    {
      throw vf::Skip(std::string("image rejected: ") + e.what());
    }
  vg::fill_random(*image, rng, 0.5, 2.0);
  const int nvox = static_cast<int>(std::distance(image->begin_all_const(), image->end_all_const()));
  shared_ptr<ProjDataInMemory> add_pd;
  if (additive)
    add_pd = random_projdata(rng, w.exam, w.tpl, 0.2, 2.0);
  shared_ptr<ProjDataInMemory> norm_pd;
  if (norm_projdata)
    norm_pd = random_projdata(rng, w.exam, w.tpl, 0.5, 2.0);
  auto make_norm = [&]() -> shared_ptr<BinNormalisation> {
    if (norm_projdata)
      return shared_ptr<BinNormalisation>(new BinNormalisationFromProjData(norm_pd));
    return shared_ptr<BinNormalisation>(new TrivialBinNormalisation);
  };

  // ---- the histogram of the same events through the real LmToProjData
  RunOpts o;
  o.store_prompts = true;
  o.store_delayeds = false;
  if (sel_mode == 1)
    o.frames = { frames[frame_num - 1] };
  o.cutoff = num_events_to_use;
  std::vector<float> ydense;
  shared_ptr<ProjData> y(new ProjDataInMemory(w.exam, w.tpl));
  {
    HLmToProjData lm2p;
    shared_ptr<HListMode> lm = w.new_lm();
    configure(lm2p, lm, w.tpl, o, tmp_root(ctx) + "/c14_unused");
    y->fill(-77.f);
    lm2p.set_output_projdata_sptr(y);
    ctx.heartbeat("partG-histogram");
    lm2p.process_data();
    ydense = dense_of(*y, w.g);
    if (!compare(ctx, ydense, x, w.g, w.st.recs, w.ev_bin, sel, "histogram-differs-from-event-count:likelihood-input", opts_text(o)))
      return;
  }

  // ---- list-mode objective function
  const std::string cache_dir = tmp_root(ctx) + vf::fmt("/c14cache_%ld", ctx.idx);
  struct DirGuard
  {
    std::string d;
    bool on;
    ~DirGuard()
    {
      if (on)
        remove_dir(d);
    }
  } guard{ cache_dir, cache_size > 0 };
  if (cache_size > 0)
    {
      remove_dir(cache_dir);
      make_dir(cache_dir);
    }
  shared_ptr<HListMode> lm = w.new_lm();
  HLMObj lmobj;
  PDObj pdobj;
  shared_ptr<Target> target(image->clone());
  ctx.heartbeat("partG-set_up");
  try
    {
      lmobj.set_input_data(lm);
      lmobj.set_proj_matrix(make_matrix(mc));
      if (additive)
        lmobj.set_additive_proj_data_sptr(add_pd);
      lmobj.set_normalisation_sptr(make_norm());
      lmobj.set_num_subsets(S);
      lmobj.set_use_subset_sensitivities(true);
      lmobj.set_recompute_sensitivity(true);
      if (max_seg >= 0)
        lmobj.set_max_segment_num_to_process(max_seg);
      if (sel_mode == 1)
        {
          lmobj.frame_defs = frame_defs_of(frames);
          lmobj.set_frame_num(frame_num);
        }
      lmobj.set_num_events_to_use(num_events_to_use);
      if (cache_size > 0)
        {
          lmobj.set_cache_path(cache_dir);
          lmobj.set_cache_max_size(cache_size);
          lmobj.set_recompute_cache(true);
        }
      if (lmobj.set_up(target) != Succeeded::yes)
        throw vf::Skip("list-mode objective function set_up returned no");

      pdobj.set_proj_data_sptr(y);
      shared_ptr<ProjectorByBinPair> pp(new ProjectorByBinPairUsingProjMatrixByBin(make_matrix(mc)));
      pdobj.set_projector_pair_sptr(pp);
      if (additive)
        pdobj.set_additive_proj_data_sptr(add_pd);
      pdobj.set_normalisation_sptr(make_norm());
      pdobj.set_num_subsets(S);
      pdobj.set_use_subset_sensitivities(true);
      pdobj.set_recompute_sensitivity(true);
      if (pdobj.set_up(target) != Succeeded::yes)
        throw vf::Skip("projection-data objective function set_up returned no");
    }
  catch (const vf::Skip&)
    {
      throw;
    }
  catch (const std::exception& e)
    {
      throw vf::Skip(std::string("objective function rejected: ") + e.what());
    }

  // ---- float64 reference on the rows of an identically configured matrix
  ctx.heartbeat("partG-reference");
  shared_ptr<ProjMatrixByBinUsingRayTracing> refM = make_matrix(mc);
  try
    {
      refM->set_up(w.tpl, image);
    }
  catch (const std::exception& e)
    {
      throw vf::Skip(std::string("matrix set_up rejected: ") + e.what());
    }
  BasicCoordinate<3, int> mn, mx;
  if (!image->get_regular_range(mn, mx))
    throw vf::Skip("image not regular");
  const int ny = mx[2] - mn[2] + 1, nx = mx[3] - mn[3] + 1;
  auto vox = [&](const BasicCoordinate<3, int>& c) { return ((c[1] - mn[1]) * ny + (c[2] - mn[2])) * nx + (c[3] - mn[3]); };
  const std::vector<float> lam = flat(*image);
  const std::vector<float> add_dense = additive ? dense_of(*add_pd, w.g) : std::vector<float>();
  std::vector<double> ref(static_cast<size_t>(nvox), 0.), ref_abs(static_cast<size_t>(nvox), 0.);
  std::vector<long> terms(static_cast<size_t>(nvox), 0);
  size_t max_row = 0;
  double max_quot = 0;
  {
    ProjMatrixElemsForOneBin row;
    // bins with counts are taken from the model (identical to the histogram, checked above)
    for (int b = 0; b < w.g.nbins; ++b)
      {
        const int yb = x.counts[static_cast<size_t>(b)];
        if (yb <= 0)
          continue;
        // recover the bin coordinates from an event that maps here
        Bin bin;
        for (size_t i = 0; i < w.st.recs.size(); ++i)
          if (w.ev_bin[i] == b)
            {
              w.g.bin_of(w.st.recs[i], &bin);
              break;
            }
        bin.set_bin_value(1.f);
        refM->get_proj_matrix_elems_for_one_bin(row, bin);
        max_row = std::max(max_row, row.size());
        // planes outside the image are dropped exactly as ProjMatrixElemsForOneBin::forward_project/back_project do
        std::vector<std::pair<size_t, double>> elems;
        for (auto it = row.begin(); it != row.end(); ++it)
          {
            const BasicCoordinate<3, int> c = it->get_coords();
            if (c[1] < mn[1] || c[1] > mx[1])
              continue;
            if (c[2] < mn[2] || c[2] > mx[2] || c[3] < mn[3] || c[3] > mx[3])
              throw vf::Skip("matrix row addresses a voxel outside the transaxial image range");
            elems.push_back({ static_cast<size_t>(vox(c)), static_cast<double>(it->get_value()) });
          }
        if (elems.empty())
          continue; // nothing is forward or back projected for this bin in either class
        double f = additive ? static_cast<double>(add_dense[static_cast<size_t>(b)]) : 0.;
        for (const auto& el : elems)
          f += el.second * lam[el.first];
        if (!(f > 0))
          throw vf::Skip("zero forward projection for a bin with counts");
        max_quot = std::max(max_quot, yb / f);
        for (const auto& el : elems)
          {
            const double t = el.second * yb / f;
            ref[el.first] += t;
            ref_abs[el.first] += std::fabs(t);
            terms[el.first] += yb; // the list-mode sum adds one term per event
          }
      }
  }
  if (max_quot > 500.)
    {
      // within a factor 20 of the documented quotient cap (1e4) of divide_and_truncate, which the list-mode class does not apply
      ctx.count("skipped_near_quotient_cap");
      throw vf::Skip("count/estimate quotient close to the documented truncation of the projection-data class");
    }
  std::vector<double> band(static_cast<size_t>(nvox));
  for (int j = 0; j < nvox; ++j)
    band[static_cast<size_t>(j)] = vf::band32(static_cast<double>(max_row + 4 + terms[static_cast<size_t>(j)]), ref_abs[static_cast<size_t>(j)]);

  // ---- sub-gradients
  const std::string tag = std::string(tof ? "tof" : "nontof") + (additive ? ":additive" : ":no-additive")
                          + (cache_size > 0 ? ":record-cache-files" : ":no-cache");
  std::vector<double> sumL(static_cast<size_t>(nvox), 0.), sumP(static_cast<size_t>(nvox), 0.);
  auto vname = [&](int j) {
    const int xx = j % nx + mn[3], yy = (j / nx) % ny + mn[2], zz = j / (nx * ny) + mn[1];
    return vf::fmt("voxel(z%d,y%d,x%d)", zz, yy, xx);
  };
  for (int s = 0; s < S; ++s)
    {
      shared_ptr<Target> gl(target->get_empty_copy()), gp(target->get_empty_copy());
      std::fill(gl->begin_all(), gl->end_all(), 7.f);
      std::fill(gp->begin_all(), gp->end_all(), 7.f);
      ctx.heartbeat("partG-lm-gradient");
      lmobj.compute_sub_gradient_without_penalty_plus_sensitivity(*gl, *target, s);
      ctx.heartbeat("partG-projdata-gradient");
      pdobj.compute_sub_gradient_without_penalty_plus_sensitivity(*gp, *target, s);
      const std::vector<float> L = flat(*gl), P = flat(*gp);
      {
        // defect found on the unchanged tree (see final report): without OpenMP LM_distributable_computation accumulates into a
        // thread-local image that is never added to the output => the data term is identically zero
        bool all_zero = true, some_expected = false;
        for (int j = 0; j < nvox; ++j)
          {
            all_zero = all_zero && L[static_cast<size_t>(j)] == 0.f;
            some_expected = some_expected || std::fabs(P[static_cast<size_t>(j)]) > 2 * band[static_cast<size_t>(j)];
          }
        if (all_zero && some_expected)
          {
            int jm = 0;
            for (int j = 0; j < nvox; ++j)
              if (std::fabs(P[static_cast<size_t>(j)]) > std::fabs(P[static_cast<size_t>(jm)]))
                jm = j;
            ctx.violation("lm-subgradient-identically-zero-although-events-contribute",
                          vf::fmt("subset %d of %d: every voxel of the list-mode gradient+sensitivity is 0; projection-data gradient of the "
                                  "histogram at %s is %.9g (%ld prompt events used) [%s]",
                                  s, S, vname(jm).c_str(), P[static_cast<size_t>(jm)], n_used, tag.c_str()));
            return;
          }
      }
      for (int j = 0; j < nvox; ++j)
        {
          sumL[static_cast<size_t>(j)] += L[static_cast<size_t>(j)];
          sumP[static_cast<size_t>(j)] += P[static_cast<size_t>(j)];
          // per subset: every term is non-negative, so the band of the full sum bounds the rounding of either sub-gradient
          if (!vf::close_enough(L[static_cast<size_t>(j)], P[static_cast<size_t>(j)], 2 * band[static_cast<size_t>(j)]))
            {
              ctx.violation("lm-subgradient-differs-from-projdata-subgradient-of-histogram:" + tag + (S > 1 ? ":subsets" : ":one-subset"),
                            vf::fmt("subset %d of %d, %s: list mode %.9g, projection data %.9g, allowed difference %.3g (reference for all "
                                    "subsets together %.9g)",
                                    s, S, vname(j).c_str(), L[static_cast<size_t>(j)], P[static_cast<size_t>(j)],
                                    2 * band[static_cast<size_t>(j)], ref[static_cast<size_t>(j)]));
              return;
            }
        }
      ctx.count("lm_gradient_voxels_compared", nvox);
      if (!tof)
        {
          // full gradient (data term minus subset sensitivity); the sensitivity itself is C05's subject: compare LM with PD only
          shared_ptr<Target> fl(target->get_empty_copy()), fp(target->get_empty_copy());
          lmobj.compute_sub_gradient_without_penalty(*fl, *target, s);
          pdobj.compute_sub_gradient_without_penalty(*fp, *target, s);
          const std::vector<float> FL = flat(*fl), FP = flat(*fp);
          const std::vector<float> SL = flat(lmobj.get_subset_sensitivity(s)), SP = flat(pdobj.get_subset_sensitivity(s));
          for (int j = 0; j < nvox; ++j)
            {
              // sensitivity: sum of at most nbins non-negative products; band from its own magnitude
              const double sb = vf::band32(static_cast<double>(w.g.nbins + 8), std::max(std::fabs(SL[static_cast<size_t>(j)]), std::fabs(SP[static_cast<size_t>(j)])));
              if (!vf::close_enough(FL[static_cast<size_t>(j)], FP[static_cast<size_t>(j)], 2 * band[static_cast<size_t>(j)] + 2 * sb))
                {
                  ctx.violation(std::string("lm-full-subgradient-differs-from-projdata-full-subgradient:") + tag
                                    + (norm_projdata ? ":norm-projdata" : ":norm-trivial"),
                                vf::fmt("subset %d of %d, %s: list mode %.9g (sensitivity %.9g), projection data %.9g (sensitivity %.9g), "
                                        "allowed %.3g",
                                        s, S, vname(j).c_str(), FL[static_cast<size_t>(j)], SL[static_cast<size_t>(j)],
                                        FP[static_cast<size_t>(j)], SP[static_cast<size_t>(j)], 2 * band[static_cast<size_t>(j)] + 2 * sb));
                  return;
                }
            }
          ctx.count("lm_full_gradient_voxels_compared", nvox);
        }
    }
  for (int j = 0; j < nvox; ++j)
    {
      const double bj = band[static_cast<size_t>(j)] * (1 + S); // S float results added in double
      if (!vf::close_enough(sumL[static_cast<size_t>(j)], ref[static_cast<size_t>(j)], bj))
        {
          ctx.violation("lm-gradient-differs-from-event-sum-reference:" + tag,
                        vf::fmt("%s: list-mode gradient+sensitivity over all %d subsets %.9g, sum over the %ld events %.9g, band %.3g",
                                vname(j).c_str(), S, sumL[static_cast<size_t>(j)], n_used, ref[static_cast<size_t>(j)], bj));
          return;
        }
      if (!vf::close_enough(sumP[static_cast<size_t>(j)], ref[static_cast<size_t>(j)], bj))
        {
          ctx.violation("projdata-gradient-of-histogram-differs-from-event-sum-reference:" + tag,
                        vf::fmt("%s: projection-data gradient+sensitivity over all %d subsets %.9g, reference %.9g, band %.3g",
                                vname(j).c_str(), S, sumP[static_cast<size_t>(j)], ref[static_cast<size_t>(j)], bj));
          return;
        }
    }
  ctx.count("lm_gradient_voxels_compared", nvox);
  count_expect(ctx, x);
  ctx.count(tof ? "cfg_gradient_tof" : "cfg_gradient_nontof");
  ctx.count(additive ? "cfg_gradient_additive" : "cfg_gradient_no_additive");
  ctx.count(cache_size > 0 ? "cfg_gradient_record_cache" : "cfg_gradient_no_cache");
  if (S > 1)
    ctx.count("cfg_gradient_subsets");
  ctx.nontrivial = x.stored >= 20 && x.distinct_bins >= 2;
}

static void
run_case(Ctx& ctx)
{
  // 1 likelihood case for every 4 histogramming cases
  if (ctx.idx % 5 == 4)
    part_g(ctx);
  else
    part_h(ctx);
}

int
main(int argc, char** argv)
{
  vg::quiet();
  const int rc = vf::verif_main(argc, argv, "C14", run_case);
  if (!g_own_tmp.empty() && g_own_tmp != "/var/tmp")
    remove_dir(g_own_tmp);
  return rc;
}
