// C15: rebinning and resampling conserve counts and physical positions (DESIGN.md §6 C15).
//
// Part 1 (even case numbers): SSRB.  Sparse integer detector-pair events are histogrammed by the harness at a
// fine sampling with the input geometry's own detector-pair -> bin map; SSRB(ProjDataInfo,...) gives the output
// geometry, SSRB(out,in,false) rebins; oracle: output == histogram of the same events made directly with the
// OUTPUT geometry's detector-pair map (exact, small integers), totals conserved when nothing is trimmed.
//
// Part 2 (odd case numbers): zoom_image.  Random images/zooms/offsets/sizes and the three ZoomOptions:
// sum conservation and centre of mass (when the new grid covers the object), uniform stays uniform under
// preserve_values, the options differ by a global factor only, one call == in place == 2-argument form ==
// two-step (xy then z, xy-only overload) within computed bands; the input's z index range need not start at 0.
//
// Deliberately NOT checked (not consequences of the C15 statement, see vlib/propdefs/c15.py level_note): that
// SSRB(ProjDataInfo) rejects illegal arguments, and which grid the xy-only overload returns through its
// "nothing to do" shortcut.
#include "common/verif.h"
#include "common/gen.h"
#include "stir/SSRB.h"
#include "stir/ProjDataInMemory.h"
#include "stir/ProjDataInfoCylindricalNoArcCorr.h"
#include "stir/DetectionPositionPair.h"
#include "stir/SegmentBySinogram.h"
#include "stir/ExamInfo.h"
#include "stir/zoom.h"
#include "stir/ZoomOptions.h"
#include "stir/centre_of_gravity.h"
#include "stir/VoxelsOnCartesianGrid.h"
#include "stir/IndexRange3D.h"
#include "stir/Coordinate3D.h"
#include <tuple>

using namespace stir;
using vf::Ctx;
using vf::EPS32;

// =====================================================================================================
//                                              SSRB
// =====================================================================================================
namespace {

struct Ev
{
  int d1, r1, d2, r2, t, n;
};
struct BK
{
  int s, a, v, tg, k;
  bool operator<(const BK& o) const { return std::tie(s, k, a, v, tg) < std::tie(o.s, o.k, o.a, o.v, o.tg); }
};
std::string
bks(const BK& b)
{
  return vf::fmt("bin(seg%d,ax%d,view%d,tang%d,tof%d)", b.s, b.a, b.v, b.tg, b.k);
}
std::string
evs(const Ev& e)
{
  return vf::fmt("(d%d,r%d)-(d%d,r%d),t%d x%d", e.d1, e.r1, e.d2, e.r2, e.t, e.n);
}

bool
in_range(const ProjDataInfo& p, const Bin& b)
{
  if (b.segment_num() < p.get_min_segment_num() || b.segment_num() > p.get_max_segment_num())
    return false;
  if (b.axial_pos_num() < p.get_min_axial_pos_num(b.segment_num()) || b.axial_pos_num() > p.get_max_axial_pos_num(b.segment_num()))
    return false;
  if (b.view_num() < p.get_min_view_num() || b.view_num() > p.get_max_view_num())
    return false;
  if (b.tangential_pos_num() < p.get_min_tangential_pos_num() || b.tangential_pos_num() > p.get_max_tangential_pos_num())
    return false;
  if (b.timing_pos_num() < p.get_min_tof_pos_num() || b.timing_pos_num() > p.get_max_tof_pos_num())
    return false;
  return true;
}

// the geometry's own detector-pair -> bin map; false: the geometry does not hold this pair
bool
assign(const ProjDataInfoCylindricalNoArcCorr& p, const Ev& e, BK& k)
{
  DetectionPositionPair<> dp(DetectionPosition<>(e.d1, e.r1, 0), DetectionPosition<>(e.d2, e.r2, 0), e.t);
  Bin b;
  if (p.get_bin_for_det_pos_pair(b, dp) != Succeeded::yes)
    return false;
  if (!in_range(p, b))
    return false;
  k = BK{ b.segment_num(), b.axial_pos_num(), b.view_num(), b.tangential_pos_num(), b.timing_pos_num() };
  return true;
}

struct Cfg
{
  int nseg, nviews, trim, max_in, ntof;
};

std::string
cfgs(const Cfg& c)
{
  return vf::fmt("num_segments_to_combine=%d num_views_to_combine=%d num_tang_poss_to_trim=%d max_in_segment_num_to_process=%d "
                 "num_tof_bins_to_combine=%d",
                 c.nseg, c.nviews, c.trim, c.max_in, c.ntof);
}

void
ssrb_case(Ctx& ctx)
{
  vf::Rng& rng = ctx.rng;
  ctx.desc.add("part", "ssrb");
  // ---- scanner: cylindrical, non-arc-corrected, optional TOF
  vg::ScannerOpts so;
  so.min_det = 8;
  so.max_det = ctx.thorough() ? 64 : 32;
  so.min_rings = 1;
  so.max_rings = ctx.thorough() ? (rng.coin(0.1) ? 24 : 9) : 7;
  so.p_tof = 0.35;
  so.allow_blocks = false;
  vg::ScannerSpec ss = vg::gen_scanner(rng, so);
  ctx.desc.add("scanner", ss.desc());
  shared_ptr<Scanner> sc;
  try
    {
      sc = vg::make_scanner(ss);
    }
  catch (const std::exception& e)
    {
      throw vf::Skip(std::string("scanner rejected: ") + e.what());
    }
  // ---- fine input sampling: span 1 (mostly) or small odd span, all segments have the same axial compression
  vg::PdiSpec ps;
  const int R = ss.nrings;
  {
    const double u = rng.u01();
    ps.span = (u < 0.7 || R < 2) ? 1 : (u < 0.9 || R < 3 ? 3 : 5);
    if ((ps.span - 1) / 2 > R - 1)
      ps.span = 1;
    // SSRB.h: "This function can only handle in_proj_data_info where all segments have identical 'num_segments_to_combine'"
    // => choose max_delta such that the last segment is complete: max_delta = span/2 + j*span
    const int half = (ps.span - 1) / 2;
    std::vector<int> ok;
    for (int md = half; md <= R - 1; md += ps.span)
      ok.push_back(md);
    ps.max_delta = rng.coin(0.6) ? ok.back() : rng.pick(ok);
    const int maxviews = ss.ndet / 2;
    ps.num_views = rng.coin(0.7) ? maxviews : maxviews / rng.pick(vg::divisors(maxviews));
    const int maxtang = std::min(ss.ndet / 2 + 1, ss.ndet - 1);
    ps.num_tang = rng.coin(0.7) ? maxtang : static_cast<int>(rng.range(2, maxtang));
    ps.arccorr = false;
    if (ss.tof_bins > 0)
      {
        // odd TOF mashing only ("TODO cope with even numbers!" in ProjDataInfo::set_tof_mash_factor)
        std::vector<int> ok_m;
        for (int m = 1; m <= ss.tof_bins; m += 2)
          if ((ss.tof_bins / m) % 2 == 1)
            ok_m.push_back(m);
        ps.tof_mash = rng.coin(0.1) ? 0 : (rng.coin(0.6) ? 1 : rng.pick(ok_m));
      }
    else
      ps.tof_mash = 0;
    ps.reduce_segments = rng.coin(0.15) ? 0 : -1;
  }
  shared_ptr<ProjDataInfo> in_pdi_any;
  try
    {
      in_pdi_any = vg::make_pdi(sc, ps, &rng);
    }
  catch (const std::exception& e)
    {
      throw vf::Skip(std::string("pdi rejected: ") + e.what());
    }
  ctx.desc.add("pdi", ps.desc());
  auto in_pdi = dynamic_pointer_cast<ProjDataInfoCylindricalNoArcCorr>(in_pdi_any);
  if (!in_pdi)
    throw vf::Skip("unexpected pdi class");
  const bool in_tof = in_pdi->is_tof_data();
  const int T = ss.tof_bins;

  // ---- sparse integer detector-pair events
  const int n_ev = static_cast<int>(rng.range(10, ctx.thorough() ? 400 : 150));
  std::vector<Ev> events;
  long total_generated = 0;
  for (int i = 0; i < n_ev; ++i)
    {
      Ev e;
      e.d1 = static_cast<int>(rng.range(0, ss.ndet - 1));
      do
        {
          // mostly roughly opposite detectors so that most pairs are inside the tangential range
          if (rng.coin(0.8))
            e.d2 = (e.d1 + ss.ndet / 2 + static_cast<int>(rng.range(-ss.ndet / 4, ss.ndet / 4)) + ss.ndet) % ss.ndet;
          else
            e.d2 = static_cast<int>(rng.range(0, ss.ndet - 1));
      } while (e.d2 == e.d1);
      e.r1 = static_cast<int>(rng.range(0, R - 1));
      e.r2 = static_cast<int>(rng.range(0, R - 1));
      e.t = in_tof ? static_cast<int>(rng.range(-(T / 2), T / 2)) : 0;
      e.n = static_cast<int>(rng.range(1, 5));
      events.push_back(e);
      total_generated += e.n;
    }
  ctx.desc.add("events", static_cast<long>(events.size()));
  ctx.heartbeat("ssrb-histogram-input");

  // ---- histogram at the fine sampling with the input geometry's own map
  std::map<BK, float> in_hist;
  std::vector<char> in_ok(events.size(), 0);
  std::vector<BK> in_bin(events.size());
  long in_total = 0;
  for (size_t i = 0; i < events.size(); ++i)
    {
      BK k;
      if (assign(*in_pdi, events[i], k))
        {
          in_ok[i] = 1;
          in_bin[i] = k;
          in_hist[k] += static_cast<float>(events[i].n);
          in_total += events[i].n;
        }
    }
  ctx.count("ssrb_events_outside_input", total_generated - in_total);
  shared_ptr<ExamInfo> exam(new ExamInfo);
  ProjDataInMemory in_pd(exam, in_pdi);
  {
    std::set<std::pair<int, int>> seg_k;
    for (auto& kv : in_hist)
      seg_k.insert({ kv.first.s, kv.first.k });
    for (auto& sk : seg_k)
      {
        SegmentBySinogram<float> seg = in_pd.get_empty_segment_by_sinogram(sk.first, false, sk.second);
        for (auto& kv : in_hist)
          if (kv.first.s == sk.first && kv.first.k == sk.second)
            seg[kv.first.a][kv.first.v][kv.first.tg] = kv.second;
        if (in_pd.set_segment(seg) != Succeeded::yes)
          throw vf::Skip("set_segment on input failed");
      }
  }

  // ---- all legal configurations
  const int max_seg = in_pdi->get_max_segment_num();
  const int nv_in = in_pdi->get_num_views();
  const int nt_in = in_pdi->get_num_tangential_poss();
  std::vector<int> trims = { 0 };
  if (nt_in > 1)
    trims.push_back(1);
  if (nt_in > 2)
    trims.push_back(2);
  if (nt_in > 3)
    trims.push_back(static_cast<int>(rng.range(3, nt_in - 1)));
  trims.push_back(-1); // documented: negative => more (zero) bins are added
  trims.push_back(-2);
  std::vector<int> ntofs = { 1 };
  if (in_tof)
    for (int n = 3; n <= in_pdi->get_num_tof_poss(); n += 2)
      ntofs.push_back(n); // odd; the library rejects those that do not leave an odd number of TOF bins
  std::vector<Cfg> fam_a, fam_b; // a: nothing trimmed by the call arguments
  for (int nseg = 1; nseg <= 2 * max_seg + 1; nseg += 2)
    for (int max_in = -1; max_in <= max_seg; ++max_in)
      {
        const int eff = max_in < 0 ? max_seg : max_in;
        if (nseg / 2 > eff)
          continue; // not legal: no complete output segment ("max_in_segment_num_to_process is too small. No output segments");
                    // whether the library really rejects these is outside C15 and is not probed
        for (int nviews : vg::divisors(nv_in))
          for (int trim : trims)
            for (int ntof : ntofs)
              {
                Cfg c{ nseg, nviews, trim, max_in, ntof };
                ((max_in < 0 || max_in == max_seg) && trim <= 0 ? fam_a : fam_b).push_back(c);
              }
      }
  rng.shuffle(fam_a);
  rng.shuffle(fam_b);
  const size_t budget = ctx.thorough() ? 80 : 24;
  std::vector<Cfg> todo;
  for (size_t i = 0; i < fam_a.size() && todo.size() < budget / 2; ++i)
    todo.push_back(fam_a[i]);
  for (size_t i = 0; i < fam_b.size() && todo.size() < budget; ++i)
    todo.push_back(fam_b[i]);
  for (size_t i = budget / 2; i < fam_a.size() && todo.size() < budget; ++i)
    todo.push_back(fam_a[i]);
  ctx.desc.add("configs_legal", static_cast<long>(fam_a.size() + fam_b.size()));
  ctx.desc.add("configs_run", static_cast<long>(todo.size()));

  std::set<BK> distinct_in_bins;
  for (auto& kv : in_hist)
    distinct_in_bins.insert(kv.first);
  const bool nontrivial_data = in_total >= 10 && distinct_in_bins.size() >= 2;

  for (const Cfg& c : todo)
    {
      ctx.heartbeat(std::string("ssrb-rebin") + (c.nseg > 1 ? "+segments" : "") + (c.nviews > 1 ? "+views" : "") + (c.ntof > 1 ? "+tof" : "")
                    + (c.trim != 0 ? "+trim" : ""));
      shared_ptr<ProjDataInfo> out_any;
      try
        {
          out_any.reset(SSRB(*in_pdi, c.nseg, c.nviews, c.trim, c.max_in, c.ntof));
          // force the lazily built tables of the output geometry (a geometry the library itself refuses is a rejection)
          Bin b0(0, 0, 0, 0);
          (void)dynamic_cast<ProjDataInfoCylindrical&>(*out_any).get_m(b0);
        }
      catch (const std::exception&)
        {
          ctx.count("ssrb_configs_rejected");
          continue;
        }
      auto out_pdi = dynamic_pointer_cast<ProjDataInfoCylindricalNoArcCorr>(out_any);
      if (!out_pdi)
        {
          ctx.violation("ssrb-output-geometry-not-cylindrical-noarccorr", cfgs(c));
          return;
        }
      ProjDataInMemory out_pd(exam, out_pdi);
      try
        {
          SSRB(out_pd, in_pd, false);
        }
      catch (const std::exception& e)
        {
          // SSRB(ProjDataInfo) produced this geometry itself: the data call must accept it
          ctx.violation("ssrb-rejects-geometry-made-by-SSRB-ProjDataInfo", cfgs(c) + " : " + e.what());
          return;
        }
      ctx.count("ssrb_configs");
      if (c.nseg > 1)
        ctx.count("ssrb_cfg_segments_combined");
      if (c.nviews > 1)
        ctx.count("ssrb_cfg_views_combined");
      if (c.ntof > 1)
        ctx.count("ssrb_cfg_tof_combined");
      if (c.trim > 0)
        ctx.count("ssrb_cfg_tang_trimmed");
      if (c.max_in >= 0 && c.max_in < max_seg)
        ctx.count("ssrb_cfg_max_segment_limited");

      // expected output: the same events histogrammed with the OUTPUT geometry's own detector-pair map
      std::map<BK, float> want;
      long trimmed = 0, kept = 0;
      size_t first_trimmed = events.size();
      for (size_t i = 0; i < events.size(); ++i)
        {
          if (!in_ok[i])
            continue;
          BK k;
          if (assign(*out_pdi, events[i], k))
            {
              want[k] += static_cast<float>(events[i].n);
              kept += events[i].n;
            }
          else
            {
              trimmed += events[i].n;
              if (first_trimmed == events.size())
                first_trimmed = i;
            }
        }
      ctx.count("ssrb_trimmed_events", trimmed);
      ctx.count("ssrb_kept_events", kept);

      // bin-for-bin, exact
      long bins = 0;
      double out_total = 0;
      const std::string tags = std::string(c.nseg > 1 ? "+segments" : "") + (c.nviews > 1 ? "+views" : "") + (c.ntof > 1 ? "+tof" : "")
                               + (c.trim != 0 ? "+trim" : "") + (c.max_in >= 0 && c.max_in < max_seg ? "+maxseg" : "");
      for (int s = out_pdi->get_min_segment_num(); s <= out_pdi->get_max_segment_num(); ++s)
        for (int k = out_pdi->get_min_tof_pos_num(); k <= out_pdi->get_max_tof_pos_num(); ++k)
          {
            const SegmentBySinogram<float> seg = out_pd.get_segment_by_sinogram(s, k);
            for (int a = seg.get_min_axial_pos_num(); a <= seg.get_max_axial_pos_num(); ++a)
              for (int v = seg.get_min_view_num(); v <= seg.get_max_view_num(); ++v)
                for (int tg = seg.get_min_tangential_pos_num(); tg <= seg.get_max_tangential_pos_num(); ++tg)
                  {
                    ++bins;
                    const float got = seg[a][v][tg];
                    out_total += got;
                    const BK bk{ s, a, v, tg, k };
                    auto it = want.find(bk);
                    const float w = it == want.end() ? 0.f : it->second;
                    if (got != w)
                      {
                        // find an event that should be (or is wrongly) there for the witness
                        std::string ev_txt;
                        for (size_t i = 0; i < events.size(); ++i)
                          {
                            BK ko;
                            if (in_ok[i] && assign(*out_pdi, events[i], ko) && !(ko < bk) && !(bk < ko))
                              {
                                ev_txt = " e.g. event " + evs(events[i]) + " input " + bks(in_bin[i]);
                                break;
                              }
                          }
                        ctx.violation("ssrb-output-differs-from-direct-histogram" + tags,
                                      cfgs(c) + ": output " + bks(bk) + vf::fmt(" holds %g, direct histogram with the output geometry %g", got, w)
                                          + ev_txt);
                        return;
                      }
                  }
          }
      ctx.count("ssrb_bins_compared", bins);

      // conservation when nothing is trimmed: no tangential trimming, every input ring difference and every input TOF bin
      // is covered by the output geometry
      bool untrimmed = c.trim <= 0;
      for (int s = in_pdi->get_min_segment_num(); s <= in_pdi->get_max_segment_num() && untrimmed; ++s)
        {
          bool cov = false;
          for (int so2 = out_pdi->get_min_segment_num(); so2 <= out_pdi->get_max_segment_num(); ++so2)
            if (in_pdi->get_min_ring_difference(s) >= out_pdi->get_min_ring_difference(so2)
                && in_pdi->get_max_ring_difference(s) <= out_pdi->get_max_ring_difference(so2))
              cov = true;
          if (!cov)
            untrimmed = false;
        }
      if (in_tof
          && out_pdi->get_num_tof_poss() * std::max(1, out_pdi->get_tof_mash_factor())
                 < in_pdi->get_num_tof_poss() * std::max(1, in_pdi->get_tof_mash_factor()))
        untrimmed = false;
      if (in_tof && !out_pdi->is_tof_data())
        untrimmed = false;
      if (untrimmed)
        {
          ctx.count("ssrb_conservation_checks");
          if (out_total != static_cast<double>(in_total))
            {
              ctx.violation("ssrb-total-not-conserved-without-trimming" + tags,
                            cfgs(c) + vf::fmt(": input total %ld output total %.17g", in_total, out_total));
              return;
            }
          if (trimmed != 0)
            {
              ctx.violation("ssrb-untrimmed-output-geometry-rejects-input-pair" + tags,
                            cfgs(c) + ": " + evs(events[first_trimmed]) + " input " + bks(in_bin[first_trimmed])
                                + " has no bin in the output geometry although no range was trimmed");
              return;
            }
        }
      ctx.sub_eval(vf::mix3(c.nseg * 1000 + c.nviews, c.trim * 100 + c.max_in + 50, c.ntof), nontrivial_data);
    }

  ctx.nontrivial = nontrivial_data && ctx.obs["ssrb_configs"] > 0;
}

// =====================================================================================================
//                                              zoom
// =====================================================================================================
typedef VoxelsOnCartesianGrid<float> Img;

// axis a: 0=z 1=y 2=x  (STIR coordinate index a+1)
struct Geo
{
  int mn[3], mx[3];
  float vs[3], org[3];
};
Geo
geo_of(const Img& im)
{
  Geo g;
  const BasicCoordinate<3, int> lo = im.get_min_indices(), hi = im.get_max_indices();
  for (int a = 0; a < 3; ++a)
    {
      g.mn[a] = lo[a + 1];
      g.mx[a] = hi[a + 1];
      g.vs[a] = im.get_voxel_size()[a + 1];
      g.org[a] = im.get_origin()[a + 1];
    }
  return g;
}
std::string
geos(const Geo& g)
{
  return vf::fmt("range z[%d,%d] y[%d,%d] x[%d,%d] voxel(z,y,x)=(%.9g,%.9g,%.9g) origin=(%.9g,%.9g,%.9g)", g.mn[0], g.mx[0], g.mn[1],
                 g.mx[1], g.mn[2], g.mx[2], g.vs[0], g.vs[1], g.vs[2], g.org[0], g.org[1], g.org[2]);
}
// physical coordinate (mm) of index idx on axis a, through the library's own index -> mm map
double
phys(const Img& im, int a, int idx)
{
  BasicCoordinate<3, int> c = im.get_min_indices();
  c[a + 1] = idx;
  return im.get_physical_coordinates_for_indices(c)[a + 1];
}
bool
same_geo(const Geo& a, const Geo& b)
{
  for (int i = 0; i < 3; ++i)
    if (a.mn[i] != b.mn[i] || a.mx[i] != b.mx[i] || a.vs[i] != b.vs[i] || a.org[i] != b.org[i])
      return false;
  return true;
}
bool
same_range(const Geo& a, const Geo& b)
{
  for (int i = 0; i < 3; ++i)
    if (a.mn[i] != b.mn[i] || a.mx[i] != b.mx[i])
      return false;
  return true;
}
const char*
optname(int o)
{
  return o == 0 ? "preserve_sum" : (o == 1 ? "preserve_values" : "preserve_projections");
}
ZoomOptions
mkopt(int o)
{
  return ZoomOptions(o == 0 ? ZoomOptions::preserve_sum : (o == 1 ? ZoomOptions::preserve_values : ZoomOptions::preserve_projections));
}
struct Stats
{
  double sum = 0, abs_sum = 0, max_abs = 0, mn = 1e300, mx = -1e300;
  double mom[3] = { 0, 0, 0 };     // sum v * phys
  double idxmom[3] = { 0, 0, 0 };  // sum v * index
  double absidx[3] = { 0, 0, 0 };  // sum |v * index|
  long n = 0;
};
Stats
stats_of(const Img& im)
{
  Stats s;
  const Geo g = geo_of(im);
  std::vector<double> pz(g.mx[0] - g.mn[0] + 1), py(g.mx[1] - g.mn[1] + 1), px(g.mx[2] - g.mn[2] + 1);
  for (int z = g.mn[0]; z <= g.mx[0]; ++z)
    pz[z - g.mn[0]] = phys(im, 0, z);
  for (int y = g.mn[1]; y <= g.mx[1]; ++y)
    py[y - g.mn[1]] = phys(im, 1, y);
  for (int x = g.mn[2]; x <= g.mx[2]; ++x)
    px[x - g.mn[2]] = phys(im, 2, x);
  for (int z = g.mn[0]; z <= g.mx[0]; ++z)
    for (int y = g.mn[1]; y <= g.mx[1]; ++y)
      for (int x = g.mn[2]; x <= g.mx[2]; ++x)
        {
          const double v = im[z][y][x];
          ++s.n;
          s.sum += v;
          s.abs_sum += std::fabs(v);
          s.max_abs = std::max(s.max_abs, std::fabs(v));
          s.mn = std::min(s.mn, v);
          s.mx = std::max(s.mx, v);
          s.mom[0] += v * pz[z - g.mn[0]];
          s.mom[1] += v * py[y - g.mn[1]];
          s.mom[2] += v * px[x - g.mn[2]];
          s.idxmom[0] += v * z;
          s.idxmom[1] += v * y;
          s.idxmom[2] += v * x;
          s.absidx[0] += std::fabs(v * z);
          s.absidx[1] += std::fabs(v * y);
          s.absidx[2] += std::fabs(v * x);
        }
  return s;
}

// compare two images voxel by voxel; returns false and fills w on the first difference beyond band
bool
images_close(const Img& a, const Img& b, double band, std::string& w)
{
  const Geo g = geo_of(a);
  for (int z = g.mn[0]; z <= g.mx[0]; ++z)
    for (int y = g.mn[1]; y <= g.mx[1]; ++y)
      for (int x = g.mn[2]; x <= g.mx[2]; ++x)
        {
          const double va = a[z][y][x], vb = b[z][y][x];
          if (!(std::fabs(va - vb) <= band))
            {
              w = vf::fmt("voxel (z%d,y%d,x%d): %.9g vs %.9g, |diff| %.3g > band %.3g", z, y, x, va, vb, std::fabs(va - vb), band);
              return false;
            }
        }
  return true;
}

float
gen_zoom(vf::Rng& rng)
{
  const double u = rng.u01();
  if (u < 0.10)
    return 1.f;
  if (u < 0.14)
    return 0.5f;
  if (u < 0.18)
    return 2.f;
  return static_cast<float>(std::exp(rng.uniform(std::log(0.3), std::log(3.0))));
}

void
zoom_case(Ctx& ctx)
{
  vf::Rng& rng = ctx.rng;
  ctx.desc.add("part", "zoom");
  // ---- mode
  //  general: full 3-D overloads; two-step = (x,y) then z
  //  xy     : zoom_x == zoom_y, no change in z: the xy-only overloads against the 3-D ones
  const int mode = rng.coin(0.62) ? 0 : 1;
  // ---- input image
  int n[3], mn[3];
  float vs[3], org[3];
  n[0] = static_cast<int>(rng.range(1, ctx.thorough() ? 9 : 6));
  n[1] = static_cast<int>(rng.range(3, ctx.thorough() ? 18 : 12));
  n[2] = static_cast<int>(rng.range(3, ctx.thorough() ? 18 : 12));
  const bool std_range = rng.coin(0.65);
  // (the z index range of the input need not start at 0; the result's always does)
  mn[0] = rng.coin(0.8) ? 0 : static_cast<int>(rng.range(-3, 3));
  mn[1] = std_range ? -(n[1] / 2) : static_cast<int>(rng.range(-n[1], 3));
  mn[2] = std_range ? -(n[2] / 2) : static_cast<int>(rng.range(-n[2], 3));
  const bool iso = rng.coin(0.3);
  for (int a = 0; a < 3; ++a)
    {
      vs[a] = (iso && a > 0) ? vs[a - 1] : static_cast<float>(rng.uniform(0.8, 6.0));
      org[a] = rng.coin(0.35) ? 0.f : static_cast<float>(rng.uniform(-40., 40.));
    }
  int opt = static_cast<int>(rng.range(0, 2));
  // contents: 0 positive random, 1 signed random, 2 constant block, 3 single voxel
  int kind;
  {
    const double u = rng.u01();
    if (opt == 1)
      kind = u < 0.6 ? 2 : (u < 0.8 ? 0 : (u < 0.95 ? 1 : 3));
    else
      kind = u < 0.45 ? 0 : (u < 0.65 ? 1 : (u < 0.9 ? 2 : 3));
  }
  int lo[3], hi[3];
  for (int a = 0; a < 3; ++a)
    {
      const int mmax = kind == 2 ? 1 : std::max(1, n[a] / 3);
      const int m1 = n[a] >= 3 ? static_cast<int>(rng.range(1, mmax)) : 0;
      const int m2 = n[a] >= 3 ? static_cast<int>(rng.range(1, mmax)) : 0;
      lo[a] = mn[a] + m1;
      hi[a] = mn[a] + n[a] - 1 - m2;
      if (lo[a] > hi[a])
        lo[a] = hi[a] = mn[a] + n[a] / 2;
      if (kind == 3)
        lo[a] = hi[a] = static_cast<int>(rng.range(lo[a], hi[a]));
    }
  Img in(IndexRange3D(mn[0], mn[0] + n[0] - 1, mn[1], mn[1] + n[1] - 1, mn[2], mn[2] + n[2] - 1),
         CartesianCoordinate3D<float>(org[0], org[1], org[2]), CartesianCoordinate3D<float>(vs[0], vs[1], vs[2]));
  in.fill(0.f);
  const float blockV = static_cast<float>(rng.coin(0.8) ? rng.uniform(0.5, 100.) : -rng.uniform(0.5, 100.));
  for (int z = lo[0]; z <= hi[0]; ++z)
    for (int y = lo[1]; y <= hi[1]; ++y)
      for (int x = lo[2]; x <= hi[2]; ++x)
        in[z][y][x] = kind == 0 ? static_cast<float>(rng.uniform(0.05, 10.))
                                : (kind == 1 ? static_cast<float>(rng.uniform(-10., 10.)) : blockV);
  // ---- zoom parameters
  float zm[3], off[3];
  int ns[3];
  for (int a = 0; a < 3; ++a)
    zm[a] = gen_zoom(rng);
  if (mode == 1 || rng.coin(0.35))
    zm[1] = zm[2];
  if (mode == 1)
    zm[0] = 1.f;
  for (int a = 0; a < 3; ++a)
    off[a] = rng.coin(0.25) ? 0.f : static_cast<float>(rng.uniform(-2.5, 2.5) * vs[a]);
  if (mode == 1)
    off[0] = 0.f;
  // pure shifts: zoom exactly 1 and the same number of voxels along an axis, with a non-zero offset (whole and fractional
  // voxels) - the case in which an implementation is tempted to skip the interpolation along that axis
  bool pure[3] = { false, false, false };
  if (mode == 0 && rng.coin(0.15))
    for (int a = 0; a < 3; ++a)
      if (rng.coin(0.6))
        {
          pure[a] = true;
          zm[a] = 1.f;
          off[a] = static_cast<float>((rng.coin() ? static_cast<double>(rng.range(1, 2)) * (rng.coin() ? 1 : -1) : rng.uniform(-1.7, 1.7)) * vs[a]);
        }
  if (pure[1] != pure[2])
    zm[1] = zm[2] = 1.f; // keep the x/y zooms equal where the case asked for it above
  const bool want_cover = rng.coin(0.75);
  for (int a = 0; a < 3; ++a)
    {
      const double vso = static_cast<double>(vs[a]) / zm[a];
      const int need = static_cast<int>(std::ceil(n[a] * static_cast<double>(zm[a]) + 2 * std::fabs(off[a]) / vso));
      ns[a] = want_cover ? need + static_cast<int>(rng.range(1, 4)) : static_cast<int>(rng.range(1, need + 3));
      ns[a] = std::min(ns[a], 56);
    }
  for (int a = 0; a < 3; ++a)
    if (pure[a])
      ns[a] = n[a];
  if (pure[0] || pure[1] || pure[2])
    ctx.count(pure[0] ? "zoom_cases_pure_shift_in_z" : "zoom_cases_pure_shift_in_xy_only");
  if (mode == 1)
    {
      ns[0] = n[0];
      ns[1] = ns[2] = want_cover ? std::max(ns[1], ns[2]) : ns[2];
    }
  else if (zm[1] == zm[2] && rng.coin(0.7))
    ns[1] = ns[2] = want_cover ? std::max(ns[1], ns[2]) : ns[2]; // lets the two-step check start with the xy-only overload
  {
    vf::Desc d;
    d.add("n_zyx", std::vector<int>{ n[0], n[1], n[2] }).add("min_zyx", std::vector<int>{ mn[0], mn[1], mn[2] });
    d.add("voxel_zyx", std::vector<float>{ vs[0], vs[1], vs[2] }).add("origin_zyx", std::vector<float>{ org[0], org[1], org[2] });
    d.add("kind", kind).add("box_lo", std::vector<int>{ lo[0], lo[1], lo[2] }).add("box_hi", std::vector<int>{ hi[0], hi[1], hi[2] });
    d.add("blockV", blockV);
    ctx.desc.add("image", d);
    ctx.desc.add("mode", mode == 0 ? "general" : "xy").add("option", optname(opt));
    ctx.desc.add("zooms_zyx", std::vector<float>{ zm[0], zm[1], zm[2] }).add("offsets_zyx", std::vector<float>{ off[0], off[1], off[2] });
    ctx.desc.add("new_sizes_zyx", std::vector<int>{ ns[0], ns[1], ns[2] });
  }
  const Stats st_in = stats_of(in);
  const Geo gin = geo_of(in);
  const CartesianCoordinate3D<float> zooms(zm[0], zm[1], zm[2]);
  const CartesianCoordinate3D<float> offsets(off[0], off[1], off[2]);
  const Coordinate3D<int> new_sizes(ns[0], ns[1], ns[2]);
  ctx.count(std::string("zoom_cases_") + optname(opt));
  ctx.count(mode == 0 ? "zoom_cases_general" : "zoom_cases_xy");

  // ================= one call =================
  ctx.heartbeat("zoom-one-call");
  const Img r1 = zoom_image(in, zooms, offsets, new_sizes, mkopt(opt));
  const Geo g1 = geo_of(r1);
  const Stats s1 = stats_of(r1);

  // ---- geometry of the result (zoom.h: sizes, z from 0 / x,y from -(size/2), voxel = old/zoom, offsets == new_middle - old_middle)
  double cb[3]; // coordinate rounding band in mm per axis
  for (int a = 0; a < 3; ++a)
    {
      const double ext_in = (std::abs(gin.mn[a]) + std::abs(gin.mx[a]) + 1.0) * gin.vs[a];
      const double ext_out = (std::abs(g1.mn[a]) + std::abs(g1.mx[a]) + 1.0) * g1.vs[a];
      cb[a] = 32 * EPS32 * (std::fabs(gin.org[a]) + std::fabs(g1.org[a]) + ext_in + ext_out + std::fabs(off[a]));
    }
  for (int a = 0; a < 3; ++a)
    {
      const int want_min = a == 0 ? 0 : -(ns[a] / 2);
      if (g1.mn[a] != want_min || g1.mx[a] != want_min + ns[a] - 1)
        {
          ctx.violation("zoom-result-index-range-not-as-documented", vf::fmt("axis %d: ", a) + geos(g1));
          return;
        }
      const float want_vs = vs[a] / zm[a];
      if (std::fabs(static_cast<double>(g1.vs[a]) - want_vs) > 2 * EPS32 * want_vs)
        {
          ctx.violation("zoom-result-voxel-size-not-old-over-zoom", vf::fmt("axis %d: want %.9g ", a, want_vs) + geos(g1));
          return;
        }
      const double old_mid = (phys(in, a, gin.mn[a]) + phys(in, a, gin.mx[a])) / 2;
      const double new_mid = (phys(r1, a, g1.mn[a]) + phys(r1, a, g1.mx[a])) / 2;
      if (std::fabs(new_mid - old_mid - off[a]) > cb[a])
        {
          ctx.violation("zoom-result-centre-not-shifted-by-offset",
                        vf::fmt("axis %d: old middle %.9g new middle %.9g offset %.9g band %.3g ", a, old_mid, new_mid, off[a], cb[a]) + geos(g1));
          return;
        }
    }
  ctx.count("zoom_geometry_checks");

  // ---- effective interpolation parameters, tie screen for the '|dx| > 1e-5' cut in overlap_interpolate, coverage
  double zeff[3], offv[3], delta[3];
  int ties = 0;
  bool covered = true;
  double nops = 2;
  double minv = 1;
  for (int a = 0; a < 3; ++a)
    {
      zeff[a] = static_cast<double>(gin.vs[a]) / g1.vs[a];
      offv[a] = (static_cast<double>(g1.org[a]) - gin.org[a]) / gin.vs[a]; // in input-voxel units (zoom.cxx)
      const double maxidx = std::max(std::abs(gin.mn[a]), std::abs(gin.mx[a])) + std::max(std::abs(g1.mn[a]), std::abs(g1.mx[a])) / zeff[a]
                            + std::fabs(offv[a]) + 2;
      // how far the float evaluation may displace bin edges (input-voxel units)
      delta[a] = 16 * EPS32 * maxidx + 2 * cb[a] / gin.vs[a];
      nops += std::ceil(1 / zeff[a]) + 6;
      minv *= 1 / zeff[a];
      if (zeff[a] < 1)
        {
          // an output bin edge closer than the library's 1e-5 cut to an input bin edge: that sliver is dropped by design
          bool tie = false;
          for (int j = g1.mn[a]; j <= g1.mx[a] + 1 && !tie; ++j)
            {
              const double e = (j - 0.5) / zeff[a] + offv[a] + 0.5; // in units where input edges are integers
              if (std::fabs(e - std::nearbyint(e)) <= 1e-5 + delta[a])
                tie = true;
            }
          if (tie)
            ++ties;
        }
      // coverage of the object's support by the output grid (blind to the values)
      const double in_lo = phys(in, a, lo[a]) - gin.vs[a] / 2., in_hi = phys(in, a, hi[a]) + gin.vs[a] / 2.;
      const double out_lo = phys(r1, a, g1.mn[a]) - g1.vs[a] / 2., out_hi = phys(r1, a, g1.mx[a]) + g1.vs[a] / 2.;
      const double margin = 0.01 * gin.vs[a] + delta[a] * gin.vs[a];
      if (!(out_lo <= in_lo - margin && out_hi >= in_hi + margin))
        covered = false;
    }
  if (ties)
    ctx.count("zoom_tie_axes", ties);
  ctx.count(covered ? "zoom_cases_covered" : "zoom_cases_truncated");
  const double s_formula = opt == 0 ? 1. : (opt == 1 ? zeff[0] * zeff[1] * zeff[2] : zeff[0] * zeff[1]);
  // largest magnitude any output voxel can have (each axis sums at most 1/zoom input voxels)
  const double M = std::max(st_in.max_abs * minv * s_formula, s1.max_abs);
  const double tie_rel = ties * 1.001e-5;

  // ---- the three options differ by a global factor only (ZoomOptions.h)
  Img rsum = r1;
  if (opt != 0)
    {
      ctx.heartbeat("zoom-preserve-sum-reference");
      rsum = zoom_image(in, zooms, offsets, new_sizes, mkopt(0));
      if (!same_geo(geo_of(rsum), g1))
        {
          ctx.violation("zoom-option-changes-geometry", geos(g1) + " vs " + geos(geo_of(rsum)));
          return;
        }
      // the factor from the largest voxel
      double best = 0, shat = 0;
      for (int z = g1.mn[0]; z <= g1.mx[0]; ++z)
        for (int y = g1.mn[1]; y <= g1.mx[1]; ++y)
          for (int x = g1.mn[2]; x <= g1.mx[2]; ++x)
            if (std::fabs(rsum[z][y][x]) > best)
              {
                best = std::fabs(rsum[z][y][x]);
                shat = static_cast<double>(r1[z][y][x]) / rsum[z][y][x];
              }
      if (best > 0)
        {
          for (int z = g1.mn[0]; z <= g1.mx[0]; ++z)
            for (int y = g1.mn[1]; y <= g1.mx[1]; ++y)
              for (int x = g1.mn[2]; x <= g1.mx[2]; ++x)
                {
                  const double want = shat * rsum[z][y][x];
                  if (std::fabs(r1[z][y][x] - want) > 8 * EPS32 * std::fabs(want) + 1e-37)
                    {
                      ctx.violation(std::string("zoom-option-not-a-global-factor:") + optname(opt),
                                    vf::fmt("voxel (z%d,y%d,x%d): %.9g vs factor %.9g * preserve_sum value %.9g", z, y, x,
                                            static_cast<double>(r1[z][y][x]), shat, static_cast<double>(rsum[z][y][x])));
                      return;
                    }
                }
          ctx.count("zoom_global_factor_checks");
        }
    }
  const Stats ssum = opt == 0 ? s1 : stats_of(rsum);

  // ---- preserve_sum conserves the total when the new grid covers the object
  const double sum_band = vf::band32(nops, st_in.abs_sum) + tie_rel * st_in.abs_sum;
  if (covered)
    {
      ctx.count("zoom_sum_checks");
      if (!(std::fabs(ssum.sum - st_in.sum) <= sum_band))
        {
          ctx.violation("zoom-preserve-sum-total-not-conserved",
                        vf::fmt("input total %.12g output total %.12g |diff| %.3g band %.3g (sum|v| %.6g, ops %g, tie axes %d)", st_in.sum,
                                ssum.sum, std::fabs(ssum.sum - st_in.sum), sum_band, st_in.abs_sum, nops, ties));
          return;
        }
    }
  // ---- centre of mass in mm (non-negative mass): within half the sum of the voxel sizes per axis
  if (covered && st_in.mn >= 0 && st_in.sum > 0 && s1.sum > 0)
    {
      for (int a = 0; a < 3; ++a)
        {
          const double cin = st_in.mom[a] / st_in.sum, cout = s1.mom[a] / s1.sum;
          const double extent = (g1.mx[a] - g1.mn[a] + 1.0) * g1.vs[a] + (gin.mx[a] - gin.mn[a] + 1.0) * gin.vs[a];
          const double band = (static_cast<double>(gin.vs[a]) + g1.vs[a]) / 2 + cb[a] + delta[a] * gin.vs[a] + sum_band / st_in.sum * extent;
          if (!(std::fabs(cout - cin) <= band))
            {
              ctx.violation(std::string("zoom-centre-of-mass-moved:") + optname(opt),
                            vf::fmt("axis %d (0=z,1=y,2=x): input %.9g mm output %.9g mm, moved %.6g > %.6g (voxel in %.6g out %.6g)", a, cin,
                                    cout, std::fabs(cout - cin), band, gin.vs[a], g1.vs[a]));
              return;
            }
        }
      ctx.count("zoom_com_checks");
      // the library's own centre of gravity agrees with the harness' (float accumulation band)
      ctx.heartbeat("zoom-find-centre-of-gravity");
      const CartesianCoordinate3D<float> cog = find_centre_of_gravity_in_mm(r1);
      for (int a = 0; a < 3; ++a)
        {
          const double cidx = s1.idxmom[a] / s1.sum;
          const double eidx = (vf::band32(static_cast<double>(s1.n), s1.absidx[a]) + std::fabs(cidx) * vf::band32(static_cast<double>(s1.n), s1.abs_sum))
                              / s1.sum * 1.01;
          const double band = eidx * g1.vs[a] + 16 * EPS32 * (std::fabs(g1.org[a]) + std::fabs(cidx) * g1.vs[a] + g1.vs[a]);
          if (!(std::fabs(cog[a + 1] - s1.mom[a] / s1.sum) <= band))
            {
              ctx.violation("find-centre-of-gravity-in-mm-differs-from-physical-coordinates",
                            vf::fmt("axis %d: library %.9g harness %.9g band %.3g", a, static_cast<double>(cog[a + 1]), s1.mom[a] / s1.sum, band));
              return;
            }
        }
      ctx.count("zoom_cog_function_checks");
    }
  // ---- preserve_values keeps uniform regions uniform: output voxels entirely inside the constant block
  if (opt == 1 && kind == 2)
    {
      double blo[3], bhi[3];
      for (int a = 0; a < 3; ++a)
        {
          const double m = (0.01 + delta[a]) * gin.vs[a];
          blo[a] = phys(in, a, lo[a]) - gin.vs[a] / 2. + m;
          bhi[a] = phys(in, a, hi[a]) + gin.vs[a] / 2. - m;
        }
      const double band = vf::band32(nops, std::fabs(blockV)) + tie_rel * std::fabs(blockV) + 4 * EPS32 * std::fabs(blockV);
      long inside = 0;
      for (int z = g1.mn[0]; z <= g1.mx[0]; ++z)
        {
          const double pz = phys(r1, 0, z);
          if (pz - g1.vs[0] / 2. < blo[0] || pz + g1.vs[0] / 2. > bhi[0])
            continue;
          for (int y = g1.mn[1]; y <= g1.mx[1]; ++y)
            {
              const double py = phys(r1, 1, y);
              if (py - g1.vs[1] / 2. < blo[1] || py + g1.vs[1] / 2. > bhi[1])
                continue;
              for (int x = g1.mn[2]; x <= g1.mx[2]; ++x)
                {
                  const double px = phys(r1, 2, x);
                  if (px - g1.vs[2] / 2. < blo[2] || px + g1.vs[2] / 2. > bhi[2])
                    continue;
                  ++inside;
                  if (!(std::fabs(r1[z][y][x] - blockV) <= band))
                    {
                      ctx.violation("zoom-preserve-values-uniform-region-not-uniform",
                                    vf::fmt("voxel (z%d,y%d,x%d) lies inside the constant block (value %.9g) but is %.9g, |diff| %.3g band %.3g", z,
                                            y, x, static_cast<double>(blockV), static_cast<double>(r1[z][y][x]),
                                            std::fabs(r1[z][y][x] - blockV), band));
                      return;
                    }
                }
            }
        }
      if (inside > 0)
        {
          ctx.count("zoom_uniform_checks");
          ctx.count("zoom_uniform_voxels", inside);
        }
    }

  // ================= compositions =================
  // (a) in place: same function, must be identical
  {
    ctx.heartbeat("zoom-in-place");
    Img ip = in;
    zoom_image_in_place(ip, zooms, offsets, new_sizes, mkopt(opt));
    std::string w;
    if (!same_geo(geo_of(ip), g1) || !images_close(ip, r1, 0., w))
      {
        ctx.violation("zoom-in-place-differs-from-one-call", geos(geo_of(ip)) + " vs " + geos(g1) + " " + w);
        return;
      }
    ctx.count("zoom_composition_checks");
    ctx.count("zoom_comp_in_place");
  }
  // (b) 2-argument form on an output image with the same grid
  {
    ctx.heartbeat("zoom-two-argument");
    Img out2(IndexRange3D(g1.mn[0], g1.mx[0], g1.mn[1], g1.mx[1], g1.mn[2], g1.mx[2]), r1.get_origin(), r1.get_voxel_size());
    out2.fill(static_cast<float>(rng.uniform(-5, 5))); // must be overwritten everywhere
    zoom_image(out2, in, mkopt(opt));
    std::string w;
    if (!same_geo(geo_of(out2), g1) || !images_close(out2, r1, 0., w))
      {
        ctx.violation("zoom-two-argument-form-differs-from-one-call", geos(geo_of(out2)) + " vs " + geos(g1) + " " + w);
        return;
      }
    ctx.count("zoom_composition_checks");
    ctx.count("zoom_comp_two_argument");
  }
  // band for results that went through differently rounded coordinates
  double comp_band = vf::band32(2 * nops, M) + 2 * tie_rel * M + 1.001e-5 * M * (ties ? 1 : 0);
  for (int a = 0; a < 3; ++a)
    comp_band += 2 * (2 * delta[a]) * std::max(1., zeff[a]) * M;
  auto geo_close = [&](const Geo& g, std::string& w) -> bool {
    if (!same_range(g, g1))
      {
        w = "index ranges differ";
        return false;
      }
    for (int a = 0; a < 3; ++a)
      {
        if (std::fabs(static_cast<double>(g.vs[a]) - g1.vs[a]) > 4 * EPS32 * g1.vs[a])
          {
            w = vf::fmt("voxel size axis %d differs", a);
            return false;
          }
        if (std::fabs(static_cast<double>(g.org[a]) - g1.org[a]) > 2 * cb[a])
          {
            w = vf::fmt("origin axis %d differs by %.3g > %.3g", a, std::fabs(static_cast<double>(g.org[a]) - g1.org[a]), 2 * cb[a]);
            return false;
          }
      }
    return true;
  };
  if (mode == 1)
    {
      // (c) xy-only overload == 3-D overload with zoom_z = 1, no z offset, same number of planes
      ctx.heartbeat(gin.mn[0] == 0 ? "zoom-xy-overload" : "zoom-xy-overload-input-min-z-nonzero");
      const Img rxy = zoom_image(in, zm[2], off[2], off[1], ns[2], mkopt(opt));
      std::string w;
      // zoom.cxx returns the input itself when zoom == 1, offsets == 0 and new_size == x-size ("nothing to do").  Which grid
      // (index ranges, y-size) the result then has is not something C15 talks about: counts and positions are trivially
      // conserved and every composition through it gives the one-call result.  The comparison with the 3-D overload needs
      // equal grids, so it is made only when that shortcut leaves the grid as the 3-D overload would make it.
      const bool identity_shortcut = zm[2] == 1.f && off[1] == 0.f && off[2] == 0.f && ns[2] == n[2];
      if (identity_shortcut && !same_range(gin, g1))
        ctx.count("zoom_xy_identity_shortcut_other_grid");
      else
        {
          if (!geo_close(geo_of(rxy), w) || !images_close(rxy, r1, comp_band, w))
            {
              ctx.violation(std::string("zoom-xy-overload-differs-from-3d-overload:") + optname(opt)
                                + (gin.mn[0] != 0 ? ":input-min-z-nonzero" : ""),
                            geos(geo_of(rxy)) + " vs " + geos(g1) + " " + w);
              return;
            }
          ctx.count("zoom_composition_checks");
          ctx.count("zoom_comp_xy_overload");
          if (gin.mn[0] != 0)
            ctx.count("zoom_comp_xy_overload_min_z_nonzero");
        }
      // and its in-place form
      Img ip = in;
      zoom_image_in_place(ip, zm[2], off[2], off[1], ns[2], mkopt(opt));
      if (!same_geo(geo_of(ip), geo_of(rxy)) || !images_close(ip, rxy, 0., w))
        {
          ctx.violation("zoom-xy-in-place-differs-from-xy-one-call", geos(geo_of(ip)) + " vs " + geos(geo_of(rxy)) + " " + w);
          return;
        }
      ctx.count("zoom_composition_checks");
    }
  else
    {
      // (d) two steps: (x,y) first, then z
      const bool use_xy_overload = zm[1] == zm[2] && ns[1] == ns[2] && rng.coin(0.6);
      const std::string in_class = use_xy_overload && gin.mn[0] != 0 ? ":input-min-z-nonzero" : "";
      ctx.heartbeat(std::string("zoom-two-step") + (use_xy_overload ? ":xy-overload-first" : ":3d-overloads") + in_class);
      Img step1 = use_xy_overload ? zoom_image(in, zm[2], off[2], off[1], ns[2], mkopt(opt))
                                  : zoom_image(in, CartesianCoordinate3D<float>(1.f, zm[1], zm[2]), CartesianCoordinate3D<float>(0.f, off[1], off[2]),
                                               Coordinate3D<int>(n[0], ns[1], ns[2]), mkopt(opt));
      const Img step2 = zoom_image(step1, CartesianCoordinate3D<float>(zm[0], 1.f, 1.f), CartesianCoordinate3D<float>(off[0], 0.f, 0.f),
                                   Coordinate3D<int>(ns[0], ns[1], ns[2]), mkopt(opt));
      std::string w;
      const double M2 = std::max(M, std::max(stats_of(step1).max_abs * (1 / zeff[0]) * (opt == 0 ? 1. : zeff[0]), stats_of(step2).max_abs));
      if (!geo_close(geo_of(step2), w) || !images_close(step2, r1, comp_band * (M2 / (M > 0 ? M : 1)) + 1e-37, w))
        {
          ctx.violation(std::string("zoom-two-step-differs-from-one-call:") + optname(opt) + (use_xy_overload ? ":xy-overload-first" : ":3d-overloads")
                            + in_class,
                        geos(geo_of(step2)) + " vs " + geos(g1) + " " + w);
          return;
        }
      ctx.count("zoom_composition_checks");
      ctx.count(use_xy_overload ? "zoom_comp_two_step_xy_overload" : "zoom_comp_two_step_3d");
    }
  ctx.nontrivial = st_in.mx > st_in.mn && st_in.n >= 8;
}

void
run_case(Ctx& ctx)
{
  if (ctx.idx % 2 == 0)
    ssrb_case(ctx);
  else
    zoom_case(ctx);
}
} // namespace

int
main(int argc, char** argv)
{
  vg::quiet();
  return vf::verif_main(argc, argv, "C15", run_case);
}
