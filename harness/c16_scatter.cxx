// C16: single-scatter simulation is symmetric, linear and independent of caching / history (DESIGN.md §6 C16).
//
// Events are observed (a) through a harness subclass of SingleScatterSimulation that reaches the protected per-detector-pair
// functions (find_detectors, actual_scatter_estimate, simulate_for_one_scatter_point, the scatter-point vector) and (b) at the
// public boundary (set_*, set_up, process_data, output projection data).  STIR's SCAT_CACHE_R/W call-outs are only counted.
//
// Case kinds (ctx.idx % 3):
//   0    "pairs"    one generated configuration: all detector pairs of the template in both orders (symmetry, per scatter point
//                   and summed), per-pair function == process_data output, est >= 0 and finite, cache on == cache off (bit-exact:
//                   a cached value is the float that the same function returns when it is recomputed), linearity in the activity
//                   image (computed float32 band), est(0) == 0 exactly.
//   1,2  "history"  random setter / set_up / process_data history on ONE object (new activity image, attenuation image,
//                   scatter-point image, template, energy window, cache switch, setters called again with the same value, re-runs
//                   without a change); at every check-point the output must be bit-identical to a FRESH object configured with the
//                   final values in a canonical setter order, and to a second fresh object configured in a random setter order.
//
// What is NOT demanded (triage of the first version of this harness, which had "hazard" case kinds for it): the property
// statement lists the changes whose history must not matter - activity image, attenuation image, scatter-point image, template,
// energy settings (+ the cache switch).  set_attenuation_threshold() and set_randomly_place_scatter_points() are not in that list,
// and the library samples the scatter points inside set_density_image_for_scatter_points_sptr() with the threshold / flag in force
// at that moment (a later change of either is silently ignored until the scatter-point image is given again).  So both are set
// BEFORE the scatter-point image here, in the history object and in every fresh object, exactly as set_density_image_sptr() has to
// precede it (that setter discards the scatter-point image, as its body says).  A history step that changes the threshold gives
// the scatter-point image again, which IS a listed change.
//
// Extension (coverage gap: downsample_density_image_for_scatter_points, set_image_downsample_factors and
// downsample_images_to_scanner_size were never executed): the scatter-point image of a history can also be DERIVED from the
// attenuation image - by downsample_density_image_for_scatter_points(zoom_xy, zoom_z, size_xy, size_z) ("mode 1") or inside
// set_up() after set_image_downsample_factors(...) + set_density_image_sptr() ("mode 2"), or inside set_up() with the automatic
// factors of a default-constructed object ("mode 3"; the history object gets them back through
// downsample_density_image_for_scatter_points(-1,-1,-1,-1), the setter rejects negative zooms) - and a step can call
// downsample_images_to_scanner_size() (activity and attenuation image are replaced by their zoom onto the grid of the template
// in force at that moment; documented "call after having set all data") or downsample_scanner() on the current (possibly
// already down-sampled) template.  The fresh objects reach the same final state through the same public calls: a prelude
// {template of that moment, source activity, source attenuation, downsample_images_to_scanner_size()} and then the final values.
// A derivation that reads the template (negative zoom = "automatic") is repeated after every template change, so that "final
// values" stay well defined.  After downsample_images_to_scanner_size() the z-middle of both images is that of the template grid,
// so the scatter-point image is given again (set_up rejects images with different z-middles, issue #495) and later images use it.
//
// A mismatch / rejection of a derivation inside set_up() on an object that derived a scatter-point image before without
// set_image_downsample_factors() since is attributed by emulation to KEY_ZOOM (the library stored the values it derived in the
// members that hold the request).
//
// A mismatch after the energy window was changed by set_exam_info() following a process_data() with the same template is
// attributed by emulation (the minimal 2-step history on a fresh object reproduces the output bit-exactly) and reported under
// the defect-specific key KEY_EXAM; everything else is reported under the generic keys.
#include "common/verif.h"
#include "common/gen.h"
#include "stir/scatter/SingleScatterSimulation.h"
#include "stir/ProjDataInMemory.h"
#include "stir/ExamInfo.h"
#include "stir/IndexRange3D.h"
#include "stir/VoxelsOnCartesianGrid.h"
#include "stir/ProjDataInfoCylindricalNoArcCorr.h"
#include <memory>

#if defined(UCL_STIR_VERIF) && defined(__has_include)
#  if __has_include("stir/verif_hooks.h")
#    include "stir/verif_hooks.h"
#    define C16_HAVE_HOOKS 1
#  endif
#endif

using namespace stir;
using vf::Ctx;
using vf::Desc;
using vf::Rng;

// ------------------------------------------------------------------------------------------------ cache call-outs (counted only)
namespace
{
struct HookCount
{
  long reads = 0, writes = 0;
} g_hook;
bool g_debug = false;
} // namespace
#ifdef C16_HAVE_HOOKS
extern "C" void
stir_verif_point(int site, const void*, long, long)
{
  if (site == STIR_VERIF_SCAT_CACHE_READ)
    ++g_hook.reads;
  else if (site == STIR_VERIF_SCAT_CACHE_WRITE)
    ++g_hook.writes;
}
#endif

// ------------------------------------------------------------------------------------------------ access to the protected interface
class Sim : public SingleScatterSimulation
{
public:
  void pair_estimate(double& v, unsigned a, unsigned b) { this->actual_scatter_estimate(v, a, b); }
  double point_estimate(std::size_t sp, unsigned a, unsigned b) { return this->simulate_for_one_scatter_point(sp, a, b); }
  void detectors_of(unsigned& a, unsigned& b, const Bin& bin) const { this->find_detectors(a, b, bin); }
  double bin_estimate(const Bin& bin) { return this->scatter_estimate(bin); }
  std::size_t num_points() const { return this->scatt_points_vector.size(); }
  CartesianCoordinate3D<float> point_coord(std::size_t i) const { return this->scatt_points_vector[i].coord; }
  float point_mu(std::size_t i) const { return this->scatt_points_vector[i].mu_value; }
  std::size_t num_detection_points() const { return this->detection_points_vector.size(); }
  std::string detector_str(unsigned d) const
  {
    const CartesianCoordinate3D<float>& c = this->detection_points_vector[d];
    return vf::fmt("det %u at (z %.6g, y %.6g, x %.6g)", d, static_cast<double>(c.z()), static_cast<double>(c.y()), static_cast<double>(c.x()));
  }
  bool cache_flag() const { return this->use_cache; }
  float threshold_value() const { return this->attenuation_threshold; }
};

typedef VoxelsOnCartesianGrid<float> Vox;
typedef shared_ptr<Vox> VoxP;

// ------------------------------------------------------------------------------------------------ generated inputs
struct World // case-wide constants that keep every generated combination inside what set_up accepts
{
  float rbase; // smallest ring radius of any template of this case: images are sized to stay well inside it
  float zmid;  // (nz-1)*vz/2 of every image (set_up checks that all three images agree on this, issue #495)
  bool big;
  bool allow_blocks = true;
  // > 0 ("aligned" histories): every template gets the ring spacing that puts the z-middle of its image grid,
  // (rings-1)*ring_spacing/2 after down-sampling, at this value = the z-middle of the images, so that
  // downsample_images_to_scanner_size() keeps the z-middle and the scatter-point image given before stays acceptable
  float tmpl_zmid = 0;
};

struct Geo
{
  int nz = 2, ny = 3, nx = 3;
  float vz = 4, vy = 4, vx = 4;
  std::string str() const { return vf::fmt("%dx%dx%d vox %.4gx%.4gx%.4g", nz, ny, nx, vz, vy, vx); }
};

static Geo
gen_geo(Rng& rng, const World& w)
{
  Geo g;
  g.nz = static_cast<int>(rng.range(2, w.big ? 5 : 4));
  g.vz = 2.f * w.zmid / (g.nz - 1);
  g.nx = static_cast<int>(rng.range(3, w.big ? 9 : 6));
  g.ny = rng.coin(0.6) ? g.nx : static_cast<int>(rng.range(3, w.big ? 9 : 6));
  // full transaxial width between 0.6 and 1.1 of the smallest ring radius: the corners stay inside 0.78 R
  const float width = static_cast<float>(w.rbase * rng.uniform(0.6, 1.1));
  g.vx = width / g.nx;
  g.vy = rng.coin(0.7) ? g.vx * g.nx / g.ny : static_cast<float>(w.rbase * rng.uniform(0.6, 1.1)) / g.ny;
  return g;
}

static VoxP
make_vox(const Geo& g)
{
  IndexRange3D r(0, g.nz - 1, -(g.ny / 2), -(g.ny / 2) + g.ny - 1, -(g.nx / 2), -(g.nx / 2) + g.nx - 1);
  return VoxP(new Vox(r, CartesianCoordinate3D<float>(0, 0, 0), CartesianCoordinate3D<float>(g.vz, g.vy, g.vx)));
}

struct Img
{
  VoxP p;
  Geo g;
  int id = 0;
  std::string what;
};
static int g_img_counter = 0;

static Img
gen_activity(Rng& rng, const Geo& g)
{
  Img im;
  im.g = g;
  im.p = make_vox(g);
  im.id = ++g_img_counter;
  const double scale = rng.coin(0.5) ? 1. : std::pow(10., rng.uniform(-2, 3));
  const double pzero = rng.coin(0.3) ? 0. : rng.uniform(0.1, 0.6);
  for (auto it = im.p->begin_all(); it != im.p->end_all(); ++it)
    *it = rng.coin(pzero) ? 0.f : static_cast<float>(scale * rng.uniform(0.05, 1.0));
  im.what = vf::fmt("act#%d %s", im.id, g.str().c_str());
  return im;
}
static Img
gen_attenuation(Rng& rng, const Geo& g, const char* tag)
{
  Img im;
  im.g = g;
  im.p = make_vox(g);
  im.id = ++g_img_counter;
  const double pzero = rng.coin(0.5) ? 0. : rng.uniform(0.05, 0.3);
  for (auto it = im.p->begin_all(); it != im.p->end_all(); ++it)
    *it = rng.coin(pzero) ? 0.f : static_cast<float>(rng.uniform(0.0, 0.15));
  im.what = vf::fmt("%s#%d %s", tag, im.id, g.str().c_str());
  return im;
}
static long
count_at_least(const Img& im, float thr)
{
  long n = 0;
  for (auto it = im.p->begin_all_const(); it != im.p->end_all_const(); ++it)
    if (*it >= thr)
      ++n;
  return n;
}

struct Tmpl
{
  int ndet = 8, nrings = 2, max_delta = 1, num_tang = 5;
  float radius = 100, ring_spacing = 4, eres = 0.14f, eref = 511.f;
  int trans_per_block = 0; // > 0: BlocksOnCylindrical with that many crystals per (transaxial) block
  int ds_rings = 0, ds_dets = 0; // > 0: set_template_proj_data_info(pdi) is followed by downsample_scanner(ds_rings, ds_dets)
  int ds2_rings = 0, ds2_dets = 0; // > 0: ... and then by a second downsample_scanner(ds2_rings, ds2_dets) (history step)
  bool ds2_via_members = false;    // second call as set_num_downsample_scanner_rings/dets(...) + downsample_scanner()
  int eff_rings() const { return ds2_rings ? ds2_rings : ds_rings ? ds_rings : nrings; }
  int eff_dets() const { return ds2_dets ? ds2_dets : ds_dets ? ds_dets : ndet; }
  int id = 0;
  shared_ptr<ProjDataInfo> pdi;
  std::string str() const
  {
    return vf::fmt("tmpl#%d ndet %d rings %d R %.5g spacing %.4g eres %.4g eref %.4g max_delta %d num_tang %d blocks %d", id, ndet, nrings,
                   radius, ring_spacing, eres, eref, max_delta, num_tang, trans_per_block)
           + (ds_rings ? vf::fmt(" then downsample_scanner(%d,%d)", ds_rings, ds_dets) : std::string())
           + (ds2_rings ? vf::fmt(" then%s downsample_scanner(%d,%d)", ds2_via_members ? " (through the set_num_downsample_scanner_* members)" : "",
                                  ds2_rings, ds2_dets)
                        : std::string());
  }
};
static int g_tmpl_counter = 0;

static Tmpl
gen_tmpl(Rng& rng, const World& w)
{
  Tmpl t;
  t.id = ++g_tmpl_counter;
  t.ndet = 2 * static_cast<int>(rng.range(4, w.big ? 14 : 9));
  t.nrings = static_cast<int>(rng.range(2, w.big ? 4 : 3)); // >= 2: set_up asserts a non-degenerate axial extent
  const bool downsample = rng.coin(0.2);
  if (downsample)
    { // a larger scanner that is down-sampled through the public downsample_scanner() to the sizes above
      t.ds_rings = t.nrings;
      t.ds_dets = t.ndet;
      t.nrings = static_cast<int>(rng.range(t.ds_rings, 3 * t.ds_rings));
      t.ndet = 2 * static_cast<int>(rng.range(t.ds_dets / 2, t.ds_dets));
    }
  t.radius = static_cast<float>(w.rbase * rng.uniform(1.0, 1.5));
  t.ring_spacing = static_cast<float>(rng.uniform(3, 8));
  if (w.tmpl_zmid > 0) // (downsample_scanner keeps rings*ring_spacing of a cylindrical scanner)
    t.ring_spacing = downsample ? 2.f * w.tmpl_zmid / (t.ds_rings - 1) * t.ds_rings / t.nrings : 2.f * w.tmpl_zmid / (t.nrings - 1);
  t.eres = static_cast<float>(rng.uniform(0.08, 0.35));
  t.eref = rng.coin(0.7) ? 511.f : static_cast<float>(rng.uniform(400, 700));
  t.max_delta = static_cast<int>(rng.range(0, t.nrings - 1));
  const bool all_pairs = rng.coin(0.3);
  const int maxbins = all_pairs ? t.ndet - 1 : std::min(t.ndet / 2 + 1, t.ndet - 1);
  t.num_tang = rng.coin(0.6) ? maxbins : static_cast<int>(rng.range(3, maxbins));
  if (downsample)
    { // downsample_scanner() makes ceil(num_tang * new_dets / old_dets) + 1 tangential positions; the library supports at most
      // new_dets - 2 (even count) for the new scanner and rejects more at the first use of the detector tables
      t.num_tang = std::min(t.num_tang, (t.ds_dets - 3) * t.ndet / t.ds_dets);
    }
  const float bin_size = static_cast<float>(3.14159265 * t.radius / t.ndet);
  shared_ptr<Scanner> sc;
  if (w.allow_blocks && !downsample && rng.coin(0.25))
    {
      std::vector<int> d;
      for (int k : vg::divisors(t.ndet))
        if (k >= 2 && k <= t.ndet / 4)
          d.push_back(k);
      t.trans_per_block = rng.pick(d);
      // no bin may join two crystals of the same (flat) block: such a line lies in the detector face, the library's incidence
      // cosine (taken w.r.t. the direction to the scanner axis, documented \todo "orientations are determined by using a
      // cylindrical scanner") is 0 or negative there and the normalisation divides by it.  No real template contains such bins.
      // With at most ndet/2+1 tangential positions the two detectors are >= ndet/4 >= trans_per_block crystals apart.
      t.num_tang = std::min(t.num_tang, t.ndet / 2 + 1);
      const float crystal = static_cast<float>(2 * 3.14159265 * t.radius / t.ndet) * 0.95f;
      sc.reset(new Scanner(Scanner::User_defined_scanner, std::string("verif_c16_blocks"), t.ndet, t.nrings, maxbins, maxbins, t.radius,
                           /*doi*/ 0.f, t.ring_spacing, bin_size, /*tilt*/ 0.f, /*axial blocks per bucket*/ t.nrings,
                           /*transaxial blocks per bucket*/ 1, /*axial crystals per block*/ 1, t.trans_per_block, 1, 1, 1, t.eres, t.eref, -1,
                           -1.f, -1.f, "BlocksOnCylindrical", t.ring_spacing, crystal, t.ring_spacing, crystal * t.trans_per_block + 0.5f));
    }
  else
    sc.reset(new Scanner(Scanner::User_defined_scanner, std::string("verif_c16"), t.ndet, t.nrings, maxbins, maxbins, t.radius,
                         /*doi*/ 0.f, t.ring_spacing, bin_size, /*tilt*/ 0.f, 1, 1, 1, 1, 1, 1, 1, t.eres, t.eref));
  t.pdi = ProjDataInfo::construct_proj_data_info(sc, /*span*/ 1, t.max_delta, t.ndet / 2, t.num_tang, /*arc-corrected*/ false);
  return t;
}

static const float k_thresholds[] = { 0.f, 0.004f, 0.01f, 0.02f, 0.04f, 0.07f, 0.1f };
static float
gen_threshold(Rng& rng)
{
  return k_thresholds[rng.range(0, 6)];
}
static void
gen_window(Rng& rng, float& low, float& high)
{
  low = static_cast<float>(rng.uniform(300, 500));
  high = static_cast<float>(rng.uniform(520, 750));
}

// how the scatter-point image is given
struct SpHow
{
  int mode = 0; // 0: set_density_image_for_scatter_points_sptr(sp); 1: downsample_density_image_for_scatter_points(args);
                // 2: set_image_downsample_factors(args) + set_density_image_sptr(att), derived inside set_up
                // 3: automatic factors (those of a default-constructed object: all -1) + set_density_image_sptr(att), derived inside set_up
  float zxy = 1, zz = 1;
  int sxy = -1, sz = -1;
  bool uses_tmpl = false;      // a negative zoom: the call reads the template, which therefore has to be set before
  bool tmpl_dependent = false; // ... and the derived image depends on it (the derivation is repeated after a template change)
  std::string str() const
  {
    if (mode == 3)
      return "set_up with the default (automatic) down-sampling factors";
    return vf::fmt("%s(%.9g,%.9g,%d,%d)", mode == 1 ? "downsample_density_image_for_scatter_points" : "set_image_downsample_factors", zxy,
                   zz, sxy, sz);
  }
};

// activity / attenuation image replaced by downsample_images_to_scanner_size() called when `tmpl` was in force
struct DsImg
{
  bool act = false, att = false; // the current activity / attenuation image is still the one made by that call
  Tmpl tmpl;
  Img act_src, att_src;
};

// the values a simulation is configured with ("final values" of the history clause)
struct State
{
  Tmpl tmpl;
  float low = 350, high = 650;
  Img act, att, sp;
  SpHow how;
  DsImg dsi;
  float thr = 0.01f;
  bool cache = true;
  // number of planes of the attenuation image in force
  int att_nz() const { return dsi.att ? 2 * dsi.tmpl.eff_rings() - 1 : att.g.nz; }
  std::string str() const
  {
    std::string a = act.what, b = att.what;
    if (dsi.act || dsi.att)
      {
        const std::string call = vf::fmt(" zoomed by downsample_images_to_scanner_size() under tmpl#%d", dsi.tmpl.id);
        if (dsi.act)
          a = dsi.act_src.what + call;
        if (dsi.att)
          b = dsi.att_src.what + call;
        b += " [that template: " + dsi.tmpl.str() + "]";
      }
    return tmpl.str() + vf::fmt("; window [%.6g,%.6g]; ", low, high) + a + "; " + b + "; " + (how.mode ? "sp by " + how.str() : sp.what)
           + vf::fmt("; threshold %.4g; cache %d", thr, static_cast<int>(cache));
  }
};

// what the library will do with these arguments for an attenuation image of old_z planes (used to keep the generator inside
// what downsample_density_image_for_scatter_points accepts: it adjusts zoom_z to (new_z-1)/(old_z-1) and rejects a given
// zoom_z that is more than 0.1 away from that; fewer than 2 planes would give an infinite plane separation)
static bool
how_ok(const SpHow& h, int old_z)
{
  if (h.zz < 0)
    return h.sz >= 2 || h.sz == -1;
  const int new_z = h.sz == -1 ? static_cast<int>(old_z * h.zz + 1) : h.sz;
  if (new_z < 2)
    return false;
  return std::fabs(static_cast<float>(new_z - 1) / (old_z - 1) - h.zz) <= 0.08f;
}

static SpHow
gen_how(Rng& rng, int mode, int old_z)
{
  SpHow h;
  h.mode = mode;
  if (mode == 3)
    {
      h.zxy = h.zz = -1.f;
      h.sxy = h.sz = -1;
      h.uses_tmpl = h.tmpl_dependent = true;
      return h;
    }
  h.zxy = rng.coin(0.2) ? 1.f : static_cast<float>(rng.uniform(0.3, 1.3));
  h.sxy = rng.coin(0.6) ? -1 : static_cast<int>(rng.range(1, 7)); // (the library makes an even size odd)
  const int new_z = static_cast<int>(rng.range(2, old_z + 1));
  // set_image_downsample_factors rejects negative zooms, so "automatic" is only available through the direct call
  long variant = mode == 2 ? (rng.coin(0.5) ? 0 : 2) : rng.range(0, 3);
  if (variant == 2)
    {
      h.sz = -1;
      bool ok = false;
      for (int k = 0; k < 8 && !ok; ++k)
        {
          h.zz = static_cast<float>(rng.uniform(0.4, 1.3));
          ok = how_ok(h, old_z);
        }
      if (!ok)
        variant = 0;
    }
  if (variant == 0)
    { // as test_ScatterSimulation does: zoom_z consistent with the number of planes asked for
      h.zz = static_cast<float>(new_z - 1) / (old_z - 1);
      h.sz = new_z;
    }
  else if (variant == 1)
    { // zoom_z "automatic" with a given number of planes (reads the template, the result does not depend on it)
      h.zz = -1.f;
      h.sz = new_z;
      h.uses_tmpl = true;
    }
  else if (variant == 3)
    { // zoom_xy and zoom_z automatic: voxel size of the template grid, number of planes = number of rings unless given
      h.zxy = -1.f;
      h.zz = -1.f;
      h.sz = rng.coin(0.5) ? -1 : new_z;
      h.uses_tmpl = h.tmpl_dependent = true;
    }
  return h;
}

static Img
gen_sp_image(Rng& rng, const World& w, const Img& att)
{
  if (rng.coin(0.35))
    { // the attenuation image itself
      Img im = att;
      im.what = "sp=" + att.what;
      return im;
    }
  return gen_attenuation(rng, gen_geo(rng, w), "sp"); // independently (sub-)sampled grid
}

static State
gen_state(Rng& rng, const World& w)
{
  State s;
  s.tmpl = gen_tmpl(rng, w);
  gen_window(rng, s.low, s.high);
  s.act = gen_activity(rng, gen_geo(rng, w));
  s.att = gen_attenuation(rng, rng.coin(0.5) ? s.act.g : gen_geo(rng, w), "att");
  s.sp = gen_sp_image(rng, w, s.att);
  s.thr = gen_threshold(rng);
  s.cache = rng.coin(0.75);
  return s;
}

static World
gen_world(Ctx& ctx)
{
  World w;
  w.big = ctx.thorough() && ctx.rng.coin(0.5);
  w.rbase = static_cast<float>(ctx.rng.uniform(80, 300));
  w.zmid = static_cast<float>(ctx.rng.uniform(2, 12));
  return w;
}

static shared_ptr<ExamInfo>
make_exam(float low, float high)
{
  shared_ptr<ExamInfo> ei(new ExamInfo(ImagingModality::PT));
  ei->set_low_energy_thres(low);
  ei->set_high_energy_thres(high);
  return ei;
}

// ------------------------------------------------------------------------------------------------ a simulation object + what was done to it
enum Setter
{
  S_RND,
  S_THR,
  S_TMPL,
  S_EXAM,
  S_ACT,
  S_ATT,
  S_SP,
  S_CACHE,
  S_SPDS,  // downsample_density_image_for_scatter_points(st.how)
  S_FACT,  // set_image_downsample_factors(st.how)
  S_DSIMG, // downsample_images_to_scanner_size()
  S_COUNT
};
static const char* const k_setter_name[] = { "set_randomly_place_scatter_points",
                                             "set_attenuation_threshold",
                                             "set_template_proj_data_info",
                                             "set_exam_info",
                                             "set_activity_image_sptr",
                                             "set_density_image_sptr",
                                             "set_density_image_for_scatter_points_sptr",
                                             "set_use_cache",
                                             "downsample_density_image_for_scatter_points",
                                             "set_image_downsample_factors",
                                             "downsample_images_to_scanner_size" };

struct Obj
{
  Sim sim;
  // bookkeeping of values that the object derives state from at the time of a call (used for repair and attribution only)
  float obj_low = -1, obj_high = -1;
  bool eff_valid = false; // a process_data happened since the last template change (the 511 keV efficiency was computed then)
  float eff_low = 0, eff_high = 0;
  std::vector<std::string> log;
  // the derivations of a scatter-point image by the library since all four down-sampling factors were last given (by
  // set_image_downsample_factors or as arguments of the direct call): the states they were made for (attribution only)
  bool factors_given_since = false; // set_image_downsample_factors since the last derivation
  std::vector<std::shared_ptr<State>> derivations;
  void note_derivation(const State& st, bool by_direct_call)
  {
    if (by_direct_call || factors_given_since)
      derivations.clear();
    factors_given_since = false;
    derivations.push_back(std::shared_ptr<State>(new State(st)));
  }

  // the energy window was changed after a process_data and the template was not set since
  bool eff_stale() const { return eff_valid && (eff_low != obj_low || eff_high != obj_high); }

  void apply(Ctx& ctx, const State& st, Setter s, int variant = 0)
  {
    switch (s)
      {
      case S_RND:
        sim.set_randomly_place_scatter_points(false);
        log.push_back("set_randomly_place_scatter_points(0)");
        break;
      case S_THR:
        sim.set_attenuation_threshold(st.thr);
        log.push_back(vf::fmt("set_attenuation_threshold(%.4g)", st.thr));
        break;
      case S_TMPL:
        sim.set_template_proj_data_info(*st.tmpl.pdi);
        eff_valid = false;
        log.push_back(vf::fmt("set_template_proj_data_info(tmpl#%d)", st.tmpl.id));
        if (st.tmpl.ds_rings)
          {
            bool ok = false;
            std::string why = "returned Succeeded::no";
            try
              {
                ok = sim.downsample_scanner(st.tmpl.ds_rings, st.tmpl.ds_dets) == Succeeded::yes;
              }
            catch (const std::exception& e)
              {
                why = e.what();
              }
            if (!ok)
              throw vf::Skip("downsample_scanner rejected: " + why);
            log.push_back(vf::fmt("downsample_scanner(%d,%d)", st.tmpl.ds_rings, st.tmpl.ds_dets));
            ctx.count("setter:downsample_scanner");
          }
        if (st.tmpl.ds2_rings)
          downsample_again(ctx, st);
        break;
      case S_SPDS:
        sim.downsample_density_image_for_scatter_points(st.how.zxy, st.how.zz, st.how.sxy, st.how.sz);
        log.push_back(vf::fmt("downsample_density_image_for_scatter_points(%.9g,%.9g,%d,%d)", st.how.zxy, st.how.zz, st.how.sxy, st.how.sz));
        note_derivation(st, true);
        break;
      case S_FACT:
        sim.set_image_downsample_factors(st.how.zxy, st.how.zz, st.how.sxy, st.how.sz);
        log.push_back(st.how.str());
        factors_given_since = true;
        break;
      case S_DSIMG:
        if (sim.downsample_images_to_scanner_size() != Succeeded::yes)
          throw vf::Skip("downsample_images_to_scanner_size returned Succeeded::no");
        log.push_back("downsample_images_to_scanner_size()");
        break;
      case S_EXAM:
        if (variant)
          sim.set_exam_info_sptr(make_exam(st.low, st.high));
        else
          sim.set_exam_info(*make_exam(st.low, st.high));
        obj_low = st.low;
        obj_high = st.high;
        log.push_back(vf::fmt("%s([%.6g,%.6g])", variant ? "set_exam_info_sptr" : "set_exam_info", st.low, st.high));
        break;
      case S_ACT:
        sim.set_activity_image_sptr(st.act.p);
        log.push_back(vf::fmt("set_activity_image_sptr(#%d)", st.act.id));
        break;
      case S_ATT:
        // (documented in the code: this also forgets the scatter-point image, so S_SP has to follow)
        sim.set_density_image_sptr(st.att.p);
        log.push_back(vf::fmt("set_density_image_sptr(#%d)", st.att.id));
        break;
      case S_SP:
        sim.set_density_image_for_scatter_points_sptr(st.sp.p);
        log.push_back(vf::fmt("set_density_image_for_scatter_points_sptr(#%d)", st.sp.id));
        break;
      case S_CACHE:
        if (variant)
          sim.set_cache_enabled(st.cache);
        else
          sim.set_use_cache(st.cache);
        log.push_back(vf::fmt("%s(%d)", variant ? "set_cache_enabled" : "set_use_cache", static_cast<int>(st.cache)));
        break;
      default:
        break;
      }
    ctx.count(std::string("setter:") + k_setter_name[s]);
    if (s == S_EXAM && variant)
      ctx.count("setter:set_exam_info_sptr");
    if (s == S_CACHE && variant)
      ctx.count("setter:set_cache_enabled");
  }
  // the second downsample_scanner of st.tmpl, applied to the template the object has now
  void downsample_again(Ctx& ctx, const State& st)
  {
    bool ok = false;
    std::string why = "returned Succeeded::no";
    try
      {
        if (st.tmpl.ds2_via_members)
          {
            sim.set_num_downsample_scanner_rings(st.tmpl.ds2_rings);
            sim.set_num_downsample_scanner_dets(st.tmpl.ds2_dets);
            ok = sim.downsample_scanner() == Succeeded::yes;
          }
        else
          ok = sim.downsample_scanner(st.tmpl.ds2_rings, st.tmpl.ds2_dets) == Succeeded::yes;
      }
    catch (const std::exception& e)
      {
        why = e.what();
      }
    if (!ok)
      throw vf::Skip("second downsample_scanner rejected: " + why);
    eff_valid = false;
    log.push_back(vf::fmt("%sdownsample_scanner(%d,%d)", st.tmpl.ds2_via_members ? "set_num_downsample_scanner_rings/dets + " : "",
                          st.tmpl.ds2_rings, st.tmpl.ds2_dets));
    ctx.count("setter:downsample_scanner");
    ctx.count("setter:downsample_scanner_of_downsampled_or_current_template");
  }
  std::string log_str(std::size_t last = 40) const
  {
    std::string o;
    const std::size_t from = log.size() > last ? log.size() - last : 0;
    if (from)
      o = "... ";
    for (std::size_t i = from; i < log.size(); ++i)
      o += (i > from ? "; " : "") + log[i];
    return o;
  }
};

struct Out
{
  shared_ptr<ProjDataInMemory> pd;
  std::vector<float> v;
  bool ok = false;
  std::string err;
  float maxval = 0;
};

// set_output_proj_data_sptr + set_up + process_data
// set_up_calls: 1 normally; 2 = set_up called twice in a row (supported: no down-sampling happens inside set_up in this harness);
// 0 = process_data again on an object that is still set up (only used when no setter was called since the last set_up)
static Out
run(Ctx& ctx, Obj& o, const State& st, int set_up_calls = 1)
{
  Out r;
  // (the template of the object, not st.tmpl.pdi: downsample_scanner() replaces it)
  r.pd.reset(new ProjDataInMemory(make_exam(st.low, st.high), o.sim.get_template_proj_data_info_sptr()->create_shared_clone()));
  r.pd->fill(-7.F); // process_data has to overwrite every bin
  o.sim.set_output_proj_data_sptr(r.pd);
  ctx.count("setter:set_output_proj_data_sptr");
  const bool derives = !o.sim.get_density_image_for_scatter_points_sptr() && set_up_calls > 0;
  try
    {
      for (int k = 0; k < set_up_calls; ++k)
        {
          if (k == 0 && derives)
            {
              o.log.push_back("(set_up derives the scatter-point image)");
              ctx.count("set_up_derives_scatter_point_image");
            }
          if (o.sim.set_up() != Succeeded::yes)
            {
              r.err = "set_up returned Succeeded::no";
              return r;
            }
          o.log.push_back("set_up");
          ctx.count("set_up_calls");
          if (k == 0 && derives)
            o.note_derivation(st, false);
        }
      if (set_up_calls == 0)
        ctx.count("process_data_again_without_set_up");
      if (set_up_calls == 2)
        ctx.count("set_up_twice_in_a_row");
      if (o.sim.process_data() != Succeeded::yes)
        {
          r.err = "process_data returned Succeeded::no";
          return r;
        }
      o.log.push_back("process_data");
      ctx.count("process_data_calls");
    }
  catch (const std::exception& e)
    {
      r.err = std::string("exception: ") + e.what();
      return r;
    }
  catch (const std::string& e)
    {
      r.err = std::string("exception: ") + e;
      return r;
    }
  // (window in force at the FIRST process_data after the template was set; a correct library uses the window of the last set_up,
  // so this is only used to describe and emulate the stale state, not to predict anything)
  if (!o.eff_valid)
    {
      o.eff_valid = true;
      o.eff_low = o.obj_low;
      o.eff_high = o.obj_high;
    }
  r.v.assign(r.pd->begin(), r.pd->end());
  for (float f : r.v)
    r.maxval = std::max(r.maxval, f);
  r.ok = true;
  return r;
}

static const Setter k_canonical[] = { S_RND, S_THR, S_TMPL, S_EXAM, S_ACT, S_ATT, S_SP, S_CACHE };

// the calls that made the down-sampled activity / attenuation image of the state: template of that moment, source images,
// downsample_images_to_scanner_size() ("should be called after having set all data")
static void
apply_prelude(Ctx& ctx, Obj& o, const State& st)
{
  State p = st;
  p.tmpl = st.dsi.tmpl;
  p.act = st.dsi.act_src;
  p.att = st.dsi.att_src;
  o.apply(ctx, p, S_TMPL);
  o.apply(ctx, p, S_EXAM);
  o.apply(ctx, p, S_ACT);
  o.apply(ctx, p, S_ATT);
  o.apply(ctx, p, S_DSIMG);
  ctx.count("fresh_objects_with_downsample_images_prelude");
}

// the setters of the final values that a fresh object still needs after RND, THR (and the prelude), in canonical order
static std::vector<Setter>
remaining_setters(const State& st)
{
  std::vector<Setter> v;
  v.push_back(S_TMPL);
  v.push_back(S_EXAM);
  if (!st.dsi.act)
    v.push_back(S_ACT);
  if (st.how.mode == 2)
    v.push_back(S_FACT);
  if (!st.dsi.att)
    v.push_back(S_ATT);
  if (st.how.mode < 2)
    v.push_back(st.how.mode == 1 ? S_SPDS : S_SP);
  v.push_back(S_CACHE);
  return v;
}

static void
configure_canonical(Ctx& ctx, Obj& o, const State& st)
{
  o.apply(ctx, st, S_RND);
  o.apply(ctx, st, S_THR);
  const bool pre = st.dsi.act || st.dsi.att;
  if (pre)
    apply_prelude(ctx, o, st);
  for (Setter s : remaining_setters(st))
    if (!(s == S_TMPL && pre && st.tmpl.id == st.dsi.tmpl.id)) // (the template is already the final one)
      o.apply(ctx, st, s);
}

// first index where two outputs differ bit-wise (NaN never equals), -1 if identical
static long
first_difference(const std::vector<float>& a, const std::vector<float>& b)
{
  if (a.size() != b.size())
    return 0;
  for (std::size_t i = 0; i < a.size(); ++i)
    if (std::memcmp(&a[i], &b[i], sizeof(float)) != 0 && !(a[i] == b[i]))
      return static_cast<long>(i);
  return -1;
}
static std::string
diff_str(const std::vector<float>& a, const std::vector<float>& b)
{
  if (a.size() != b.size())
    return vf::fmt("sizes %zu vs %zu", a.size(), b.size());
  long n = 0, first = -1;
  double maxrel = 0;
  for (std::size_t i = 0; i < a.size(); ++i)
    if (!(a[i] == b[i]))
      {
        ++n;
        if (first < 0)
          first = static_cast<long>(i);
        const double d = std::fabs(static_cast<double>(a[i]) - b[i]) / std::max(1e-300, std::max<double>(std::fabs(a[i]), std::fabs(b[i])));
        maxrel = std::max(maxrel, d);
      }
  if (first < 0)
    return "identical";
  return vf::fmt("%ld of %zu bins differ, first at flat index %ld: %.9g vs %.9g, max relative difference %.3g", n, a.size(), first,
                 static_cast<double>(a[first]), static_cast<double>(b[first]), maxrel);
}

static std::vector<Bin>
all_bins(const ProjDataInfo& pdi)
{
  std::vector<Bin> v;
  for (int seg = pdi.get_min_segment_num(); seg <= pdi.get_max_segment_num(); ++seg)
    for (int view = pdi.get_min_view_num(); view <= pdi.get_max_view_num(); ++view)
      for (int ax = pdi.get_min_axial_pos_num(seg); ax <= pdi.get_max_axial_pos_num(seg); ++ax)
        for (int t = pdi.get_min_tangential_pos_num(); t <= pdi.get_max_tangential_pos_num(); ++t)
          v.push_back(Bin(seg, view, ax, t));
  return v;
}
static std::string
bin_str(const Bin& b)
{
  return vf::fmt("bin(seg %d, view %d, ax %d, tang %d)", b.segment_num(), b.view_num(), b.axial_pos_num(), b.tangential_pos_num());
}

static Out
fresh_canonical(Ctx& ctx, const State& st, std::string* log = nullptr)
{
  Obj o;
  Out r;
  try
    {
      configure_canonical(ctx, o, st);
    }
  catch (const vf::Skip&)
    {
      throw;
    }
  catch (const std::exception& e)
    {
      r.err = std::string("exception while configuring: ") + e.what();
    }
  catch (const std::string& e)
    {
      r.err = std::string("exception while configuring: ") + e;
    }
  if (r.err.empty())
    r = run(ctx, o, st);
  if (log)
    *log = o.log_str();
  return r;
}

// ------------------------------------------------------------------------------------------------ kind "pairs"
static void
case_pairs(Ctx& ctx)
{
  const World w = gen_world(ctx);
  State st = gen_state(ctx.rng, w);
  if (ctx.rng.coin(0.85) && count_at_least(st.sp, st.thr) == 0)
    st.thr = 0.f; // keep "no scatter point at all" rare
  ctx.desc.add("kind", "pairs").add("rbase", w.rbase).add("zmid", w.zmid).add("state", st.str());
  ctx.heartbeat("pairs:first");

  Obj o1;
  configure_canonical(ctx, o1, st);
  const long r0 = g_hook.reads, w0 = g_hook.writes;
  Out out1 = run(ctx, o1, st);
  if (!out1.ok)
    throw vf::Skip("rejected: " + out1.err);
  ctx.count("cache_reads_seen", g_hook.reads - r0);
  ctx.count("cache_writes_seen", g_hook.writes - w0);
  ctx.count(st.cache ? "cfg_cache_on" : "cfg_cache_off");
  ctx.count("scatter_points", static_cast<long>(o1.sim.num_points()));
  if (o1.sim.num_points() == 0)
    ctx.count("cfg_no_scatter_point");
  const bool nonzero = out1.maxval > 0;

  // ---- every detector pair of the template, both orders
  const std::vector<Bin> bins = all_bins(*o1.sim.get_template_proj_data_info_sptr());
  ctx.count(st.tmpl.ds_rings ? "cfg_downsampled_scanner" : st.tmpl.trans_per_block ? "cfg_blocks_on_cylindrical" : "cfg_cylindrical");
  const std::size_t nsp = o1.sim.num_points();
  const double nops = 32; // float operations per scatter-point term (two products of ~10 factors, cos_angle, detection model)
  long exact = 0;
  std::set<std::pair<unsigned, unsigned>> seen;
  for (std::size_t ib = 0; ib < bins.size(); ++ib)
    {
      Bin bin = bins[ib];
      unsigned a = 0, b = 0;
      o1.sim.detectors_of(a, b, bin);
      if (a == b)
        { // not a detector PAIR: nothing the property talks about
          ctx.count("bins_with_identical_detectors_skipped");
          continue;
        }
      if (!seen.insert(std::make_pair(std::min(a, b), std::max(a, b))).second)
        ctx.count("detector_pair_seen_in_several_bins");
      double eab = 0, eba = 0;
      o1.sim.pair_estimate(eab, a, b);
      o1.sim.pair_estimate(eba, b, a);
      ctx.count("detector_pairs_checked");
      ctx.count("symmetry_checks");
      if (!std::isfinite(eab) || !std::isfinite(eba) || eab < 0 || eba < 0)
        {
          ctx.violation("pairs:negative-or-non-finite-estimate",
                        vf::fmt("%s detectors (%u,%u): est(A,B)=%.17g est(B,A)=%.17g; %s, %s", bin_str(bin).c_str(), a, b, eab, eba,
                                o1.sim.detector_str(a).c_str(), o1.sim.detector_str(b).c_str()));
          return;
        }
      if (eab == eba)
        ++exact;
      // all terms are non-negative, so sum |terms| is the estimate itself
      if (!vf::close_enough(eab, eba, vf::band32(nops, std::max(eab, eba))))
        {
          ctx.violation("symmetry:pair-estimate-changes-when-detectors-are-exchanged",
                        vf::fmt("%s detectors (%u,%u): est(A,B)=%.17g est(B,A)=%.17g, %zu scatter points", bin_str(bin).c_str(), a, b, eab,
                                eba, nsp));
          return;
        }
      // the per-pair function is what process_data stores
      const float stored = out1.pd->get_bin_value(bin);
      if (!(stored == static_cast<float>(eab)))
        {
          ctx.violation("pairs:process_data-output-differs-from-per-pair-estimate",
                        vf::fmt("%s detectors (%u,%u): stored %.9g, actual_scatter_estimate %.17g", bin_str(bin).c_str(), a, b,
                                static_cast<double>(stored), eab));
          return;
        }
      // per scatter point (a cancellation in the sum cannot hide an asymmetric term); sub-sample the bins if there are many
      if (bins.size() * nsp <= 400000 || ib % 4 == static_cast<std::size_t>(ctx.idx % 4))
        for (std::size_t sp = 0; sp < nsp; ++sp)
          {
            const double p1 = o1.sim.point_estimate(sp, a, b);
            const double p2 = o1.sim.point_estimate(sp, b, a);
            ctx.count("symmetry_checks_per_scatter_point");
            if (!std::isfinite(p1) || p1 < 0 || !vf::close_enough(p1, p2, vf::band32(nops, std::max(p1, p2))))
              {
                ctx.violation(p1 < 0 || !std::isfinite(p1) ? "pairs:negative-or-non-finite-scatter-point-term"
                                                           : "symmetry:scatter-point-term-changes-when-detectors-are-exchanged",
                              vf::fmt("%s detectors (%u,%u) scatter point %zu: %.17g vs %.17g", bin_str(bin).c_str(), a, b, sp, p1, p2));
                return;
              }
          }
    }
  ctx.count("symmetry_bit_exact", exact);
  ctx.count("distinct_detector_pairs", static_cast<long>(seen.size()));
  for (float f : out1.v)
    if (!(f >= 0) || !std::isfinite(f))
      {
        ctx.violation("pairs:negative-or-non-finite-estimate", vf::fmt("process_data output value %.9g", static_cast<double>(f)));
        return;
      }

  // ---- cache on == cache off
  ctx.heartbeat("pairs:cache");
  {
    State st2 = st;
    st2.cache = !st.cache;
    const long r1 = g_hook.reads;
    Out out2 = fresh_canonical(ctx, st2);
    if (!st2.cache && g_hook.reads != r1)
      ctx.count("cache_reads_with_cache_off", g_hook.reads - r1);
    if (!out2.ok)
      {
        ctx.violation("cache:configuration-accepted-only-with-one-cache-setting", out2.err);
        return;
      }
    ctx.count("cache_comparisons", static_cast<long>(out2.v.size()));
    if (first_difference(out1.v, out2.v) >= 0)
      {
        ctx.violation("cache:on-differs-from-off", vf::fmt("cache %d vs %d: ", static_cast<int>(st.cache), static_cast<int>(st2.cache))
                                                       + diff_str(out1.v, out2.v));
        return;
      }
  }

  // ---- linearity in the activity image, est(0) = 0
  ctx.heartbeat("pairs:linearity");
  {
    State sz = st, sy = st, s0 = st;
    sz.cache = sy.cache = s0.cache = ctx.rng.coin(0.85);
    sz.act = gen_activity(ctx.rng, st.act.g);
    const double a = ctx.rng.uniform(0.2, 3.0);
    const double b = ctx.rng.coin(0.3) ? -ctx.rng.uniform(0.2, 2.0) : ctx.rng.uniform(0.2, 3.0);
    sy.act.p = make_vox(st.act.g);
    sy.act.id = ++g_img_counter;
    {
      auto ix = st.act.p->begin_all_const();
      auto iz = sz.act.p->begin_all_const();
      for (auto iy = sy.act.p->begin_all(); iy != sy.act.p->end_all(); ++iy, ++ix, ++iz)
        *iy = static_cast<float>(a * static_cast<double>(*ix) + b * static_cast<double>(*iz));
    }
    s0.act.p = make_vox(st.act.g);
    s0.act.id = ++g_img_counter;
    s0.act.p->fill(0.F);
    Out oz = fresh_canonical(ctx, sz), oy = fresh_canonical(ctx, sy), o0 = fresh_canonical(ctx, s0);
    if (!oz.ok || !oy.ok || !o0.ok)
      {
        ctx.violation("linearity:configuration-rejected-for-another-activity-image", oz.err + " / " + oy.err + " / " + o0.err);
        return;
      }
    // float32 line integrals over at most nx+ny+nz voxels, one rounding per voxel of a*x+b*z, the solid-angle product, the
    // final conversion to float of each of the three outputs; all in relative terms of |a| est(x) + |b| est(z)
    const double n = st.act.g.nx + st.act.g.ny + st.act.g.nz + 16;
    for (std::size_t i = 0; i < oy.v.size(); ++i)
      {
        const double ref = a * static_cast<double>(out1.v[i]) + b * static_cast<double>(oz.v[i]);
        const double abs_sum = std::fabs(a) * out1.v[i] + std::fabs(b) * oz.v[i];
        ctx.count("linearity_checks");
        if (!vf::close_enough(oy.v[i], ref, vf::band32(n, abs_sum)))
          {
            ctx.violation("linearity:estimate-of-combination-differs-from-combination-of-estimates",
                          vf::fmt("%s: est(a*x+b*z)=%.9g, a*est(x)+b*est(z)=%.9g (a=%.6g b=%.6g est(x)=%.9g est(z)=%.9g), band %.3g",
                                  vf::fmt("output element %zu", i).c_str(), static_cast<double>(oy.v[i]), ref, a, b, static_cast<double>(out1.v[i]),
                                  static_cast<double>(oz.v[i]), vf::band32(n, abs_sum)));
            return;
          }
      }
    ctx.count("zero_activity_checks", static_cast<long>(o0.v.size()));
    for (std::size_t i = 0; i < o0.v.size(); ++i)
      if (!(o0.v[i] == 0.F))
        {
          ctx.violation("zero-activity:estimate-not-zero", vf::fmt("%s: %.9g", vf::fmt("output element %zu", i).c_str(), static_cast<double>(o0.v[i])));
          return;
        }
  }
  ctx.nontrivial = nonzero;
}

// ------------------------------------------------------------------------------------------------ kind "history"
static const char* const KEY_ZOOM
    = "history:scatter-point-zoom-request-overwritten-by-derived-values:downsample_density_image_for_scatter_points";
static const char* const KEY_EXAM = "history:stale-511keV-detection-efficiency:set_exam_info-after-process_data";

// returns false if a violation was reported
static bool
checkpoint(Ctx& ctx, Obj& hist, const State& st, bool first, bool& nonzero, bool changed_since_set_up = true)
{
  ctx.heartbeat("history:checkpoint");
  // reference: fresh object, canonical order
  std::string canon_log;
  Out ref = fresh_canonical(ctx, st, &canon_log);
  if (!ref.ok)
    {
      if (first)
        throw vf::Skip("rejected: " + ref.err);
      throw vf::Skip("rejected later state: " + ref.err);
    }
  nonzero = ref.maxval > 0;

  // ---- the object with the history
  const bool h_eff = hist.eff_stale();
  const float stale_low = hist.eff_low, stale_high = hist.eff_high;
  if (h_eff)
    ctx.count("states:energy-window-changed-after-process_data-with-same-template");
  if (st.how.mode == 1)
    ctx.count("checkpoints_sp_derived_by_downsample_density_image_for_scatter_points");
  if (st.how.mode == 2)
    ctx.count("checkpoints_sp_derived_in_set_up_from_set_image_downsample_factors");
  if (st.how.mode == 3)
    ctx.count("checkpoints_sp_derived_in_set_up_with_default_factors");
  if (st.how.mode && st.how.tmpl_dependent)
    ctx.count("checkpoints_sp_derived_with_automatic_zoom");
  if (st.dsi.act || st.dsi.att)
    ctx.count("checkpoints_with_image_from_downsample_images_to_scanner_size");
  if (st.tmpl.ds2_rings)
    ctx.count("checkpoints_with_twice_downsampled_scanner");
  // set_up is going to derive the scatter-point image with the factors the object holds, and the object derived one before
  // without set_image_downsample_factors since
  const bool h_zoom = !hist.sim.get_density_image_for_scatter_points_sptr() && !hist.derivations.empty() && !hist.factors_given_since;
  const std::vector<std::shared_ptr<State>> zoom_chain = hist.derivations;
  if (h_zoom)
    ctx.count("states:sp-derived-in-set_up-after-an-earlier-derivation-without-new-factors");
  const bool untouched = !changed_since_set_up && !first;
  Out got = run(ctx, hist, st, untouched && ctx.rng.coin(0.5) ? 0 : (ctx.rng.coin(0.15) ? 2 : 1));
  ctx.count("fresh_object_comparisons");
  ctx.count("history_checkpoints");
  ctx.count("bins_compared_with_fresh_object", static_cast<long>(ref.v.size()));
  const std::string ctxt = "final values: " + st.str() + "; history: " + hist.log_str();
  if (!got.ok || first_difference(got.v, ref.v) >= 0)
    {
      const std::string what = !got.ok ? ("object with history: " + got.err + ", fresh object accepts") : diff_str(got.v, ref.v);
      // attribution by emulation: the minimal history on a fresh object reproduces the output of the long history
      if (h_zoom)
        {
          // fresh object taken through the states of the earlier derivations (since the factors were last given), each derivation
          // done, then the final values - without set_image_downsample_factors
          Obj o;
          Out e2;
          bool emulated = true;
          auto reconfigure = [&](const State& to) {
            o.apply(ctx, to, S_RND);
            o.apply(ctx, to, S_THR);
            if (to.dsi.act || to.dsi.att)
              apply_prelude(ctx, o, to);
            for (Setter s : remaining_setters(to))
              if (s != S_FACT)
                o.apply(ctx, to, s);
          };
          try
            {
              for (std::size_t k = 0; k < zoom_chain.size() && emulated; ++k)
                {
                  const State& d = *zoom_chain[k];
                  if (k == 0)
                    configure_canonical(ctx, o, d);
                  else
                    reconfigure(d);
                  if (d.how.mode >= 2 && !run(ctx, o, d).ok)
                    emulated = false;
                }
              reconfigure(st);
              e2 = run(ctx, o, st);
            }
          catch (const std::exception&)
            {
              emulated = false;
            }
          if (emulated && ((got.ok && e2.ok && first_difference(e2.v, got.v) < 0) || (!got.ok && !e2.ok && e2.err == got.err)))
            {
              const State& d = *zoom_chain.back();
              ctx.violation(KEY_ZOOM,
                            "set_up derives the scatter-point image on an object that derived one before (last: " + d.how.str()
                                + vf::fmt(", attenuation image of %d planes; %zu derivation(s) since the factors were given) and "
                                          "set_image_downsample_factors was not called since: ",
                                          d.att_nz(), zoom_chain.size())
                                + (got.ok ? "output is bit-identical to" : "rejected exactly as")
                                + " the short history {fresh object taken through the states of those derivations, then the final values} "
                                  "- the factors in force are no longer the requested ones; vs fresh(final): "
                                + what + "; " + ctxt + "; emulation: " + o.log_str(60));
              return false;
            }
        }
      if (got.ok && h_eff)
        {
          // fresh object, stale window, process once, then only set_exam_info(final) + set_up
          State e = st;
          e.low = stale_low;
          e.high = stale_high;
          Obj o;
          configure_canonical(ctx, o, e);
          Out e1 = run(ctx, o, e);
          o.apply(ctx, st, S_EXAM);
          Out e2 = run(ctx, o, st);
          if (e1.ok && e2.ok && first_difference(e2.v, got.v) < 0)
            {
              ctx.violation(KEY_EXAM,
                            vf::fmt("energy window changed from [%.6g,%.6g] to [%.6g,%.6g] by set_exam_info after a process_data (template "
                                    "unchanged): output is bit-identical to the 2-step history {window [%.6g,%.6g], set_up, process_data, "
                                    "set_exam_info(final), set_up, process_data} on a fresh object; vs fresh(final): ",
                                    stale_low, stale_high, st.low, st.high, stale_low, stale_high)
                                + what + "; " + ctxt);
              return false;
            }
        }
      ctx.violation(got.ok ? "history:output-differs-from-fresh-object" : "history:rejected-after-history-but-accepted-when-fresh",
                    what + vf::fmt(" [energy window changed after a process_data with this template: %d] ", static_cast<int>(h_eff)) + ctxt);
      return false;
    }

  // ---- second fresh object, random setter order
  {
    ctx.heartbeat("history:fresh-random-order");
    const bool pre = st.dsi.act || st.dsi.att;
    std::vector<Setter> order = remaining_setters(st);
    if (!pre)
      {
        order.push_back(S_RND);
        order.push_back(S_THR);
      }
    ctx.rng.shuffle(order);
    auto has = [&](Setter s) { return std::find(order.begin(), order.end(), s) != order.end(); };
    auto pos = [&](Setter s) { return std::find(order.begin(), order.end(), s) - order.begin(); };
    auto move_before = [&](Setter s, Setter before) {
      if (has(s) && has(before) && pos(s) > pos(before))
        {
          order.erase(order.begin() + pos(s));
          order.insert(order.begin() + pos(before), s);
        }
    };
    // set_density_image_sptr documents (in its body) that it discards the scatter-point image: it has to come first;
    // threshold and random-placement flag are used when the scatter-point image is given (see the top of this file);
    // a derivation with an automatic zoom reads the template
    const Setter give = st.how.mode == 1 ? S_SPDS : S_SP;
    move_before(S_ATT, give);
    move_before(S_THR, give);
    move_before(S_RND, give);
    if (st.how.uses_tmpl)
      move_before(S_TMPL, give);
    Obj fr;
    Out got2;
    try
      {
        if (pre)
          { // (the prelude needs its own template, activity and attenuation image first; RND/THR precede every scatter-point image)
            fr.apply(ctx, st, S_RND);
            fr.apply(ctx, st, S_THR);
            apply_prelude(ctx, fr, st);
          }
        for (Setter s : order)
          fr.apply(ctx, st, s, static_cast<int>(ctx.rng.range(0, 1)));
      }
    catch (const vf::Skip&)
      {
        throw;
      }
    catch (const std::exception& e)
      {
        got2.err = std::string("exception while configuring: ") + e.what();
      }
    if (got2.err.empty())
      got2 = run(ctx, fr, st);
    ctx.count("fresh_object_comparisons");
    ctx.count("fresh_random_order_comparisons");
    if (!got2.ok || first_difference(got2.v, ref.v) >= 0)
      {
        const std::string what = !got2.ok ? ("random order: " + got2.err + ", canonical order accepted") : diff_str(got2.v, ref.v);
        ctx.violation(got2.ok ? "fresh:random-setter-order-differs-from-canonical-order" : "fresh:random-setter-order-rejected",
                      what + "; order: " + fr.log_str() + "; canonical: " + canon_log + "; final values: " + st.str());
        return false;
      }
  }
  return true;
}

static void
case_history(Ctx& ctx)
{
  World w = gen_world(ctx); // (zmid changes when downsample_images_to_scanner_size() moves the images to the template grid)
  State st = gen_state(ctx.rng, w);
  {
    const double u = ctx.rng.uniform(0, 1);
    if (u < 0.5)
      st.how = gen_how(ctx.rng, u < 0.25 ? 1 : u < 0.4 ? 2 : 3, st.att.g.nz);
  }
  if (ctx.rng.coin(0.3))
    { // "aligned" history: the images share the z-middle of the template grids (all templates of the history)
      w.tmpl_zmid = w.zmid;
      st.tmpl = gen_tmpl(ctx.rng, w);
      ctx.count("histories_with_images_on_the_z_middle_of_the_template_grid");
    }
  const int nsteps = static_cast<int>(ctx.rng.range(4, ctx.thorough() ? 24 : 20));
  const double p_check = ctx.rng.uniform(0.25, 0.6);
  ctx.desc.add("kind", "history").add("steps", nsteps).add("rbase", w.rbase).add("zmid", w.zmid);
  ctx.desc.add("initial", st.str());
  ctx.heartbeat("history:start");
  ctx.count("histories");

  Obj hist;
  // gives the scatter-point image of the state (again) to the history object
  auto give_sp = [&]() {
    if (st.how.mode == 0)
      hist.apply(ctx, st, S_SP);
    else if (st.how.mode == 1)
      hist.apply(ctx, st, S_SPDS);
    else
      hist.apply(ctx, st, S_ATT); // the attenuation image again: set_up derives the scatter-point image again
  };
  auto new_explicit_sp = [&]() {
    st.how = SpHow();
    // (a down-sampled attenuation image lives in the object only: st.att is its source, on a grid with another z-middle)
    st.sp = st.dsi.att ? gen_attenuation(ctx.rng, gen_geo(ctx.rng, w), "sp") : gen_sp_image(ctx.rng, w, st.att);
    hist.apply(ctx, st, S_SP);
  };
  auto new_att_image = [&]() {
    st.att = gen_attenuation(ctx.rng, (!st.dsi.att && ctx.rng.coin(0.5)) ? st.att.g : gen_geo(ctx.rng, w), "att");
    st.dsi.att = false;
  };
  try
    {
      // initial configuration of the history object: random order as well (with the constraints described at the top of this file)
      std::vector<Setter> order(k_canonical + 1, k_canonical + 8);
      if (st.how.mode == 2)
        order.push_back(S_FACT);
      ctx.rng.shuffle(order);
      hist.apply(ctx, st, S_RND); // the flag stays off for the whole history
      for (Setter s : order)
        if (s != S_SP)
          hist.apply(ctx, st, s, static_cast<int>(ctx.rng.range(0, 1)));
      if (st.how.mode < 2)
        give_sp();
    }
  catch (const vf::Skip&)
    {
      throw;
    }
  catch (const std::exception& e)
    {
      throw vf::Skip(std::string("rejected while configuring: ") + e.what());
    }
  bool nonzero = false;
  if (!checkpoint(ctx, hist, st, true, nonzero))
    return;
  bool pending = false;
  for (int step = 0; step < nsteps; ++step)
    {
      ctx.count("history_steps");
      const long what = ctx.rng.range(0, 15);
      std::string step_error;
      ctx.heartbeat("history:step");
      try
        {
          switch (what)
            {
            case 0:
            case 1: // new activity image (sometimes on another grid)
              st.act = gen_activity(ctx.rng, (!st.dsi.act && ctx.rng.coin(0.6)) ? st.act.g : gen_geo(ctx.rng, w));
              st.dsi.act = false;
              hist.apply(ctx, st, S_ACT);
              ctx.count("steps_new_activity_image");
              break;
            case 2: // new attenuation image; the scatter-point image has to be given again (documented in set_density_image_sptr)
              new_att_image();
              if (st.how.mode == 3)
                {
                  ctx.count("steps_new_attenuation_image_with_downsample_factors_still_in_force");
                  hist.apply(ctx, st, S_ATT);
                }
              else if (st.how.mode == 2)
                { // the factors stay in force (sometimes given again); set_up derives the scatter-point image from the new image
                  if (!how_ok(st.how, st.att.g.nz) || ctx.rng.coin(0.4))
                    {
                      st.how = gen_how(ctx.rng, 2, st.att.g.nz);
                      hist.apply(ctx, st, S_FACT);
                    }
                  else
                    ctx.count("steps_new_attenuation_image_with_downsample_factors_still_in_force");
                  hist.apply(ctx, st, S_ATT);
                }
              else
                {
                  hist.apply(ctx, st, S_ATT);
                  if (st.how.mode == 1 && ctx.rng.coin(0.7))
                    {
                      if (!how_ok(st.how, st.att.g.nz) || ctx.rng.coin(0.5))
                        st.how = gen_how(ctx.rng, 1, st.att.g.nz);
                      hist.apply(ctx, st, S_SPDS);
                    }
                  else if (st.how.mode == 1 || ctx.rng.coin(0.5))
                    new_explicit_sp();
                  else
                    hist.apply(ctx, st, S_SP);
                }
              ctx.count("steps_new_attenuation_image");
              break;
            case 3: // new scatter-point image
              new_explicit_sp();
              ctx.count("steps_new_scatter_point_image");
              break;
            case 4: // new attenuation threshold, then the scatter-point image (the same or a new one) is given again
              st.thr = gen_threshold(ctx.rng);
              hist.apply(ctx, st, S_THR);
              if (st.how.mode == 0 && ctx.rng.coin(0.3))
                new_explicit_sp();
              else
                give_sp();
              ctx.count("steps_new_threshold_and_scatter_point_image_again");
              break;
            case 5:
            case 6: // template (the output projection data are replaced in run())
              st.tmpl = gen_tmpl(ctx.rng, w);
              hist.apply(ctx, st, S_TMPL);
              if (st.how.mode == 1 && st.how.tmpl_dependent)
                hist.apply(ctx, st, S_SPDS); // automatic zoom: derived from the template, so derived again
              else if (st.how.mode == 3)
                hist.apply(ctx, st, S_ATT); // ... by the next set_up
              ctx.count("steps_new_template");
              break;
            case 7:
            case 8: // energy window
              gen_window(ctx.rng, st.low, st.high);
              hist.apply(ctx, st, S_EXAM, static_cast<int>(ctx.rng.range(0, 1)));
              ctx.count("steps_new_energy_window");
              break;
            case 9: // cache switch
              st.cache = !st.cache;
              hist.apply(ctx, st, S_CACHE, static_cast<int>(ctx.rng.range(0, 1)));
              ctx.count("steps_cache_switch");
              break;
            case 10: // a setter called again with the value it already has
              {
                static const Setter again[] = { S_RND, S_THR, S_TMPL, S_EXAM, S_ACT, S_CACHE, S_SP };
                Setter s = again[ctx.rng.range(0, 6)];
                if (s == S_ACT && st.dsi.act)
                  s = S_EXAM; // (the down-sampled activity image exists in the object only)
                if (s == S_SP && st.how.mode)
                  s = st.how.mode == 1 ? S_SPDS : st.how.mode == 2 ? S_FACT : S_EXAM;
                hist.apply(ctx, st, s, static_cast<int>(ctx.rng.range(0, 1)));
                ctx.count("steps_same_value_again");
                break;
              }
            case 12: // scatter-point image derived from the attenuation image in force by the public down-sampling function
              st.how = gen_how(ctx.rng, 1, st.att_nz());
              hist.apply(ctx, st, S_SPDS);
              ctx.count("steps_sp_by_downsample_density_image_for_scatter_points");
              if (st.how.tmpl_dependent)
                ctx.count("steps_sp_by_downsample_density_image_for_scatter_points_automatic_zoom");
              break;
            case 13: // down-sampling factors + (the same or a new) attenuation image: set_up derives the scatter-point image
              if (ctx.rng.coin(0.3))
                { // the automatic factors of a default-constructed object: the setter rejects negative values, the direct
                  // call accepts them; then the (same or a new) attenuation image, set_up derives with the factors in force
                  st.how = gen_how(ctx.rng, 3, 0);
                  st.how.mode = 1;
                  hist.apply(ctx, st, S_SPDS);
                  st.how.mode = 3;
                  if (st.dsi.att || ctx.rng.coin(0.5))
                    new_att_image();
                  hist.apply(ctx, st, S_ATT);
                  ctx.count("steps_sp_by_default_factors_and_set_up");
                  break;
                }
              {
                if (st.dsi.att || ctx.rng.coin(0.5))
                  new_att_image();
                st.how = gen_how(ctx.rng, 2, st.att.g.nz);
                const bool factors_first = ctx.rng.coin(0.5);
                if (factors_first)
                  hist.apply(ctx, st, S_FACT);
                hist.apply(ctx, st, S_ATT);
                if (!factors_first)
                  hist.apply(ctx, st, S_FACT);
                ctx.count("steps_sp_by_set_image_downsample_factors_and_set_up");
                break;
              }
            case 14: // activity and attenuation image zoomed to the grid of the current template, scatter-point image given again
              {
                const bool sp_is_null = st.dsi.act || st.dsi.att; // (the attenuation image is replaced first: that discards it)
                if (sp_is_null)
                  { // (one level of zooming only: both images are replaced first)
                    st.act = gen_activity(ctx.rng, gen_geo(ctx.rng, w));
                    hist.apply(ctx, st, S_ACT);
                    new_att_image();
                    hist.apply(ctx, st, S_ATT);
                  }
                const float old_zmid = w.zmid;
                st.dsi.tmpl = st.tmpl;
                st.dsi.act_src = st.act;
                st.dsi.att_src = st.att;
                st.dsi.act = st.dsi.att = true;
                hist.apply(ctx, st, S_DSIMG);
                {
                  const Vox& a = dynamic_cast<const Vox&>(hist.sim.get_activity_image());
                  w.zmid = (a.get_max_index() + a.get_min_index()) * a.get_voxel_size().z() / 2.F;
                }
                if (st.how.mode == 0 && !sp_is_null && std::fabs(w.zmid - old_zmid) < 0.03f && ctx.rng.coin(0.7))
                  { // same z-middle: the scatter-point image given before is still acceptable and stays (the function does not touch it)
                    w.zmid = old_zmid;
                    ctx.count("steps_downsample_images_to_scanner_size_scatter_point_image_kept");
                  }
                else if (ctx.rng.coin(0.6))
                  {
                    st.how = gen_how(ctx.rng, 1, st.att_nz());
                    hist.apply(ctx, st, S_SPDS);
                    ctx.count("steps_downsample_images_to_scanner_size_then_sp_derived");
                  }
                else
                  new_explicit_sp();
                ctx.count("steps_downsample_images_to_scanner_size");
                break;
              }
            case 15: // downsample_scanner() on the template in force (cylindrical; at most two levels)
              {
                std::vector<int> dets;
                const int cur_dets = st.tmpl.eff_dets(), cur_rings = st.tmpl.eff_rings();
                const int cur_tang = hist.sim.get_template_proj_data_info_sptr()->get_num_tangential_poss();
                if (!st.tmpl.trans_per_block && !st.tmpl.ds2_rings)
                  for (int d = 8; d <= cur_dets; d += 2)
                    if (static_cast<int>(std::ceil(cur_tang * static_cast<float>(d) / cur_dets)) + 1 <= d - 2)
                      dets.push_back(d);
                if (dets.empty())
                  {
                    ctx.count("steps_downsample_scanner_not_available");
                    break;
                  }
                st.tmpl.ds2_dets = ctx.rng.pick(dets);
                st.tmpl.ds2_rings = static_cast<int>(ctx.rng.range(2, cur_rings));
                st.tmpl.ds2_via_members = ctx.rng.coin(0.3);
                st.tmpl.id = ++g_tmpl_counter;
                hist.downsample_again(ctx, st);
                if (st.how.mode == 1 && st.how.tmpl_dependent)
                  hist.apply(ctx, st, S_SPDS);
                else if (st.how.mode == 3)
                  hist.apply(ctx, st, S_ATT);
                ctx.count("steps_downsample_scanner_on_current_template");
                break;
              }
            default: // nothing new: set_up / process_data again
              ctx.count("steps_rerun_without_change");
              break;
            }
        }
      catch (const vf::Skip&)
        {
          throw;
        }
      catch (const std::exception& e)
        {
          step_error = e.what();
        }
      catch (const std::string& e)
        {
          step_error = e;
        }
      if (!step_error.empty())
        { // the object with the history rejected a call: a fresh object has to reject the same final values
          ctx.heartbeat("history:step-rejected");
          std::string canon_log;
          Out ref = fresh_canonical(ctx, st, &canon_log);
          if (!ref.ok)
            throw vf::Skip("step rejected, also by a fresh object: " + step_error + " / " + ref.err);
          ctx.violation("history:call-rejected-after-history-but-accepted-when-fresh",
                        step_error + "; final values: " + st.str() + "; history: " + hist.log_str() + "; fresh: " + canon_log);
          return;
        }
      const bool changed = pending || what != 11;
      pending = true;
      if (ctx.rng.coin(p_check) || what == 11)
        {
          if (!checkpoint(ctx, hist, st, false, nonzero, changed))
            return;
          pending = false;
        }
    }
  if (pending && !checkpoint(ctx, hist, st, false, nonzero))
    return;
  ctx.nontrivial = nonzero;
}

static void
run_case(Ctx& ctx)
{
  g_img_counter = 0;
  g_tmpl_counter = 0;
  if (ctx.idx % 3 == 0)
    case_pairs(ctx);
  else
    case_history(ctx);
}

int
main(int argc, char** argv)
{
  vg::quiet();
  g_debug = std::getenv("VERIF_C16_DEBUG") != nullptr;
  return vf::verif_main(argc, argv, "C16", run_case);
}
