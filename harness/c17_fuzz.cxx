// libFuzzer build of the C17 harness: the same entry points (run_entry) driven in-process by coverage-guided mutation.
// libFuzzer is only the input generator; verdicts come from c17_parsing's mode "corpus" (isolated child per input).
#define C17_LIBFUZZER 1
#include "c17_parsing.cxx"
